"""Culture parser configuration methods: the REAL methods of the working tree's configuration objects vs the Lean
evaluator (`RTV.CultureCfg`, driver op `cc.eval`) on the definitions REGENERATED from the source text by
harness/translate/cultureconfig.py.

unit(ctx)      every translated method of every date-time culture (en, es, fr, pt, it, de, nl, zh) on
               (a) every term of the lists / literals / regex alternatives of ALL methods of the culture (plain, padded,
                   upper-cased, prefixed, suffixed, plural, truncated), (b) the expressions of contracts/C08.json and their
                   word n-grams, (c) the entity texts of the DateTime Specs of the culture and their n-grams, (d) seeded noise
                   over the culture's alphabet + Unicode space / case specials; int parameters over -1..25.
               A difference is reported as `correspondence cultureconfig:<culture dir>:<Class>.<method>`.
search(ctx, proof_problems)
               a theorem on the regenerated tables broke: the real methods are evaluated on the term tables recorded in
               contracts/C08config.json (values on the tree the theorems were written for); every term whose value changed
               is replayed through recognize_datetime inside the contract expressions that contain it, judged by the
               property's own oracle (lib/calcorr.c08_oracle) -> a concrete failing input.
baseline       `/venv/bin/python harness/lib/cultureconfigcorr.py --baseline` rewrites contracts/C08config.json (after a
               `fix:` commit that changes a configuration)."""
import datetime as dt
import glob
import json
import multiprocessing
import os
import sys

if __name__ == '__main__':
    sys.path.insert(0, os.path.dirname(os.path.dirname(os.path.abspath(__file__))))

from lib import common  # noqa: E402
from lib.common import cps  # noqa: E402

BASELINE = os.path.join(common.VERIF, 'contracts', 'C08config.json')
SPEC_LANG = {'en-us': 'English', 'es-es': 'Spanish', 'fr-fr': 'French', 'pt-br': 'Portuguese', 'it-it': 'Italian',
             'de-de': 'German', 'nl-nl': 'Dutch', 'zh-cn': 'Chinese'}
SPECIALS = ['\t', ' ', '　', ' ', 'İ', 'I', 'É', 'ß', 'ẞ', 'ǅ', 'K', 'ſ',
            'Ａ', 'Ñ', 'Ü', '0', '7', "'", '-', '\n', '\u0085', '​']


# ------------------------------------------------------------------ inputs

def enum_regex(node, cap=60):
    """bounded enumeration of strings of a translated regex AST (harness/translate/regexes.py form), lower-case
    representatives of classes, zero-width assertions ignored"""
    k = node[0]
    if k == 'cls':
        if node[2]:
            return []
        out = []
        for it in node[1]:
            if it[0] == 'range':
                for c in range(it[1], min(it[2], it[1] + 3) + 1):
                    ch = chr(c)
                    if ch.lower() == ch and ch not in out:
                        out.append(ch)
            elif it[1] == 'digit':
                out.append('1')
            elif it[1] == 'space':
                out.append(' ')
            elif it[1] == 'word':
                out.append('a')
        return out[:4]
    if k == 'seq':
        acc = ['']
        for x in node[1]:
            part = enum_regex(x, cap)
            acc = [a + b for a in acc for b in part][:cap]
            if not acc:
                return []
        return acc
    if k == 'alt':
        out = []
        for b in node[1]:
            out += enum_regex(b, cap)
        return out[:cap * 2]
    if k == 'rep':
        body = enum_regex(node[1], cap)
        mn, mx = node[2], node[3]
        counts = [mn] if mx == mn else [mn, mn + 1]
        out = []
        for c in counts:
            acc = ['']
            for _ in range(c):
                acc = [a + b for a in acc for b in body][:cap]
            out += acc
        return out[:cap]
    if k == 'grp':
        return enum_regex(node[2], cap)
    return ['']


def ngrams(text):
    toks = text.split()
    out = [text]
    if len(toks) > 1:
        out += toks[:1] + toks[-1:] + [' '.join(toks[:2]), ' '.join(toks[-2:]), ' '.join(toks[1:]), ' '.join(toks[:-1])]
    return out


def spec_texts(culture):
    """entity texts (`Text` of every expected result) of the DateTime Specs of one culture"""
    out = []
    root = os.path.join(common.REPO, 'Specs', 'DateTime', SPEC_LANG[culture])
    for path in sorted(glob.glob(os.path.join(root, '*.json'))):
        try:
            specs = json.load(open(path, encoding='utf-8-sig'))
        except Exception:
            continue
        for s in specs:
            for r in (s.get('Results') or []):
                if isinstance(r, dict) and isinstance(r.get('Text'), str):
                    out.append(r['Text'])
    seen, res = set(), []
    for x in out:
        if x not in seen:
            seen.add(x)
            res.append(x)
    return res


def contract_texts(culture):
    from lib import calcorr
    c = calcorr.load_contract('C08')['cultures']
    out = []
    for e in c.get(culture, []):
        out.append(e['text'])
        if e.get('input'):
            out.append(e['input'])
    return out


def term_pool(t):
    """the culture's own terms: literals and list items of every method + bounded regex enumerations"""
    from translate import regexes as rx
    import re
    terms = []
    for m in t['methods']:
        terms += m['words']
    for ref in sorted(t['regexes']):
        pat, flags, _ = t['regexes'][ref]
        try:
            ast_ = rx.parse(re.sub(r'\(\?P?<([A-Za-z_][A-Za-z0-9_]*)>', '(?:', pat), flags)
            terms += enum_regex(ast_)
        except Exception:
            pass
    seen, out = set(), []
    for w in terms:
        if w not in seen and 'Σ' not in w:
            seen.add(w)
            out.append(w)
    return out


def variations(w):
    return [w, ' ' + w + ' ', w.upper(), 'x ' + w, w + ' x', w + 's', w[:-1], w + w, '\t' + w.title() + ' ', 'the ' + w + ' day']


def build_pool(ctx, t):
    """-> (texts for one-string methods, tag per text)"""
    r = ctx.rng('cultureconfig', t['dir'])
    terms = term_pool(t)
    texts, tags = [], []

    def add(x, tag):
        if 'Σ' in x or 'Σ' in x:
            return          # str.lower()'s final-sigma rule is not modelled
        texts.append(x)
        tags.append(tag)
    for w in terms:
        vs = variations(w)
        if not ctx.thorough:          # quick: the plain term, padded, suffixed + two seeded other forms
            vs = vs[:2] + [vs[4]] + r.sample(vs[2:4] + vs[5:], 2)
        for v in vs:
            add(v, 'term')
    for i, w in enumerate(terms):
        add(w + ' ' + terms[(i * 7 + 3) % len(terms)], 'term-pair')
    for x in contract_texts(t['culture']):
        for g in ngrams(x):
            add(g, 'contract')
    sp = spec_texts(t['culture'])
    if not ctx.thorough and len(sp) > 300:
        sp = r.sample(sp, 300)
    for x in sp:
        for g in (ngrams(x) if ctx.thorough else ngrams(x)[:4]):
            add(g, 'specs')
    alphabet = sorted(set(''.join(terms))) or ['a']
    for _ in range(3000 if ctx.thorough else 250):
        n = r.randint(0, 12)
        s = ''.join(r.choice(SPECIALS) if r.random() < 0.15 else r.choice(alphabet) for _ in range(n))
        if r.random() < 0.4 and terms:
            w = r.choice(terms)
            s = s[:n // 2] + w + s[n // 2:] if r.random() < 0.5 else w + s
        add(s, 'noise')
    add('', 'noise')
    seen, ot, og = set(), [], []
    for x, g in zip(texts, tags):
        if x not in seen:
            seen.add(x)
            ot.append(x)
            og.append(g)
    return ot, og


INTS = [-1, 0, 1, 5, 6, 11, 12, 13, 18, 23, 24, 25]


def jobs_for(m, texts, r):
    """argument tuples (strs, ints) of one method"""
    ns = sum(1 for _, ty in m['params'] if ty == 'str')
    ni = sum(1 for _, ty in m['params'] if ty == 'int')
    out = []
    if ns == 0:
        base = [()]
    elif ns == 1:
        base = [(x,) for x in texts]
    else:
        own = m['words'] or texts[:5]
        sub = texts[::max(1, len(texts) // 150)]
        base = [(a, b) for a in sub for b in (own + [a])][:4000]
        base = [tuple(list(p) + [p[-1]] * (ns - 2)) for p in base]
    if ni == 0:
        return [(b, ()) for b in base]
    if ns == 1 and len(base) > 400:
        base = base[::max(1, len(base) // 400)] + [(w,) for w in m['words']]
    for b in base:
        for i in INTS:
            out.append((b, tuple([i] * ni)))
    return out


# ------------------------------------------------------------------ the implementation (forked workers, one per culture)

def canon_atom(v):
    if isinstance(v, bool):
        return 'b:%d' % (1 if v else 0)
    if isinstance(v, int):
        return 'i:%d' % v
    if isinstance(v, str):
        return 's:' + cps(v)
    if v is None:
        return 'n'
    return 'x:' + type(v).__name__


def canon(v, truthy, fields):
    if truthy:
        return 'b:%d' % (1 if v else 0)
    if fields and type(v).__name__ == fields[0]:
        try:
            return 'r:' + '|'.join(canon_atom(getattr(v, f)) for f in fields[1:])
        except AttributeError as e:
            return 'x:%s' % e
    return canon_atom(v)


def model_truth(ans):
    return 'b:0' if ans in ('b:0', 'i:0', 's:-', 'n') else ('b:1' if ans[:2] in ('b:', 'i:', 's:', 'r:') else ans)


def _work(arg):
    culture, culdir, reqs = arg
    from translate import cultureconfig as cc
    inst = cc.instances(culture, culdir)
    out = []
    for cls, mname, truthy, fields, calls in reqs:
        obj = inst[cls]
        attr = mname
        if mname.startswith('__') and not mname.endswith('__'):
            attr = '_%s%s' % (cls.lstrip('_'), mname)
        fn = getattr(obj, attr)
        res = []
        for args in calls:
            try:
                res.append(canon(fn(*args), truthy, fields))
            except Exception as e:
                res.append('err:' + type(e).__name__)
        out.append(res)
    return out


def run_impl(batches):
    """batches: [(culture, culdir, reqs)] -> results aligned"""
    mp = multiprocessing.get_context('fork')
    with mp.Pool(min(8, len(batches))) as pool:
        return pool.map(_work, batches, chunksize=1)


def param_order(m, strs, ints):
    """positional arguments in declaration order"""
    si, ii, out = 0, 0, []
    for _, ty in m['params']:
        if ty == 'str':
            out.append(strs[si])
            si += 1
        else:
            out.append(ints[ii])
            ii += 1
    return out


# ------------------------------------------------------------------ unit correspondence

def unit(ctx):
    from translate import cultureconfig as cc
    ts = cc.tables()
    r = ctx.rng('cultureconfig-jobs')
    idx = 0
    batches, lines, meta = [], [], []
    n_meth, n_unsup = 0, 0
    unsupported = {}
    for t in ts:
        texts, tags = build_pool(ctx, t)
        ctx.extra.setdefault('cultureconfig_pool', {})[t['dir']] = len(texts)
        reqs = []
        for m in t['methods']:
            calls = jobs_for(m, texts, r)
            ns = sum(1 for _, ty in m['params'] if ty == 'str')
            reqs.append((m['cls'], m['name'], m['truthy'], m['fields'], [param_order(m, s, i) for s, i in calls]))
            for s, i in calls:
                lines.append('cc.eval\t%d\t%s\t%d\t%s' % (idx, m['key'], ns, '\t'.join([cps(x) for x in s] + [str(x) for x in i])))
                meta.append((t['dir'], m, s, i))
            ctx.count('cultureconfig:%s' % t['dir'], len(calls))
            idx += 1
            n_meth += 1
        batches.append((t['culture'], t['dir'], reqs))
        for k, why in t['unsupported']:
            unsupported[k] = why
            n_unsup += 1
    import time
    t0 = time.time()
    impl_nested = run_impl(batches)
    impl = [x for per_culture in impl_nested for per_method in per_culture for x in per_method]
    t1 = time.time()
    model = common.driver(lines)
    ctx.extra['cultureconfig_wall'] = {'implementation_s': round(t1 - t0, 1), 'lean_driver_s': round(time.time() - t1, 1)}
    if len(impl) != len(model):
        raise common.InfraError('cultureconfig: %d implementation answers, %d model answers' % (len(impl), len(model)))
    bad = {}
    for (culdir, m, s, i), a, b in zip(meta, impl, model):
        bm = model_truth(b) if m['truthy'] else b
        if a != bm:
            key = m['key']
            bad.setdefault(key, []).append((s, i, a, b))
        elif a not in ('b:0', 'i:0', 'n', 's:-') and not a.startswith('r:b:0'):
            ctx.nontriv(('cc', m['key'], s, i))
    for key, items in sorted(bad.items()):
        s, i, a, b = items[0]
        culdir, rest = key.split('/', 1)
        ctx.report('correspondence', 'cultureconfig:%s:%s' % (culdir, rest),
                   '%s%r: implementation %s, translated definition (Lean evaluator) %s; %d differing call(s)' % (
                       key, tuple(s) + tuple(i), a, b, len(items)),
                   failing_input={'method': key, 'strs': list(s), 'ints': list(i), 'implementation': a, 'model': b})
    ctx.extra['cultureconfig_methods_translated'] = n_meth
    ctx.extra['cultureconfig_methods_unsupported'] = dict(sorted(unsupported.items()))
    ctx.extra['cultureconfig_folded_calls'] = sorted({f for t in ts for f in t['folded']})
    if lines:
        ctx.sample({'op': lines[len(lines) // 2], 'implementation': impl[len(lines) // 2]})
    return ts


# ------------------------------------------------------------------ pipeline: the culture's own next / last / this words

SWEEP_REFS = [dt.datetime(2020, 5, 20, 10, 0, 0), dt.datetime(2021, 1, 3, 0, 0, 0), dt.datetime(2020, 1, 31, 14, 30, 0),
              dt.datetime(2019, 12, 30, 23, 59, 59), dt.datetime(2024, 2, 29, 0, 0, 0)]
SWEEP_SOURCES = (('DateParserConfiguration._next_prefix_regex', 1), ('DateParserConfiguration._past_prefix_regex', -1),
                 ('DatePeriodParserConfiguration.this_prefix_regex', 0))
SWEEP_NOUNS = (('week', 'WeekTerms'), ('month', 'MonthTerms'), ('year', 'YearTerms'))


def sweep_words(t):
    """[(word, expected swift)]: bounded enumeration of the culture's NextPrefixRegex / PreviousPrefixRegex (as held by the
    date parser configuration, i.e. the regexes the extractors are built from) and ThisPrefixRegex"""
    from translate import regexes as rx
    import re
    out = []
    for suffix, k in SWEEP_SOURCES:
        for ref in sorted(t['regexes']):
            if not ref.endswith(suffix):
                continue
            pat, flags, _ = t['regexes'][ref]
            try:
                ast_ = rx.parse(re.sub(r'\(\?P?<([A-Za-z_][A-Za-z0-9_]*)>', '(?:', pat), flags)
            except Exception:
                continue
            for w in enum_regex(ast_, cap=80):
                if w.strip() and 'ſ' not in w and 'ı' not in w:
                    out.append((w, k))
    seen, res = set(), []
    for w, k in out:
        if w not in seen:
            seen.add(w)
            res.append((w, k))
    return res


def word_cases(ctx, ts):
    """'<next|last|this word> <week|month|year noun>' of every culture whose configuration holds the three prefix regexes,
    through recognize_datetime.  The property (C08) states the period containing R shifted by +1 / -1 / 0.  Reported only
    when the whole expression IS recognised as one date range and its value is the property's value for a DIFFERENT
    shift (e.g. the culture's word for `last` resolves to the current week): signature `<last|next|this>-as-<…>-<culture>-<family>`."""
    from lib import calcorr
    r = ctx.rng('cultureconfig-words')
    cases = []
    for t in ts:
        if t['dir'] == 'chinese':
            continue
        words = sweep_words(t)
        nouns = []
        for fam, lname in SWEEP_NOUNS:
            for ref, items in sorted(t['lists'].items()):
                if ref.endswith('DateTime.' + lname) and items:
                    nouns.append((fam, items[0]))
                    break
        if not words or not nouns:
            continue
        if not ctx.thorough:          # quick: per shift the first 4 instances + 8 seeded ones, one seeded reference each
            keep = []
            for k in (1, -1, 0):
                ws = [x for x in words if x[1] == k]
                keep += ws[:4] + r.sample(ws[4:], min(8, len(ws[4:])))
            words = keep
        for w, k in words:
            refs = SWEEP_REFS if ctx.thorough else [r.choice(SWEEP_REFS)]
            for fam, noun in nouns:
                for R in refs:
                    cases.append(('%s %s' % (w, noun), R, fam, k, t['culture'], w))
    return cases


def judge_words(ctx, cases, results):
    from lib import calcorr
    name = {1: 'next', -1: 'last', 0: 'this'}
    reported = {}
    for (expr, R, fam, k, cul, w), res in zip(cases, results):
        ctx.count('pipeline-words:%s:%s' % (cul, fam))
        ent = calcorr.whole_entity(res, expr)
        if not ent or ent[3].split('.')[-1] != 'daterange':
            continue
        got = [{kk: v for kk, v in x.items() if kk != 'Mod'} for x in ent[4]]
        want = calcorr.c08_oracle(fam, k, R)
        if got == want:
            ctx.nontriv(('cc-words', cul, fam, expr, str(R)))
            continue
        other = [k2 for k2 in (-1, 0, 1) if k2 != k and got == calcorr.c08_oracle(fam, k2, R)]
        if not other:
            continue            # some other reading (rolling period, partial entity, …): not judged here
        sig = '%s-as-%s-%s-%s' % (name[k], name[other[0]], cul, fam)
        reported[sig] = reported.get(sig, 0) + 1
        if reported[sig] > 3:
            continue
        ctx.report('property', sig,
                   "%r (%s) at %s: got %r; '%s' is one of the culture's own %s-words (its %s regex), the property states %r" % (
                       expr, cul, R, got, w, name[k], {1: 'NextPrefixRegex', -1: 'PreviousPrefixRegex', 0: 'ThisPrefixRegex'}[k], want),
                   failing_input={'op': 'recognize_datetime', 'query': expr, 'culture': cul,
                                  'reference': R.strftime('%Y-%m-%d %H:%M:%S'), 'family': fam, 'params': k,
                                  'implementation': got, 'property_expects': want},
                   property_fails=True)
    ctx.extra['cultureconfig_word_sweep'] = {'cases': len(cases), 'signatures': reported}


# the culture's own words for today / tomorrow / yesterday / … (the same tables as `specialDays*` in Props/C08Config.lean:
# they are the specification, written by hand)
SPECIAL_DAYS = {
    'en-us': [('today', 0), ('tomorrow', 1), ('tmr', 1), ('yesterday', -1), ('day after tomorrow', 2), ('the day after tomorrow', 2),
              ('day before yesterday', -2), ('the day before yesterday', -2), ('the day after', 1), ('the day before', -1),
              ('next day', 1), ('the next day', 1), ('last day', -1), ('the last day', -1), ('the following day', 1),
              ('previous day', -1)],
    'es-es': [('hoy', 0), ('mañana', 1), ('ayer', -1), ('pasado mañana', 2), ('anteayer', -2), ('el día de mañana', 1),
              ('el día siguiente', 1), ('el último día', -1)],
    'fr-fr': [("aujourd'hui", 0), ('demain', 1), ('hier', -1), ('après-demain', 2), ('après demain', 2), ('avant-hier', -2),
              ('avant hier', -2), ('lendemain', 1), ('le jour suivant', 1)],
    'pt-br': [('hoje', 0), ('amanhã', 1), ('amanha', 1), ('ontem', -1), ('depois de amanhã', 2), ('anteontem', -2),
              ('o dia seguinte', 1), ('último dia', -1)],
    'it-it': [('oggi', 0), ('domani', 1), ('ieri', -1), ('dopodomani', 2), ("l'altro ieri", -2), ('il giorno dopo', 1),
              ('il giorno prima', -1)],
    'de-de': [('heute', 0), ('morgen', 1), ('gestern', -1), ('übermorgen', 2), ('vorgestern', -2), ('der tag danach', 1),
              ('der tag zuvor', -1)],
    'nl-nl': [('vandaag', 0), ('morgen', 1), ('gisteren', -1), ('overmorgen', 2), ('eergisteren', -2), ('de dag na', 1),
              ('de dag ervoor', -1)],
    'zh-cn': [('今天', 0), ('今日', 0), ('明天', 1), ('明日', 1), ('昨天', -1), ('昨日', -1), ('后天', 2), ('後天', 2), ('前天', -2),
              ('大后天', 3), ('大後天', 3), ('大前天', -3)],
}


def special_cases(ctx):
    """the words of SPECIAL_DAYS alone as a query: when the pipeline recognises the whole word as ONE date, the date is the
    reference date + k (C08: today / tomorrow / yesterday …); an unrecognised word or another reading is not judged."""
    from lib import calcorr
    r = ctx.rng('cultureconfig-special')
    cases = []
    for cul, rows in sorted(SPECIAL_DAYS.items()):
        for w, k in rows:
            for R in (SWEEP_REFS if ctx.thorough else [SWEEP_REFS[0], r.choice(SWEEP_REFS[1:])]):
                cases.append((w, R, k, cul))
    return cases


def judge_special(ctx, cases, results):
    from lib import calcorr
    for (w, R, k, cul), res in zip(cases, results):
        ctx.count('pipeline-special-days:%s' % cul)
        ent = calcorr.whole_entity(res, w)
        if not ent or ent[3].split('.')[-1] != 'date':
            continue
        got = [{kk: v for kk, v in x.items() if kk != 'Mod'} for x in ent[4]]
        want = calcorr.c08_oracle('special', k, R)
        if got == want:
            ctx.nontriv(('cc-special', cul, w, str(R)))
            continue
        if not any(got == calcorr.c08_oracle('special', k2, R) for k2 in range(-4, 5)):
            continue                # another reading (a range, two candidates): not judged here
        ctx.report('property', 'special-day-%s' % cul,
                   '%r (%s) at %s: got %r, the property states %r (reference date %+d days)' % (w, cul, R, got, want, k),
                   failing_input={'op': 'recognize_datetime', 'query': w, 'culture': cul,
                                  'reference': R.strftime('%Y-%m-%d %H:%M:%S'), 'family': 'special', 'params': k,
                                  'implementation': got, 'property_expects': want}, property_fails=True)


def run(ctx):
    """called from corr/c08.py"""
    from lib import calcorr
    ts = unit(ctx)
    wc, sc = word_cases(ctx, ts), special_cases(ctx)
    results = calcorr.run_pipeline([((c[0], c[4]), c[1]) for c in wc] + [((c[0], c[3]), c[1]) for c in sc])   # one pool
    judge_words(ctx, wc, results[:len(wc)])
    judge_special(ctx, sc, results[len(wc):])


# ------------------------------------------------------------------ baseline of term values + search

def baseline_terms(t):
    terms = term_pool(t)
    out = []
    for w in terms:
        out += [w, w + ' x', 'x ' + w]
    for x in contract_texts(t['culture']):
        out += ngrams(x)
    seen, res = set(), []
    for x in out:
        if x not in seen and 'Σ' not in x:
            seen.add(x)
            res.append(x)
    return res


def impl_table(ts, terms_of):
    """{method key: [value per term]} for the one-string methods of the parser configurations, on the real methods"""
    batches, keys = [], []
    for t in ts:
        terms = terms_of(t)
        reqs = []
        for m in t['methods']:
            if [ty for _, ty in m['params']] != ['str'] or 'ParserConfiguration' not in m['cls']:
                continue
            reqs.append((m['cls'], m['name'], m['truthy'], m['fields'], [[x] for x in terms]))
            keys.append((t, m, terms))
        batches.append((t['culture'], t['dir'], reqs))
    res = run_impl(batches)
    flat = [x for per_culture in res for x in per_culture]
    return [(t, m, terms, vals) for (t, m, terms), vals in zip(keys, flat)]


def variant_of(t):
    """which variant of the culture's configuration the tree follows (translator flag `pastPrefixFollowsPrevious`)"""
    return 'previous' if t.get('past_follows_previous', True) else 'past'


def write_baseline():
    """records the values of the CURRENT tree (VERIF_REPO) under cultures[<dir>][<variant>]; entries of the other variant
    already in the file are kept, so running it on the unrepaired and on the repaired tree fills both"""
    from translate import cultureconfig as cc
    ts = cc.tables()
    try:
        out = json.load(open(BASELINE, encoding='utf-8'))
        if not all(isinstance(v, dict) and set(v) <= {'previous', 'past'} for v in out.get('cultures', {}).values()):
            raise ValueError('old layout')
    except Exception:
        out = {'cultures': {}}
    out['_comment'] = ('values of the culture configuration methods on the culture\'s own terms, per culture directory and per '
                       'variant of the tree (`previous`: the date-period configuration holds the resource\'s PreviousPrefixRegex; '
                       '`past`: the unrepaired German / Italian form); written by harness/lib/cultureconfigcorr.py --baseline '
                       '(run it with VERIF_REPO on each tree); read by its search() when a theorem on the regenerated tables breaks')
    fresh = {}
    for t, m, terms, vals in impl_table(ts, baseline_terms):
        cu = fresh.setdefault(t['dir'], {'variant': variant_of(t), 'terms': terms, 'methods': {}})
        common_v = max(set(vals), key=vals.count)        # most common value + exceptions
        cu['methods'][m['key']] = {'default': common_v, 'other': {str(i): v for i, v in enumerate(vals) if v != common_v}}
    for d, cu in fresh.items():
        out['cultures'].setdefault(d, {})[cu.pop('variant')] = cu
    with open(BASELINE, 'w', encoding='utf-8') as f:
        json.dump(out, f, ensure_ascii=False, indent=0, sort_keys=True)
    return out


REFS = [dt.datetime(2020, 1, 31, 0, 0, 0), dt.datetime(2019, 1, 29, 14, 30, 0), dt.datetime(2020, 12, 31, 23, 59, 59),
        dt.datetime(2021, 1, 3, 0, 0, 0), dt.datetime(2024, 2, 29, 14, 30, 0), dt.datetime(2016, 11, 7, 0, 0, 0),
        dt.datetime(2018, 6, 15, 12, 0, 0)]
MODEL_ONLY = ('weekp', 'monthp', 'yearp', 'restof')


def changed_terms(ts):
    """[(culture, method key, term, baseline value, value now)] for the recorded terms"""
    try:
        base = json.load(open(BASELINE, encoding='utf-8'))['cultures']
    except Exception:
        return None
    out = []

    def entry(t):
        per = base.get(t['dir'], {})
        return per.get(variant_of(t)) or {}
    tab = impl_table(ts, lambda t: entry(t).get('terms', []))
    for t, m, terms, vals in tab:
        rec = entry(t).get('methods', {}).get(m['key'])
        if rec is None:
            continue
        for i, (term, v) in enumerate(zip(terms, vals)):
            old = rec['other'].get(str(i), rec['default'])
            if old != v:
                out.append((t['culture'], m['key'], term, old, v))
    return out


def search(ctx, proof_problems):
    """called by corr/c08.py when a proof obligation broke"""
    if not any('C08Config' in str(p.get('detail', '')) or 'C08Config' in str(p.get('what', '')) or
               'CultureCfg' in str(p.get('detail', '')) for p in proof_problems):
        return
    from lib import calcorr
    from translate import cultureconfig as cc
    ts = cc.tables()
    ch = changed_terms(ts)
    if ch is None:
        ctx.notes.append('cultureconfig search: no baseline (contracts/C08config.json)')
        return
    ctx.extra['cultureconfig_changed_terms'] = ['%s %s(%r): %s -> %s' % c for c in ch[:60]]
    if not ch:
        return
    contract = calcorr.load_contract('C08')['cultures']
    cases, seen = [], set()
    for culture, key, term, old, new in ch:
        tl = term.strip().lower()
        if not tl:
            continue
        for cul in ([culture, 'es-mx'] if culture == 'es-es' else [culture]):
            for e in contract.get(cul, []):
                if tl not in e['text'].lower():
                    continue
                fam, par = e['family'], e['params']
                if isinstance(par, list):
                    par = tuple(par)
                if fam in MODEL_ONLY:
                    continue
                refs = list(REFS)
                for R in refs:
                    k = (e['text'], cul, R)
                    if k in seen:
                        continue
                    seen.add(k)
                    cases.append((e['text'], R, fam, par, cul, e.get('level') == 'model', e.get('input'), key, term, old, new))
    cases = cases[:1500]
    if not cases:
        ctx.notes.append('cultureconfig search: %d changed term values, none inside a contract expression' % len(ch))
        return
    results = calcorr.run_pipeline([((c[0], c[4]), c[1]) for c in cases])
    carried = calcorr.retry_in_carrier(cases, results, [c[6] for c in cases])
    ctx.count('cultureconfig-search-pipeline', len(cases))
    found = 0
    for i, (c, res) in enumerate(zip(cases, results)):
        expr, R, fam, par, cul, dem, _inp, key, term, old, new = c
        want = calcorr.c08_oracle(fam, par, R)
        if want is None:
            continue
        ent = calcorr.whole_entity(res, expr) or carried.get(i)
        got = [{k: v for k, v in x.items() if k != 'Mod'} for x in ent[4]] if ent else None
        if got == want:
            continue
        if got is None and not dem:
            continue
        found += 1
        sig = ('relative-%s' % fam) if cul == 'en-us' else 'relative-%s-%s' % (cul, fam)
        ctx.report('property', sig,
                   '%r (%s) at %s: got %r, the property states %r; configuration method %s answers %s for %r (was %s)' % (
                       expr, cul, R, got, want, key, new, term, old),
                   failing_input={'op': 'recognize_datetime', 'query': expr, 'culture': cul,
                                  'reference': R.strftime('%Y-%m-%d %H:%M:%S'), 'family': fam, 'params': par,
                                  'implementation': got if ent else res, 'property_expects': want,
                                  'config_method': key, 'term': term, 'value_before': old, 'value_now': new},
                   property_fails=True)
        if found >= 12:
            break
    if not found:
        ctx.notes.append('cultureconfig search: %d changed term values replayed in %d pipeline cases, the property holds on all' % (
            len(ch), len(cases)))


if __name__ == '__main__':
    if '--baseline' in sys.argv:
        b = write_baseline()
        print('wrote', BASELINE, {k: {vr: len(e['methods']) for vr, e in v.items()} for k, v in b['cultures'].items()})
