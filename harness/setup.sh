#!/bin/sh
# MANIFEST.setup_cmd: offline build of the framework from files on disk only.
#  1. regenerate RTV/Gen/*.lean from /repo's working tree (translator)
#  2. lake build: every model, lemma and property theorem is re-checked by the Lean kernel; the model driver is compiled
set -e
cd "$(dirname "$0")/.."
export PYTHONHASHSEED=0
/venv/bin/python harness/translate_all.py
cd lean
lake build RTV rtvdriver
