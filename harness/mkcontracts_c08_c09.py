#!/venv/bin/python
"""Regenerates /verif/contracts/C08.json and C09.json: which expression of which culture is DEMANDED to satisfy
C08 / C09, in the culture's own words.

Derivation (never from what the working tree accepts):
  * the expression texts are the `Results[].Text` of the cross-platform Specs (`/repo/Specs/DateTime/<Language>/
    DateTimeModel*.json`, and the parser-level `DateParser.json`, `DatePeriodParser.json`, `DateTimeParser.json`), cases that are not marked NotSupported / NotSupportedByDesign for python;
  * an expression is classified by comparing the *Specs' own expected resolution* at the Specs' own reference with the
    property computed independently (lib/calcorr.c08_oracle / c09_oracle): `mañana` is `special(+1)` because the Specs
    expect R.date + 1 for it; `hace 3 días` is `ago(day, 3, -1)` because the text carries the number 3 and the Specs
    expect R.date - 3; `la semana pasada` is `week(-1)` because the Specs expect the TIMEX and range of the ISO week
    before R's; bare weekdays / month-days are C09 because the Specs expect the two candidates of the property;
  * guards against coincidences at a single reference: number words in the text must be digits and equal N; weekday
    families need the culture's own weekday word for that weekday (read from the culture's `DayOfWeek` resource table);
    relative periods may not contain digits or a month name; an expression seen with two different classifications is
    dropped.
`input` is the Specs sentence the text was found in (used when the bare expression is not recognised on its own).
`level` says where the text was found: `model` (DateTimeModel*.json: the whole pipeline must recognise and resolve it) or
`parser` (parser-level Specs only: the span is handed to the parser there, so the checks demand the resolution only when
the pipeline extracts the expression on its own).
The output is committed and reviewed by hand; the checks read it, they never regenerate it."""
import datetime as dt
import json
import os
import re
import sys

HERE = os.path.dirname(os.path.abspath(__file__))
sys.path.insert(0, HERE)
from lib import common, calcorr  # noqa: E402

SPECS = os.path.join(common.REPO, 'Specs', 'DateTime')
RES = {'Spanish': 'spanish_date_time.SpanishDateTime', 'French': 'french_date_time.FrenchDateTime',
       'Portuguese': 'portuguese_date_time.PortugueseDateTime', 'Italian': 'italian_date_time.ItalianDateTime',
       'German': 'german_date_time.GermanDateTime', 'Dutch': 'dutch_date_time.DutchDateTime',
       'Chinese': 'chinese_date_time.ChineseDateTime', 'English': 'english_date_time.EnglishDateTime'}
# hand-reviewed exclusions: (language, text) whose single Specs data point is a coincidence
EXCLUDE = {
    # a weekday together with a day of the month / an ordinal count is not "next/this/last <weekday>"
    ('Italian', 'giovedì ventuno'), ('Italian', 'venerdì ventidue'), ('Italian', 'terzo martedì'),
    ('Dutch', 'derde dinsdag'), ('Dutch', 'donderdag de eenentwintigste'), ('Dutch', 'vrijdag de tweeëntwintigste'),
    ('Dutch', 'dinsdag de elfde'), ('Dutch', 'twee zondagen vanaf nu'), ('English', 'tuesday the eleventh'),
    ('English', 'two sundays from now'), ('English', 'friday the twenty second'), ('English', 'thursday the twenty first'), ('English', 'third tuesday'), ('English', 'thursday the 21st'),
    # month-day plus a weekday: the weekday constrains the year, not the plain month-day property
    ('Chinese', '10月12号,星期一'),
}


PARSER_SPECS = ('DateParser.json', 'DatePeriodParser.json', 'DateTimeParser.json')


def parser_values(res):
    """A parser-level Specs result (Timex + Future/PastResolution) as the `values` list the model level prints
    (past first, one value when both agree)."""
    v = res.get('Value') or {}
    tx, fu, pa = v.get('Timex'), v.get('FutureResolution') or {}, v.get('PastResolution') or {}
    if not tx or not fu or not pa:
        return []

    def one(r):
        if 'date' in r:
            return {'timex': tx, 'type': 'date', 'value': r['date']}
        if 'dateTime' in r:
            return {'timex': tx, 'type': 'datetime', 'value': r['dateTime']}
        if 'startDate' in r and 'endDate' in r:
            return {'timex': tx, 'type': 'daterange', 'start': r['startDate'], 'end': r['endDate']}
        return None
    a, b = one(pa), one(fu)
    if a is None or b is None:
        return []
    return [a] if a == b else [a, b]


def tables(lang):
    """weekday words -> 1..7 and month words of the culture, from the resource tables of the working tree (data only)."""
    import importlib
    mod, cls = RES[lang].split('.')
    m = importlib.import_module('recognizers_date_time.resources.' + mod)
    c = getattr(m, cls)
    dow = {}
    for k, v in dict(getattr(c, 'DayOfWeek', {})).items():
        dow[k.lower()] = int(v) or 7
    months = [k.lower() for k in dict(getattr(c, 'MonthOfYear', {}))]
    return dow, months


def has_word(text, word):
    if re.search(r'[一-鿿]', word):
        return word in text
    return re.search(r'(?<![\w])' + re.escape(word) + r'(?![\w])', text) is not None


def classify(text, values, R, dow, months):
    """-> list of (property, family, params) consistent with the Specs' expected values at R."""
    out = []
    nums = [int(x) for x in re.findall(r'\d+', text)]
    digits = bool(nums)
    month_word = any(has_word(text, m) for m in months if len(m) > 2)
    wds = sorted({v for k, v in dow.items() if has_word(text, k)})
    vals = [{k: v for k, v in x.items() if k in ('timex', 'type', 'value', 'start', 'end')} for x in values]
    if not digits and not wds and not month_word:
        for k in (0, 1, -1):
            if vals == calcorr.c08_oracle('special', k, R):
                out.append(('C08', 'special', k))
        for fam in ('week', 'month', 'year', 'weekend'):
            for k in (0, 1, -1):
                if vals == calcorr.c08_oracle(fam, k, R):
                    out.append(('C08', fam, k))
        if vals == calcorr.c08_oracle('now', None, R):
            out.append(('C08', 'now', None))
    if len(nums) == 1 and not wds and not month_word and nums[0] <= 20000:
        n = nums[0]
        for unit in ('day', 'week'):
            for sign in (1, -1):
                if n > 0 and vals == calcorr.c08_oracle('ago', (unit, n, sign), R):
                    out.append(('C08', 'ago', [unit, n, sign]))
        for unit in ('hour', 'minute', 'second'):
            for sign in (1, -1):
                if n > 0 and vals == calcorr.c08_oracle('hms', (unit, n, sign), R):
                    out.append(('C08', 'hms', [unit, n, sign]))
    if len(wds) == 1 and not digits and not month_word:
        wd = wds[0]
        for k in (0, 1, -1):
            if vals == calcorr.c08_oracle('weekday', (k, wd), R):
                out.append(('C08', 'weekday', [k, wd]))
        if vals == calcorr.c09_oracle('weekday', wd, R):
            out.append(('C09', 'weekday', wd))
    if len(vals) == 2 and (digits or month_word) and not wds:
        m = re.match(r'XXXX-(\d\d)-(\d\d)$', vals[0].get('timex', ''))
        if m:
            mm, dd = int(m.group(1)), int(m.group(2))
            try:
                if vals == calcorr.c09_oracle('monthday', (mm, dd), R):
                    out.append(('C09', 'monthday', [mm, dd]))
            except (StopIteration, ValueError):
                pass
    return out


def main():
    common.setup_repo_imports()
    contracts = {'C08': {}, 'C09': {}}
    for lang, culture in calcorr.CULTURES.items():
        dow, months = tables(lang)
        found = {}
        d = os.path.join(SPECS, lang)
        for fn in sorted(os.listdir(d)):
            if not (fn.endswith('.json') and (fn.startswith('DateTimeModel') or fn in PARSER_SPECS)):
                continue
            for ci, case in enumerate(json.load(open(os.path.join(d, fn), encoding='utf-8-sig'))):
                ns = (str(case.get('NotSupported', '')) + str(case.get('NotSupportedByDesign', ''))).lower()
                if 'python' in ns:
                    continue
                ref = (case.get('Context') or {}).get('ReferenceDateTime')
                if not ref:
                    continue
                R = dt.datetime.strptime(ref[:19], '%Y-%m-%dT%H:%M:%S')
                for res in case.get('Results', []):
                    text = (res.get('Text') or '').strip().lower()
                    values = ((res.get('Resolution') or {}).get('values')) or parser_values(res)
                    if not text or not values or (lang, text) in EXCLUDE:
                        continue
                    for prop, fam, par in classify(text, values, R, dow, months):
                        key = (prop, text)
                        level = 'model' if fn.startswith('DateTimeModel') else 'parser'
                        entry = {'text': text, 'family': fam, 'params': par, 'level': level, 'input': case['Input'],
                                 'specs': '%s/%s#%d @%s' % (lang, fn, ci, ref)}
                        if key in found and found[key] is None:
                            pass
                        elif key in found and (found[key]['family'], found[key]['params']) != (fam, par):
                            found[key] = None          # ambiguous at one reference: not demanded
                        elif key not in found or (found[key]['level'] == 'parser' and level == 'model'):
                            found[key] = entry
        for (prop, text), entry in sorted(found.items()):
            if entry:
                contracts[prop].setdefault(culture, []).append(entry)
    # es-mx has no Specs folder of its own; the Python es-mx model is built from the Spanish resources
    for prop in contracts:
        if 'es-es' in contracts[prop]:
            contracts[prop]['es-mx'] = [dict(e, specs=e['specs'] + ' (es-mx shares the Spanish Specs)') for e in contracts[prop]['es-es']]
    os.makedirs(os.path.join(common.VERIF, 'contracts'), exist_ok=True)
    for prop, body in contracts.items():
        doc = {'_comment': 'Which expressions of which culture property %s demands, in the culture\'s own words. Generated by '
                           'harness/mkcontracts_c08_c09.py from the cross-platform Specs (expression texts and expected '
                           'resolutions) and the property computed independently; committed and reviewed; the checks only read '
                           'it. An expression with a number stands for the template with every N.' % prop,
               'cultures': body}
        with open(os.path.join(common.VERIF, 'contracts', prop + '.json'), 'w', encoding='utf-8') as f:
            json.dump(doc, f, ensure_ascii=False, indent=1, sort_keys=True)
        print(prop, {c: len(v) for c, v in body.items()})


if __name__ == '__main__':
    main()
