#!/usr/bin/env python3
"""seedtest.py <Cxx> <n> [check ids...]

Confirms a seeded change (produced by an independent sub-agent under /tmp/seed/<Cxx>/out/patch<n>.diff + demo<n>.py)
and runs our checks against it — in a COPY of /verif (/tmp/vseed) and against the seed's own scratch worktree
(VERIF_REPO), so neither /repo nor the shared Lake workspace is touched.
 1. worktree := current /repo HEAD, clean; demo must PASS
 2. apply the patch; demo must FAIL; pinned suite must still give 204 passed
 3. run `harness/vcheck <id> quick` for the seed's property (and any extra ids) with VERIF_REPO=<worktree>
 4. undo the patch; store /verif/seeded/<Cxx>-<n>/{patch.diff, demo.py, notes.md, meta.json}"""
import json
import os
import re
import shutil
import subprocess
import sys
import time

VERIF = os.path.dirname(os.path.dirname(os.path.abspath(__file__)))
COPY = os.environ.get('SEEDTEST_COPY', '/tmp/vseed')      # the copy of the committed /verif the checks run from
REV = os.environ.get('SEEDTEST_REV', 'HEAD')              # which commit of /verif (builders may be mid-commit on HEAD)


def sh(cmd, cwd=None, env=None, timeout=3600):
    p = subprocess.run(cmd, shell=True, cwd=cwd, env=env, stdout=subprocess.PIPE, stderr=subprocess.STDOUT, text=True,
                       timeout=timeout)
    return p.returncode, p.stdout


def main():
    sid, n = sys.argv[1], sys.argv[2]      # sid = seed directory id (C05 or C05b); property id = its first three characters
    pid = sid[:3]
    tag = sid[3:]
    extra = sys.argv[3:]
    base = '/tmp/seed/%s' % sid
    wt = base + '/wt'
    patch = '%s/out/patch%s.diff' % (base, n)
    demo = '%s/out/demo%s.py' % (base, n)
    notes = '%s/out/notes%s.md' % (base, n)
    meta = {'property': pid, 'seed': tag + n, 'ran': [], 'at': time.strftime('%Y-%m-%dT%H:%M:%SZ', time.gmtime())}
    head = sh('git -C /repo rev-parse HEAD')[1].strip()
    sh('git -C %s checkout -q -- . && git -C %s checkout -q --detach %s' % (wt, wt, head))
    meta['repo_head'] = head[:9]
    rc, out = sh('%s/py %s' % (base, demo))
    meta['demo_unpatched_exit'] = rc
    rc, out = sh('git -C %s apply --check %s' % (wt, patch))
    if rc != 0:
        meta['status'] = 'patch does not apply to current HEAD: ' + out[-300:]
        print(json.dumps(meta, indent=1))
        return 2
    sh('git -C %s apply %s' % (wt, patch))
    try:
        rc, out = sh('%s/py %s' % (base, demo))
        meta['demo_patched_exit'] = rc
        meta['demo_patched_output'] = out[-600:]
        rc, out = sh('/venv/bin/python -m pytest -q -p no:cacheprovider --timeout=900 --continue-on-collection-errors 2>&1 | tail -1', cwd=wt)
        meta['pinned_suite'] = out.strip()
        # copy of /verif
        # a copy of the COMMITTED /verif (other engineers may be mid-edit in the working tree) + the build cache
        cmd = ('rm -rf COPY.new && mkdir -p COPY.new COPY && git -C VERIF archive REV | tar -x -C COPY.new '
               '&& rsync -a --delete --exclude lean/.lake --exclude lean/RTV/Gen --exclude replays --exclude .cache --exclude .scratch '
               'COPY.new/ COPY/ && rm -rf COPY.new')
        sh(cmd.replace('COPY', COPY).replace('REV', REV).replace('VERIF', VERIF))
        if not os.path.exists(COPY + '/lean/.lake'):
            sh('rsync -a %s/lean/.lake %s/lean/ ; rsync -a %s/lean/RTV/Gen %s/lean/RTV/' % (VERIF, COPY, VERIF, COPY))
        env = dict(os.environ)
        # what MANIFEST.setup_cmd does, on the clean tree: regenerate every Gen file and build everything once
        if not os.environ.get('SEEDTEST_SKIP_SETUP'):
            sh('git -C %s checkout -q -- .' % wt)     # clean tree for the setup (no stash: the stash list is shared by all worktrees)
            env0 = dict(os.environ); env0['VERIF_REPO'] = wt
            rc0, out0 = sh('' + COPY + '/harness/setup.sh', env=env0, timeout=3000)
            sh('git -C %s apply %s' % (wt, patch))
            meta['setup_rc'] = rc0
            if rc0 != 0:
                meta['status'] = 'setup failed in the /verif copy: ' + out0[-500:]
        env['VERIF_REPO'] = wt
        for cid in [pid] + extra:
            t0 = time.time()
            rc, out = sh('' + COPY + '/harness/vcheck %s quick' % cid, env=env, timeout=3000)
            lines = [l for l in out.splitlines() if l.startswith('VIOLATION') or l.startswith('INFRA')]
            summary = out.strip().splitlines()[-1] if out.strip() else ''
            replays = []
            for l in lines:
                m = re.search(r'replay=(\S+)', l)
                if m and os.path.exists(m.group(1)):
                    try:
                        r = json.load(open(m.group(1)))
                        b = r.get('break') or (r.get('breaks') or [{}])[0] or {}
                        replays.append({'signature': b.get('signature'), 'kind': b.get('kind'), 'detail': (b.get('detail') or '')[:300],
                                        'no_failing_input': 'no-failing-input-found' in l,
                                        'no_longer_checks': [x.get('what') for x in r.get('no_longer_checks', [])][:5]})
                    except Exception:
                        pass
            meta['ran'].append({'check': cid, 'exit': rc, 'violation_lines': len(lines),
                                'no_failing_input_found': any('no-failing-input-found' in l for l in lines),
                                'summary': summary[:200], 'replays': replays[:5], 'wall_s': round(time.time() - t0, 1)})
    finally:
        sh('git -C %s checkout -q -- .' % wt)
    det = [r for r in meta['ran'] if r['exit'] == 1]
    meta['detected'] = bool(det)
    meta['detected_with_concrete_input'] = any(r['exit'] == 1 and not r['no_failing_input_found'] for r in meta['ran'])
    out_dir = os.path.join(VERIF, 'seeded', '%s-%s%s' % (pid, tag, n))
    os.makedirs(out_dir, exist_ok=True)
    shutil.copy(patch, os.path.join(out_dir, 'patch.diff'))
    shutil.copy(demo, os.path.join(out_dir, 'demo.py'))
    if os.path.exists(notes):
        shutil.copy(notes, os.path.join(out_dir, 'notes.md'))
    json.dump(meta, open(os.path.join(out_dir, 'meta.json'), 'w'), indent=1)
    print(json.dumps({k: meta[k] for k in ('property', 'seed', 'demo_unpatched_exit', 'demo_patched_exit', 'pinned_suite', 'detected',
                                           'detected_with_concrete_input')}, indent=0))
    for r in meta['ran']:
        print('  ', r['check'], 'exit', r['exit'], r['summary'], [x.get('signature') for x in r['replays']])
    return 0


if __name__ == '__main__':
    sys.exit(main())
