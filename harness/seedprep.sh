#!/bin/sh
# seedprep.sh <sid> : scratch area for an independent seeding sub-agent (nothing from /verif except stand-ins for the
# three third-party packages that are absent from this sandbox): /tmp/seed/<sid>/{wt (git worktree of /repo HEAD), deps, py, out}
set -e
sid="$1"
base=/tmp/seed/$sid
here="$(cd "$(dirname "$0")" && pwd)"
mkdir -p "$base/out" "$base/deps"
[ -d "$base/wt" ] || git -C /repo worktree add --detach "$base/wt" HEAD >/dev/null 2>&1
cp -r "$here/shims/." "$base/deps/"
cat > "$base/py" <<EOP
#!/bin/sh
# runs /venv/bin/python against THIS worktree's libraries (never site-packages copies)
L=$base/wt/Python/libraries
export PYTHONPATH=$base/deps:\$L/recognizers-text:\$L/recognizers-number:\$L/recognizers-number-with-unit:\$L/recognizers-date-time:\$L/recognizers-sequence:\$L/recognizers-choice:\$L/datatypes-timex-expression:\$L/recognizers-suite:\$L/resource-generator
export PYTHONHASHSEED=0
exec /venv/bin/python "\$@"
EOP
chmod +x "$base/py"
echo "$base"
