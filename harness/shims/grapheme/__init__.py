"""Shim for the third-party `grapheme` package (absent from this sandbox); only api.slice is used by /repo."""
from .api import slice, graphemes, length  # noqa
