import regex as _regex

_X = _regex.compile(r'\X')


def graphemes(string):
    return iter(_X.findall(string))


def length(string, until=None):
    n = 0
    for _ in _X.finditer(string):
        n += 1
        if until is not None and n >= until:
            break
    return n


def slice(string, start=None, end=None):
    gs = _X.findall(string)
    return ''.join(gs[start:end])
