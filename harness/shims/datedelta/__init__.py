"""Shim for the third-party `datedelta` package (absent from this sandbox).

Semantics follow datedelta 1.x as documented:
  * apply years, then months, then days;
  * when the target day does not exist: adding (positive delta) rolls FORWARD to the 1st of the next
    month, subtracting (negative delta) rolls BACK to the last day of the month;
  * works for `date` and `datetime` (time of day and tzinfo are preserved).
This file is part of the trusted base of /verif (see DESIGN.md 2.6); the same table of corner cases is
mirrored by RTV.Model.Cal.datedeltaAdd in Lean.
"""
import calendar
import datetime as _dt


class datedelta(object):
    __slots__ = ('_years', '_months', '_days')

    def __init__(self, years=0, months=0, days=0):
        for v in (years, months, days):
            if int(v) != v:
                raise ValueError('datedelta arguments must be integers')
        self._years = int(years)
        self._months = int(months)
        self._days = int(days)

    years = property(lambda self: self._years)
    months = property(lambda self: self._months)
    days = property(lambda self: self._days)

    def __repr__(self):
        return 'datedelta(years=%d, months=%d, days=%d)' % (self._years, self._months, self._days)

    def __eq__(self, other):
        return isinstance(other, datedelta) and (self._years, self._months, self._days) == (
            other._years, other._months, other._days)

    def __hash__(self):
        return hash((self._years, self._months, self._days))

    def __neg__(self):
        return datedelta(-self._years, -self._months, -self._days)

    def __pos__(self):
        return self

    def __add__(self, other):
        if isinstance(other, datedelta):
            return datedelta(self._years + other._years, self._months + other._months, self._days + other._days)
        if isinstance(other, _dt.date):
            return self.__radd__(other)
        return NotImplemented

    def __sub__(self, other):
        if isinstance(other, datedelta):
            return self + (-other)
        return NotImplemented

    def __mul__(self, k):
        if isinstance(k, int):
            return datedelta(self._years * k, self._months * k, self._days * k)
        return NotImplemented

    __rmul__ = __mul__

    def __radd__(self, other):
        if not isinstance(other, _dt.date):
            return NotImplemented
        year, month, day = other.year, other.month, other.day
        # years
        if self._years:
            year += self._years
            if month == 2 and day == 29 and not calendar.isleap(year):
                if self._years > 0:
                    month, day = 3, 1
                else:
                    day = 28
        # months
        if self._months:
            total = (year * 12 + (month - 1)) + self._months
            year, month = divmod(total, 12)
            month += 1
            dim = calendar.monthrange(year, month)[1] if 1 <= year <= 9999 else 31
            if day > dim:
                if self._months > 0:
                    month += 1
                    day = 1
                    if month > 12:
                        month = 1
                        year += 1
                else:
                    day = dim
        res = other.replace(year=year, month=month, day=day)
        if self._days:
            res = res + _dt.timedelta(days=self._days)
        return res

    def __rsub__(self, other):
        if isinstance(other, _dt.date):
            return (-self).__radd__(other)
        return NotImplemented


YEAR = datedelta(years=1)
MONTH = datedelta(months=1)
WEEK = datedelta(days=7)
DAY = datedelta(days=1)
