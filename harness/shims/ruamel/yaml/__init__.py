"""Shim for `ruamel.yaml` (absent from this sandbox): the subset used by /repo's resource generator
(`YAML(typ='safe')`, `register_class`, `load`) on top of the vendored pure-Python PyYAML 6.0.3
(harness/shims/_vendor/yaml), with the YAML 1.2 core-schema implicit resolvers that ruamel.yaml applies by
default (only true/false are booleans, no sexagesimal numbers, 0o octal).  Trusted base of the C18 check; its
fidelity is evidenced by the regenerated modules that come out byte-identical to the checked-in ones."""
import os
import re
import sys

_vendor = os.path.join(os.path.dirname(os.path.dirname(os.path.dirname(os.path.abspath(__file__)))), '_vendor')
if _vendor not in sys.path:
    sys.path.insert(0, _vendor)
import yaml as _yaml  # noqa: E402


def _make_loader():
    class Loader12(_yaml.SafeLoader):
        pass

    # drop the YAML 1.1 implicit resolvers and install the 1.2 core schema ones
    Loader12.yaml_implicit_resolvers = {}
    Loader12.add_implicit_resolver(
        'tag:yaml.org,2002:bool', re.compile(r'^(?:true|True|TRUE|false|False|FALSE)$'), list('tTfF'))
    Loader12.add_implicit_resolver(
        'tag:yaml.org,2002:float',
        re.compile(r'''^(?:[-+]?(?:[0-9][0-9_]*)\.[0-9_]*(?:[eE][-+]?[0-9]+)?
                    |[-+]?(?:[0-9][0-9_]*)(?:[eE][-+]?[0-9]+)
                    |[-+]?\.[0-9_]+(?:[eE][-+][0-9]+)?
                    |[-+]?\.(?:inf|Inf|INF)
                    |\.(?:nan|NaN|NAN))$''', re.X), list('-+0123456789.'))
    Loader12.add_implicit_resolver(
        'tag:yaml.org,2002:int',
        re.compile(r'''^(?:[-+]?0b[0-1_]+
                    |[-+]?0o?[0-7_]+
                    |[-+]?(?:0|[1-9][0-9_]*)
                    |[-+]?0x[0-9a-fA-F_]+)$''', re.X), list('-+0123456789'))
    Loader12.add_implicit_resolver('tag:yaml.org,2002:merge', re.compile(r'^(?:<<)$'), ['<'])
    Loader12.add_implicit_resolver(
        'tag:yaml.org,2002:null', re.compile(r'''^(?: ~|null|Null|NULL| )$''', re.X), ['~', 'n', 'N', ''])
    Loader12.add_implicit_resolver(
        'tag:yaml.org,2002:timestamp',
        re.compile(r'''^(?:[0-9][0-9][0-9][0-9]-[0-9][0-9]-[0-9][0-9]
                    |[0-9][0-9][0-9][0-9] -[0-9][0-9]? -[0-9][0-9]?
                     (?:[Tt]|[ \t]+)[0-9][0-9]?
                     :[0-9][0-9] :[0-9][0-9] (?:\.[0-9]*)?
                     (?:[ \t]*(?:Z|[-+][0-9][0-9]?(?::[0-9][0-9])?))?)$''', re.X), list('0123456789'))
    Loader12.add_implicit_resolver('tag:yaml.org,2002:value', re.compile(r'^(?:=)$'), ['='])
    return Loader12


class YAML(object):
    def __init__(self, typ=None, pure=False):
        self.typ = typ
        self._loader = _make_loader()

    def register_class(self, cls):
        tag = cls.yaml_tag
        self._loader.add_constructor(tag, lambda loader, node, _c=cls: _c.from_yaml(loader, node))
        return cls

    def load(self, stream):
        return _yaml.load(stream, Loader=self._loader)
