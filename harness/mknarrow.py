#!/venv/bin/python
"""mknarrow <Cxx> <dump.json> [<dump.json> …]

Write / extend /verif/findings/sets/<property>/narrow.json from `VERIF_DUMP_KNOWN=<file> harness/vcheck Cxx <tier>` dumps
taken on the UNCHANGED tree: for every finding recorded under an old input-keyed signature (query hash only: no reference,
not WHAT failed) the new-style signatures (input + reference + hash of what failed) observed for it.  From then on the
recorded entry matches only those: the same input failing in another way, or (where the old key had no reference) under
another reference, is a new violation.  known_findings.json itself is never touched; lists are only ever extended."""
import json
import os
import sys

HERE = os.path.dirname(os.path.abspath(__file__))
sys.path.insert(0, HERE)
from lib import common  # noqa: E402


def main(argv):
    if len(argv) < 3:
        print(__doc__)
        return 2
    prop = argv[1]
    path = os.path.join(common.SETS, prop, common.NARROW_FILE)
    narrow = common.load_narrow(prop)
    n0 = sum(len(v) for v in narrow.values())
    for d in argv[2:]:
        for reported, recorded, key in json.load(open(d, encoding='utf-8')):
            if reported != recorded:
                lst = narrow.setdefault(recorded, [])
                if reported not in lst:
                    lst.append(reported)
    for v in narrow.values():
        v.sort()
    os.makedirs(os.path.dirname(path), exist_ok=True)
    out = {'property': prop,
           '_comment': 'recorded input-keyed signature (old spelling) -> the new-style signatures (input + reference + hash of '
                       'WHAT failed) observed for it on the unchanged tree; written by harness/mknarrow.py; the recorded entry '
                       'matches only these',
           'narrow': dict(sorted(narrow.items()))}
    common.write_if_changed(path, json.dumps(out, ensure_ascii=False, indent=0) + '\n')
    print('%s: %d recorded signatures narrowed, %d new-style signatures (%d new)' % (
        os.path.relpath(path, common.VERIF), len(narrow), sum(len(v) for v in narrow.values()),
        sum(len(v) for v in narrow.values()) - n0))
    return 0


if __name__ == '__main__':
    sys.exit(main(sys.argv))
