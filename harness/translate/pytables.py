"""More `str` predicate tables of the running interpreter (per code point) -> RTV/Gen/PyTables.lean:
`str.islower` (used by BasePhoneNumberExtractor on one character)."""
import os
import sys

from lib.common import GEN
from .leanfmt import HEADER
from .regexes import merge_ranges, fmt_ranges


def generate():
    low = [c for c in range(0x110000) if not 0xD800 <= c <= 0xDFFF and chr(c).islower()]
    text = HEADER % ('pytables', 'CPython %s str.islower' % sys.version.split()[0])
    text += 'namespace RTV.Gen\n\n/-- code points `c` with `chr(c).islower()` -/\n'
    text += 'def islowerRanges : Array (Nat × Nat) := ' + fmt_ranges(merge_ranges(low)) + '\n\nend RTV.Gen\n'
    return [(os.path.join(GEN, 'PyTables.lean'), text)]
