"""Translators: regenerate RTV/Gen/*.lean from /repo's working tree (and from the running interpreter for the
Unicode tables).  Every module of this package that defines `generate()` is a generator; it returns
[(path, text)] and files are written only when their text changed."""
import importlib
import os
import pkgutil
from collections import OrderedDict

ALL = OrderedDict()
for _m in sorted(pkgutil.iter_modules([os.path.dirname(__file__)]), key=lambda m: m.name):
    if _m.name in ('leanfmt',):
        continue
    _mod = importlib.import_module('translate.' + _m.name)
    if hasattr(_mod, 'generate'):
        ALL[_m.name] = _mod.generate
