"""Translators: regenerate RTV/Gen/*.lean from /repo's working tree (and from the running interpreter for the
Unicode tables).  Each generator returns [(path, text)]; files are written only when their text changed."""
from collections import OrderedDict
from . import chartables

ALL = OrderedDict()
ALL['chartables'] = chartables.generate
