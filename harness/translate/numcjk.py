"""Data of `CJKNumberParser` (recognizers_number/number/cjk_parsers.py) that RTV.Model.NumCjk reads and that
`nummaps` does not already emit, taken from the *parser configuration objects* of the working tree for zh-cn and ja-jp:

* the regexes the parser applies (`negative_number_sign_regex`, `dozen_regex`, `pair_regex`, `digit_num_regex`,
  `percentage_regex`, `percentage_num_regex` (absent from the Japanese configuration class), `double_and_round_regex`,
  `frac_split_regex`, `point_regex`, `spe_get_number_regex`, `digital_number_regex`) as `RTV.Re.RE` terms — with the
  flags they are really used with: a compiled attribute carries its own flags (`RegExpUtility.get_safe_reg_exp`:
  IGNORECASE | DOTALL), a plain string is handed to `regex.search` / `regex.split` without flags;
* the entries of `zero_to_nine_map` whose value is not an `int` (`半` = 0.5) as exact binary fractions;
* whether `trato_sim_map` is `None`, whether `culture_info.code` is `Culture.Chinese` / `Culture.Japanese`
  (the two tests `get_int_value` makes), `len(match)` of a `digital_number_regex` match;
* the `prec` of `@precision` on `CJKNumberParser.parse` and the module-level `getcontext().prec`.

RTV/Gen/NumCjkZh.lean, RTV/Gen/NumCjkJa.lean (namespaces RTV.Gen.NumCjkZh / NumCjkJa)."""
import os
import re

import regex

from lib import common
from lib.common import GEN
from .leanfmt import lean_list, lean_str_cps, HEADER
from . import regexes as rx

CULTURES = [('zh-cn', 'Zh'), ('ja-jp', 'Ja')]
# the regexes RTV.Model.NumCjk hands to `RTV.Re.findAll` (`findTexts` = finditer, `split` = regex.split); the others are
# only searched.  They must not be able to match the empty string (RTV/Lemmas/ReNullable.lean).
FINDITER = ('point', 'speGetNumber', 'fracSplit', 'digitalNumber')
REGEXES = [('negSign', 'negative_number_sign_regex'), ('dozen', 'dozen_regex'), ('pair', 'pair_regex'),
           ('digitNum', 'digit_num_regex'), ('percentage', 'percentage_regex'), ('percentageNum', 'percentage_num_regex'),
           ('doubleAndRound', 'double_and_round_regex'), ('fracSplit', 'frac_split_regex'), ('point', 'point_regex'),
           ('speGetNumber', 'spe_get_number_regex'), ('digitalNumber', 'digital_number_regex')]


def _prec_of(fn):
    for cell in (getattr(fn, '__closure__', None) or ()):
        try:
            v = cell.cell_contents
        except ValueError:
            continue
        if isinstance(v, dict) and 'prec' in v:
            return int(v['prec'])
    return None


def pattern_of(v):
    """attribute of the configuration -> (pattern text, flags it is used with, group count)"""
    if v is None:
        return None
    if hasattr(v, 'pattern'):
        return v.pattern, v.flags & (regex.I | regex.S), v.groups
    return v, 0, regex.compile(v).groups


def configs():
    common.setup_repo_imports()
    import recognizers_number
    from recognizers_number.number.chinese.parsers import ChineseNumberParserConfiguration
    from recognizers_number.number.japanese.parsers import JapaneseNumberParserConfiguration
    common.assert_tree_modules(recognizers_number)
    return {'zh-cn': ChineseNumberParserConfiguration(), 'ja-jp': JapaneseNumberParserConfiguration()}


def collect():
    cfgs = configs()            # sets up the imports from the working tree first
    from recognizers_text.culture import Culture
    from recognizers_number.number import cjk_parsers
    common.assert_tree_modules(cjk_parsers)
    out = {}
    for code, cfg in cfgs.items():
        d = {'code': code, 're': {}}
        for name, attr in REGEXES:
            try:
                d['re'][name] = pattern_of(getattr(cfg, attr))
            except AttributeError:
                d['re'][name] = None
        d['half'] = [(k, float(v).as_integer_ratio()) for k, v in cfg.zero_to_nine_map.items()
                     if isinstance(v, bool) or not isinstance(v, int)]
        d['hasTradMap'] = cfg.trato_sim_map is not None
        d['isChinese'] = cfg.culture_info.code == Culture.Chinese
        d['isJapanese'] = cfg.culture_info.code == Culture.Japanese
        d['parsePrec'] = _prec_of(cjk_parsers.CJKNumberParser.parse) or 0
        out[code] = d
    return out


def module_prec():
    """the `getcontext().prec = N` statement at module level of cjk_parsers.py (0 = absent)"""
    path = os.path.join(common.REPO, 'Python', 'libraries', 'recognizers-number', 'recognizers_number', 'number',
                        'cjk_parsers.py')
    m = re.search(r'^getcontext\(\)\.prec\s*=\s*(\d+)', open(path, encoding='utf-8').read(), flags=re.M)
    return int(m.group(1)) if m else 0


def generate():
    data = collect()
    files = []
    for code, suffix in CULTURES:
        d = data[code]
        t = HEADER % ('numcjk', 'the %s CJKNumberParser configuration object' % code)
        t += 'import RTV.Model.Re\nset_option maxRecDepth 1000000\nnamespace RTV.Gen.NumCjk%s\nopen RTV.Re\n\n' % suffix
        for name, attr in REGEXES:
            p = d['re'][name]
            if p is None:
                t += '/-- config.%s: the configuration class has no such attribute (AttributeError) -/\n' % attr
                t += 'def %s : Option RE := none\n\n' % name
                continue
            pat, flags, groups = p
            try:
                tree = rx.parse(pat, flags)
                ast = rx.lean_re(tree)
            except rx.Unsupported as e:
                raise ValueError('%s.%s: pattern not translatable: %s' % (code, attr, e))
            if name in FINDITER and rx.nullable(tree):
                raise ValueError(rx.NULLABLE_MSG % ('numcjk', '%s.%s' % (code, attr)))
            fl = {0: 'no flags', int(regex.I | regex.S): 'regex.I | regex.S'}.get(int(flags), 'flags %d' % flags)
            t += '/-- config.%s (%s): %s -/\n' % (attr, fl, pat.replace('-/', '- /'))
            t += 'def %s : Option RE := some (\n%s)\n' % (name, rx.wrap(ast))
            t += 'def %sGroups : Nat := %d\n\n' % (name, groups)
        t += ('/-- the regexes the model iterates with `RTV.Re.findAll` cannot match the empty string: on them `findAll` is\n'
              'the `finditer` of `regex` (`findAll_eq_findAllPy`, RTV/Lemmas/ReNullable.lean) -/\n'
              'theorem finditer_safe : ([%s].all fun o => match o with | some r => !nullable r | none => true) = true := by\n'
              '  decide +kernel\n\n' % ', '.join(FINDITER))
        t += '/-- zero_to_nine_map entries whose value is a float: (character, numerator, denominator) of the binary64 -/\n'
        t += 'def half : List (List Nat × Nat × Nat) := %s\n' % lean_list(
            ['(%s, %d, %d)' % (lean_str_cps(k), a, b) for k, (a, b) in d['half']], per_line=4)
        t += 'def hasTradMap : Bool := %s\n' % ('true' if d['hasTradMap'] else 'false')
        t += 'def isChinese : Bool := %s\n' % ('true' if d['isChinese'] else 'false')
        t += 'def isJapanese : Bool := %s\n' % ('true' if d['isJapanese'] else 'false')
        t += '/-- `prec` of `@precision(prec=…)` on CJKNumberParser.parse (0 = not decorated) -/\n'
        t += 'def parsePrec : Nat := %d\n' % d['parsePrec']
        t += '/-- `getcontext().prec = …` at module level of cjk_parsers.py (0 = absent) -/\n'
        t += 'def modulePrec : Nat := %d\n' % module_prec()
        t += '\nend RTV.Gen.NumCjk%s\n' % suffix
        files.append((os.path.join(GEN, 'NumCjk%s.lean' % suffix), t))
    return files
