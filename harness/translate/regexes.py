"""Regex translator: pattern TEXT of the working tree's resource modules -> Lean `RTV.Re.RE` literals in
RTV/Gen/Regexes.lean, plus the character tables (`\\d`, `\\w`, `\\s`) of the running `regex` module.

* The resource files are executed stand-alone (`runpy.run_path`) from the working tree, never imported from
  site-packages.
* Patterns are parsed with CPython's `re._parser` (after `(?<name>` -> `(?P<name>`).  IGNORECASE is expanded here:
  every literal / class member is replaced by the set of code points the `regex` module accepts for it under
  `(?i)` (so the Lean matcher needs no case folding).  DOTALL decides what `.` means.
* Normal form the proofs expect: sequences are right-nested and `eps`-terminated,
  `seq x1 (seq x2 (... (seq xn eps)))`; a one-branch group body is such a sequence; alternations are right-nested
  `alt b1 (alt b2 ... bn)`.
* Unsupported constructs (back-references, conditionals, possessive / atomic groups, unbounded repeats of a
  nullable body) raise `Unsupported` for that pattern: the pattern is then emitted as a comment and listed in
  `unsupported`, which the checks that need it report.

* No translated pattern may be able to match the empty string (`nullable`, the same syntactic test as
  `RTV.Re.nullable`): `RTV.Re.findAll` continues one position further after an empty match whereas `finditer` of
  `re` / `regex` retries at the same position for a non-empty match (RTV/Lemmas/ReNullable.lean: for patterns that are
  not nullable the two coincide, `findAll_eq_findAllPy`).  `generate()` raises on such a pattern (reported by every
  check that runs this translator) and RTV/Gen/RegexIndex.lean carries the kernel-checked counterpart
  `allRegexes_finditer_safe` over the emitted list.

The translation is validated on every run by the regex correspondence in harness/corr/c13.py (Lean matcher through
the driver vs the real `regex` module on strings built from each pattern's own classes)."""
import os
import re
import runpy
import sys

import regex

from lib import common
from lib.common import GEN
from .leanfmt import HEADER

try:
    import re._parser as sre_parse
    import re._constants as sre_c
except ImportError:  # pragma: no cover  (CPython < 3.11)
    import sre_parse
    import sre_constants as sre_c

MAXCP = 0x110000
FLAG_IS = regex.I | regex.S


class Unsupported(Exception):
    pass


# ------------------------------------------------------------------ sources

def _res(lib, pkg, fname):
    return os.path.join(common.REPO, 'Python', 'libraries', lib, pkg, 'resources', fname)


_cache = {}


def load_class(path, cls):
    """Execute one resource file of the working tree and return a class of it.  Files with relative imports
    (`from .base_ip import BaseIp`) are loaded inside a synthetic package whose path is the resources directory, so
    that neither the real package `__init__` nor site-packages is ever imported."""
    d = os.path.dirname(path)
    stamp = tuple(sorted((f, os.path.getmtime(os.path.join(d, f))) for f in os.listdir(d) if f.endswith('.py')))
    key = (path, stamp)
    if key not in _cache:
        src = open(path, encoding='utf-8').read()
        if re.search(r'^from \.', src, flags=re.M):
            import importlib
            import types
            pkg = '_rtv_res_%x' % (hash((d, stamp)) & 0xffffffff)
            if pkg not in sys.modules:
                m = types.ModuleType(pkg)
                m.__path__ = [d]
                sys.modules[pkg] = m
            mod = importlib.import_module(pkg + '.' + os.path.splitext(os.path.basename(path))[0])
            _cache[key] = vars(mod)
        else:
            _cache[key] = runpy.run_path(path)
    return _cache[key][cls]


def remove_unicode_matches_text(pattern_text):
    """The tree's own StringUtility.remove_unicode_matches, applied to the pattern text (the function takes a
    compiled pattern and reads `.pattern`).  Extracted from the working tree's source so that an edit of the
    function changes the translated regex."""
    path = os.path.join(common.REPO, 'Python', 'libraries', 'recognizers-text', 'recognizers_text', 'utilities.py')
    src = open(path, encoding='utf-8').read()
    m = re.search(r'    def remove_unicode_matches\(string[^)]*\):\n((?:        .*\n|\s*\n)+)', src)
    if not m:
        raise Unsupported('remove_unicode_matches not found in utilities.py')
    body = 'def _f(string):\n' + ''.join(l[4:] if l.strip() else l for l in m.group(1).splitlines(True))
    ns = {'re': re, 'regex': regex}
    exec(body, ns)

    class _P:
        pattern = pattern_text
    return ns['_f'](_P)


def sources():
    """-> [(lean name, pattern text, flags, origin)]"""
    out = []
    ip = load_class(_res('recognizers-sequence', 'recognizers_sequence', 'base_ip.py'), 'BaseIp')
    out.append(('ipv4Regex', ip.Ipv4Regex, FLAG_IS, 'BaseIp.Ipv4Regex (regex.I | regex.S)'))
    out.append(('ipv6Regex', ip.Ipv6Regex, FLAG_IS, 'BaseIp.Ipv6Regex (regex.I | regex.S)'))
    zh = load_class(_res('recognizers-sequence', 'recognizers_sequence', 'chinese_ip.py'), 'ChineseIp')
    out.append(('zhIpv4Regex', zh.Ipv4Regex, FLAG_IS, 'ChineseIp.Ipv4Regex (regex.I | regex.S)'))
    out.append(('zhIpv6Regex', zh.Ipv6Regex, FLAG_IS, 'ChineseIp.Ipv6Regex (regex.I | regex.S)'))
    ht = load_class(_res('recognizers-sequence', 'recognizers_sequence', 'base_hashtag.py'), 'BaseHashtag')
    out.append(('hashtagRegex', ht.HashtagRegex, FLAG_IS, 'BaseHashtag.HashtagRegex (regex.I | regex.S)'))
    mn = load_class(_res('recognizers-sequence', 'recognizers_sequence', 'base_mention.py'), 'BaseMention')
    out.append(('mentionRegex', mn.MentionRegex, FLAG_IS, 'BaseMention.MentionRegex (regex.I | regex.S)'))
    em = load_class(_res('recognizers-sequence', 'recognizers_sequence', 'base_email.py'), 'BaseEmail')
    out.append(('emailRegex', em.EmailRegex, FLAG_IS, 'BaseEmail.EmailRegex (regex.I | regex.S)'))
    ur = load_class(_res('recognizers-sequence', 'recognizers_sequence', 'base_url.py'), 'BaseURL')
    out.append(('urlRegex', ur.UrlRegex, FLAG_IS, 'BaseURL.UrlRegex (regex.I | regex.S)'))
    out.append(('urlRegex2', ur.UrlRegex2, FLAG_IS, 'BaseURL.UrlRegex2 (regex.I | regex.S)'))
    out.append(('ipUrlRegex', ur.IpUrlRegex, FLAG_IS, 'BaseURL.IpUrlRegex (regex.I | regex.S)'))
    zu = load_class(_res('recognizers-sequence', 'recognizers_sequence', 'chinese_url.py'), 'ChineseURL')
    out.append(('zhUrlRegex', zu.UrlRegex, FLAG_IS, 'ChineseURL.UrlRegex (regex.I | regex.S)'))
    out.append(('zhIpUrlRegex', zu.IpUrlRegex, FLAG_IS, 'ChineseURL.IpUrlRegex (regex.I | regex.S)'))
    out.append(('urlAmbiguousTimeTerm', ur.AmbiguousTimeTerm, FLAG_IS, 'BaseURL.AmbiguousTimeTerm (regex.I | regex.S)'))
    ph = load_class(_res('recognizers-sequence', 'recognizers_sequence', 'base_phone_numbers.py'), 'BasePhoneNumbers')
    wb, nwb, ewb = ph.WordBoundariesRegex, ph.NonWordBoundariesRegex, ph.EndWordBoundariesRegex
    for nm, args in (('General', (wb, ewb)), ('BR', (wb, nwb, ewb)), ('UK', (wb, nwb, ewb)), ('DE', (wb, ewb)),
                     ('US', (wb, nwb, ewb)), ('CN', (wb, ewb)), ('DK', (wb, ewb)), ('IT', (wb, ewb)), ('NL', (wb, ewb)),
                     ('Special', (wb, ewb))):
        out.append(('phone%sRegex' % nm, getattr(ph, nm + 'PhoneNumberRegex')(*args), FLAG_IS,
                    'BasePhoneNumbers.%sPhoneNumberRegex(base word-boundary regexes) (regex.I | regex.S)' % nm))
    for nm, attr, fl, how in (('phonePreCheckRegex', 'PreCheckPhoneNumberRegex', 0, 're.compile, no flags'),
                              ('phoneSSNFilterRegex', 'SSNFilterRegex', 0, 're.compile, no flags'),
                              ('phoneColonPrefixCheckRegex', 'ColonPrefixCheckRegex', 0, 're.compile, no flags'),
                              ('phoneFormatIndicatorRegex', 'FormatIndicatorRegex', FLAG_IS, 're.IGNORECASE | re.DOTALL'),
                              ('phoneIntlPrefixRegex', 'InternationDialingPrefixRegex', 0, 're.compile, no flags'),
                              ('phoneMaskRegex', 'PhoneNumberMaskRegex', 0, 're.finditer on the text, no flags')):
        out.append((nm, getattr(ph, attr), fl, 'BasePhoneNumbers.%s (%s)' % (attr, how)))
    enph = load_class(_res('recognizers-sequence', 'recognizers_sequence', 'english_phone_numbers.py'), 'EnglishPhoneNumbers')
    out.append(('enPhoneFalsePositivePrefixRegex', enph.FalsePositivePrefixRegex, 0,
                'EnglishPhoneNumbers.FalsePositivePrefixRegex (re.compile, no flags)'))
    gd = load_class(_res('recognizers-sequence', 'recognizers_sequence', 'base_GUID.py'), 'BaseGUID')
    out.append(('guidRegex', gd.GUIDRegex, FLAG_IS, 'BaseGUID.GUIDRegex (regex.I | regex.S)'))
    out.append(('guidElementRegex', gd.GUIDRegexElement, 0, 'BaseGUID.GUIDRegexElement (no flags: GUIDParser.score_guid)'))
    ch = load_class(_res('recognizers-choice', 'recognizers_choice', 'english_choice.py'), 'EnglishChoice')
    out.append(('boolTrueRegex', remove_unicode_matches_text(ch.TrueRegex), 0,
                'remove_unicode_matches(EnglishChoice.TrueRegex) (no flags: RegExpUtility.get_matches)'))
    out.append(('boolFalseRegex', remove_unicode_matches_text(ch.FalseRegex), 0,
                'remove_unicode_matches(EnglishChoice.FalseRegex) (no flags)'))
    out.append(('boolTokenizerRegex', ch.TokenizerRegex, regex.S, 'EnglishChoice.TokenizerRegex (regex.S)'))
    # raw texts as well (C20 models the rewrite itself)
    out.append(('boolTrueRegexRaw', None, 0, ch.TrueRegex))
    out.append(('boolFalseRegexRaw', None, 0, ch.FalseRegex))
    return out


# fixed patterns that exercise every construct of the matcher (validates translator + matcher, not the repo)
SELFTEST = [
    ('t_lazy', r'a(b|c){1,3}?c', 0), ('t_star', r'x\d*y|\s+z', 0), ('t_lookahead', r'\w+(?=\.)(?!\.\.)', 0),
    ('t_lookbehind', r'(?<=\d)[a-c]+(?<!c)', 0), ('t_anchors', r'^ab?$|\Bb\B|c\Z', 0),
    ('t_icase', r'[^k-s]k(?:s|I)\W\D\S', FLAG_IS), ('t_dot', r'a.b', 0), ('t_dots', r'a.b', FLAG_IS),
    ('t_named', r'(?<year>\d{4})-(?<month>0[1-9]|1[0-2])', 0), ('t_opt', r'(ab)?(a|ab)(c|bcd)?$', 0),
    ('t_plus_lazy', r'<.+?>', 0), ('t_nested', r'((a{1,2}|b)c){2,3}', FLAG_IS),
]


# ------------------------------------------------------------------ case variants as `regex` sees them

_cased = None
_var_cache = {}


def _cased_candidates():
    global _cased
    if _cased is None:
        out = []
        for c in range(MAXCP):
            if 0xD800 <= c <= 0xDFFF:
                continue
            ch = chr(c)
            if ch.lower() != ch or ch.upper() != ch or ch.casefold() != ch or ch.title() != ch:
                out.append(ch)
        _cased = ''.join(out)
    return _cased


def variants(c):
    """code points x such that `(?i)` + chr(c) matches chr(x) in the `regex` module."""
    if c not in _var_cache:
        ch = chr(c)
        if 0xD800 <= c <= 0xDFFF:
            _var_cache[c] = [c]
        else:
            pool = _cased_candidates()
            if ch not in pool:
                pool = pool + ch
            got = regex.findall(regex.escape(ch), pool, flags=regex.I)
            _var_cache[c] = sorted({ord(x) for x in got} | {c})
    return _var_cache[c]


def merge_ranges(cps):
    out = []
    for c in sorted(set(cps)):
        if out and out[-1][1] + 1 == c:
            out[-1][1] = c
        else:
            out.append([c, c])
    return [(a, b) for a, b in out]


# ------------------------------------------------------------------ sre parse tree -> python AST
# AST: ('eps',) ('cls', [items], neg) ('seq', [nodes]) ('alt', [nodes]) ('rep', node, mn, mx|None, greedy)
#      ('grp', idx, node) ('at', kind) ('look', ahead, neg, node);  items: ('range', lo, hi) | ('cat', name)

CATS = {
    sre_c.CATEGORY_DIGIT: 'digit', sre_c.CATEGORY_NOT_DIGIT: 'ndigit',
    sre_c.CATEGORY_WORD: 'word', sre_c.CATEGORY_NOT_WORD: 'nword',
    sre_c.CATEGORY_SPACE: 'space', sre_c.CATEGORY_NOT_SPACE: 'nspace',
}
ATS = {
    sre_c.AT_BOUNDARY: 'wordB', sre_c.AT_NON_BOUNDARY: 'nwordB', sre_c.AT_BEGINNING: 'bol', sre_c.AT_END: 'eol',
    sre_c.AT_BEGINNING_STRING: 'bol', sre_c.AT_END_STRING: 'eos',
}


def lit_items(c, icase):
    if icase:
        return [('range', a, b) for a, b in merge_ranges(variants(c))]
    return [('range', c, c)]


def range_items(lo, hi, icase):
    if not icase:
        return [('range', lo, hi)]
    if hi - lo > 512:
        # wide range: itself plus the case variants (outside it) of the cased code points inside it
        extra = set()
        for ch in _cased_candidates():
            if lo <= ord(ch) <= hi:
                extra.update(x for x in variants(ord(ch)) if not lo <= x <= hi)
        return [('range', lo, hi)] + [('range', a, b) for a, b in merge_ranges(extra)]
    cps = []
    for c in range(lo, hi + 1):
        cps += variants(c)
    return [('range', a, b) for a, b in merge_ranges(cps)]


def conv_seq(items, icase, dotall):
    return ('seq', [conv(op, av, icase, dotall) for op, av in items])


def conv(op, av, icase, dotall):
    if op is sre_c.LITERAL:
        return ('cls', lit_items(av, icase), False)
    if op is sre_c.NOT_LITERAL:
        return ('cls', lit_items(av, icase), True)
    if op is sre_c.ANY:
        return ('cls', [] if dotall else [('range', 10, 10)], True)
    if op is sre_c.IN:
        neg = False
        items = []
        for o, a in av:
            if o is sre_c.NEGATE:
                neg = True
            elif o is sre_c.LITERAL:
                items += lit_items(a, icase)
            elif o is sre_c.RANGE:
                items += range_items(a[0], a[1], icase)
            elif o is sre_c.CATEGORY:
                if a not in CATS:
                    raise Unsupported('category %s' % a)
                items.append(('cat', CATS[a]))
            else:
                raise Unsupported('class item %s' % o)
        return ('cls', items, neg)
    if op is sre_c.BRANCH:
        return ('alt', [conv_seq(b, icase, dotall) for b in av[1]])
    if op is sre_c.SUBPATTERN:
        group, add_flags, del_flags, p = av
        if add_flags or del_flags:
            raise Unsupported('scoped inline flags')
        return ('grp', group or 0, conv_seq(p, icase, dotall))
    if op in (sre_c.MAX_REPEAT, sre_c.MIN_REPEAT):
        mn, mx, p = av
        body = conv_seq(p, icase, dotall)
        if mx is sre_c.MAXREPEAT or mx >= 65535:
            if nullable(body):
                raise Unsupported('unbounded repeat of a body that can match the empty string')
            mx = None
        return ('rep', body, int(mn), mx if mx is None else int(mx), op is sre_c.MAX_REPEAT)
    if op is sre_c.AT:
        if av not in ATS:
            raise Unsupported('anchor %s' % av)
        return ('at', ATS[av])
    if op in (sre_c.ASSERT, sre_c.ASSERT_NOT):
        direction, p = av
        return ('look', direction > 0, op is sre_c.ASSERT_NOT, conv_seq(p, icase, dotall))
    raise Unsupported('construct %s' % op)


def nullable(n):
    k = n[0]
    if k == 'cls':
        return False
    if k == 'seq':
        return all(nullable(x) for x in n[1])
    if k == 'alt':
        return any(nullable(x) for x in n[1])
    if k == 'rep':
        return n[2] == 0 or nullable(n[1])
    if k == 'grp':
        return nullable(n[2])
    return True


def finditer_safe(n):
    """`RTV.Re.finditerSafe`: not nullable, or the empty pattern (for which both iterations give every position)"""
    return not nullable(n) or n == ('seq', [])


NULLABLE_MSG = ('%s: pattern(s) that can match the empty string: %s. RTV.Re.findAll continues one position further '
                'after an empty match, finditer of re/regex retries at the same position for a non-empty match '
                '(RTV/Lemmas/ReNullable.lean); such a pattern needs RTV.Re.findAllPy in the model that uses it')


def parse(pattern, flags):
    """pattern text, regex flags -> python AST (top level is a ('seq', …))."""
    text = re.sub(r'\(\?<([A-Za-z_])', r'(?P<\1', pattern)
    if re.search(r'\(\?[aiLmsux-]+[:)]', text):
        raise Unsupported('inline flags')
    try:
        tree = sre_parse.parse(text, 0)
    except Exception as e:
        raise Unsupported('re._parser: %s' % e)
    LAST_GROUPS.clear()
    LAST_GROUPS.update(dict(tree.state.groupdict))
    return conv_seq(list(tree), bool(flags & regex.I), bool(flags & regex.S))


LAST_GROUPS = {}     # named groups (name -> number) of the pattern parsed last
GROUPS = {}          # lean name -> {group name: number}, filled by translated()


# ------------------------------------------------------------------ python AST -> Lean text

def lean_item(it):
    if it[0] == 'range':
        return '.range %d %d' % (it[1], it[2])
    return '.' + it[1]


def par(t):
    return t if ' ' not in t else '(' + t + ')'


def lean_re(n):
    k = n[0]
    if k == 'seq':
        out = '.eps'
        for x in reversed(n[1]):
            out = '.seq %s %s' % (par(lean_re(x)), par(out))
        return out
    if k == 'alt':
        bs = [lean_re(b) for b in n[1]]
        out = bs[-1]
        for b in reversed(bs[:-1]):
            out = '.alt %s %s' % (par(b), par(out))
        return out
    if k == 'cls':
        return '.cls [%s] %s' % (', '.join(lean_item(i) for i in n[1]), 'true' if n[2] else 'false')
    if k == 'rep':
        g = 'true' if n[4] else 'false'
        if n[3] is None:
            return '.repU %s %d %s' % (par(lean_re(n[1])), n[2], g)
        return '.rep %s %d %d %s' % (par(lean_re(n[1])), n[2], n[3], g)
    if k == 'grp':
        return '.grp %d %s' % (n[1], par(lean_re(n[2])))
    if k == 'at':
        return '.' + n[1]
    if k == 'look':
        return '.look %s %s %s' % ('true' if n[1] else 'false', 'true' if n[2] else 'false', par(lean_re(n[3])))
    raise Unsupported(k)


def wrap(text, width=110, indent='  '):
    """break a long Lean term at spaces (never inside a token)"""
    out, line = [], indent
    for tok in text.split(' '):
        if len(line) + len(tok) + 1 > width and line.strip():
            out.append(line.rstrip())
            line = indent + '  '
        line += tok + ' '
    out.append(line.rstrip())
    return '\n'.join(out)


# ------------------------------------------------------------------ engine tables

def engine_ranges(cat):
    allc = ''.join(chr(c) for c in range(MAXCP) if not 0xD800 <= c <= 0xDFFF)
    return merge_ranges(ord(x) for x in regex.findall(cat, allc))


def fmt_ranges(rs, per_line=6):
    rows = ['(%d, %d)' % r for r in rs]
    lines = ['  ' + ', '.join(rows[i:i + per_line]) for i in range(0, len(rows), per_line)]
    return '#[\n' + ',\n'.join(lines) + ']'


def translated():
    """-> (ok: [(name, ast, pattern, flags, origin)], raw: [(name, text)], bad: [(name, pattern, reason)])"""
    ok, raw, bad = [], [], []
    for name, pat, flags, origin in sources():
        if pat is None:
            raw.append((name, origin))
            continue
        try:
            ok.append((name, parse(pat, flags), pat, flags, origin))
            GROUPS[name] = dict(LAST_GROUPS)
        except Unsupported as e:
            bad.append((name, pat, str(e)))
    for name, pat, flags in SELFTEST:
        ok.append((name, parse(pat, flags), pat, flags, 'translator self-test pattern'))
        GROUPS[name] = dict(LAST_GROUPS)
    return ok, raw, bad


def generate():
    """Four files, so that a change of a sequence resource does not rebuild what depends only on the choice regexes:
    Gen/ReTables.lean (engine tables), Gen/Regexes.lean (sequence patterns + translator self-test patterns),
    Gen/RegexesChoice.lean (boolean patterns), Gen/RegexIndex.lean (name -> RE for the driver)."""
    ok, raw, bad = translated()
    null = [name for name, ast, _, _, _ in ok if nullable(ast)]
    if null:
        raise ValueError(NULLABLE_MSG % ('regexes', ', '.join(null)))
    src = 'resource modules of the working tree + tables of regex %s' % regex.__version__
    tables = HEADER % ('regexes', src)
    tables += 'import RTV.Model.Re\nimport RTV.Model.Py\nset_option maxRecDepth 1000000\nnamespace RTV.Gen\nopen RTV.Re\n\n'
    tables += '/-- `\\d` as the `regex` module sees it (Unicode Nd of its own database) -/\n'
    tables += 'def reDigitRanges : Array (Nat × Nat) := ' + fmt_ranges(engine_ranges(r'\d')) + '\n\n'
    tables += '/-- `\\w` as the `regex` module sees it -/\n'
    tables += 'def reWordRanges : Array (Nat × Nat) := ' + fmt_ranges(engine_ranges(r'\w')) + '\n\n'
    tables += '/-- `\\s` as the `regex` module sees it -/\n'
    tables += 'def reSpaceRanges : Array (Nat × Nat) := ' + fmt_ranges(engine_ranges(r'\s')) + '\n\n'
    tables += ('/-- the tables of the running engine -/\ndef reTables : Tables where\n'
               '  digit c := RTV.Py.inRangesArr reDigitRanges c\n'
               '  word c := RTV.Py.inRangesArr reWordRanges c\n'
               '  space c := RTV.Py.inRangesArr reSpaceRanges c\n\nend RTV.Gen\n')
    head = 'import RTV.Gen.ReTables\nset_option maxRecDepth 1000000\nnamespace RTV.Gen\nopen RTV.Re\n\n'
    seq = HEADER % ('regexes', src) + head
    cho = HEADER % ('regexes', src) + head
    names = []
    for name, ast, pat, flags, origin in ok:
        d = '/-- %s\n    pattern: %s -/\n' % (origin, pat.replace('-/', '- /').replace('/-', '/ -'))
        d += 'def %s : RE :=\n%s\n\n' % (name, wrap(lean_re(ast)))
        for gname, gnum in sorted(GROUPS.get(name, {}).items()):
            d += '/-- number of the named group `%s` of `%s` -/\ndef %s_g_%s : Nat := %d\n\n' % (gname, name, name, gname, gnum)
        if name.startswith('bool'):
            cho += d
        else:
            seq += d
        names.append(name)
    for name, t in raw:
        cho += '/-- pattern text (code points) -/\ndef %s : List Nat := [%s]\n\n' % (
            name, ', '.join(str(ord(c)) for c in t))
    for name, pat, why in bad:
        seq += '-- UNSUPPORTED %s: %s\n--   %s\n\n' % (name, why, pat)
    seq += 'end RTV.Gen\n'
    cho += 'end RTV.Gen\n'
    idx = HEADER % ('regexes', src)
    idx += 'import RTV.Gen.Regexes\nimport RTV.Gen.RegexesChoice\nnamespace RTV.Gen\nopen RTV.Re\n\n'
    idx += 'def allRegexes : List (String × RE) := [\n' + ',\n'.join('  ("%s", %s)' % (n, n) for n in names) + ']\n\n'
    idx += 'def unsupportedRegexes : List String := [%s]\n\n' % ', '.join('"%s"' % n for n, _, _ in bad)
    idx += ('/-- No translated pattern can match the empty string (`RTV.Re.nullable`, sound by `ends_progress`): on every\n'
            'one of them `RTV.Re.findAll` is the `finditer` of `re` / `regex` (`findAll_eq_findAllPy`, '
            'RTV/Lemmas/ReNullable.lean). -/\n'
            'theorem allRegexes_finditer_safe : (allRegexes.all fun p => !nullable p.2) = true := by decide +kernel\n\n')
    idx += 'end RTV.Gen\n'
    return [(os.path.join(GEN, 'ReTables.lean'), tables), (os.path.join(GEN, 'Regexes.lean'), seq),
            (os.path.join(GEN, 'RegexesChoice.lean'), cho), (os.path.join(GEN, 'RegexIndex.lean'), idx)]
