"""FOLLOWER words of a digit literal (C03, the extraction front end; audit item 13).

The theorems of RTV/Props/C03Extract*.lean are about the DIGIT FAMILY of a number extractor's regex list.  The other
entries of the list (suffix multipliers `\\d+\\s*(k|M|T|G|b)`, `\\d+\\s+{RoundNumberIntegerRegex}`, dozen suffixes,
`\\d+\\s+(over|in|out of)\\s+…` fractions, `\\d+[\\.,]\\d+\\s+{round}` …) start with digits too and continue into the text
that FOLLOWS the literal.  A carrier's right part `post` is admitted by `PostOK` only when its first word is not such a
continuation.  This translator regenerates, per extractor language, the set of words that may continue a literal:

* every key of the parser configuration's `round_number_map` (es: es-es and es-mx), and
* every alphabetic token (`[^\\W\\d_]+`) of the pattern text of every entry of `regexes` that is OUTSIDE the digit family
  (both modes) — an over-approximation of the words those regexes can read after the digits,

lower-cased character by character with the simple lower-case table (`RTV.Gen.lowerPairs`), the same mapping the model
applies to the first word of `post`.  RTV/Gen/NumFollow.lean (namespace RTV.Gen.NumFollow)."""
import os

import regex

from lib import common
from lib.common import GEN
from . import numregex as NR
from .leanfmt import HEADER, lean_list, lean_str_cps

CULTURES_OF = {}
for _c, _l, _g, _d in NR.CULTURES:
    CULTURES_OF.setdefault(_l, []).append(_c)

TOKEN = regex.compile(r'[^\W\d_]+')


def simple_lower(s):
    """character-wise `str.lower()` where that is ONE code point (what `RTV.Py…lowerSimple lowerPairs` does)"""
    out = []
    for ch in s:
        lo = ch.lower()
        out.append(lo if len(lo) == 1 else ch)
    return ''.join(out)


_collected = {}


def collect():
    """-> {lang: sorted list of follower words}"""
    key = os.path.realpath(common.REPO)
    if key in _collected:
        return _collected[key]
    data = NR.classified()
    common.setup_repo_imports()
    from recognizers_number.number.number_recognizer import NumberRecognizer
    out = {}
    for lang, _, _ in NR.LANGS:
        words = set()
        for cu in CULTURES_OF[lang]:
            cfg = NumberRecognizer(cu).get_number_model(cu, False).parser.config
            for k in cfg.round_number_map:
                for w in TOKEN.findall(k):
                    words.add(simple_lower(w))
        for mode, _ in NR.MODES:
            for e in data[lang][mode]['entries']:
                if 'ast' in e:
                    continue
                for w in TOKEN.findall(e['pattern']):
                    words.add(simple_lower(w))
        out[lang] = sorted(words)
    _collected[key] = out
    return out


def generate():
    data = collect()
    t = HEADER % ('numfollow', 'round_number_map keys + the words of the number-extractor regexes outside the digit family')
    t += 'set_option maxRecDepth 1000000\nnamespace RTV.Gen.NumFollow\n\n'
    for lang, _, _ in NR.LANGS:
        t += '/-- words that may continue a digit literal in the %s extractor list (lower case, code points) -/\n' % lang
        t += 'def %s : List (List Nat) := %s\n\n' % (lang, lean_list([lean_str_cps(w) for w in data[lang]], per_line=6))
    t += 'def all : List (String × List (List Nat)) := [%s]\n\n' % ', '.join('("%s", %s)' % (l, l) for l, _, _ in NR.LANGS)
    t += 'end RTV.Gen.NumFollow\n'
    return [(os.path.join(GEN, 'NumFollow.lean'), t)]
