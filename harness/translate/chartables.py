"""Unicode tables of the running interpreter: str.isspace / isdigit / isalpha as sorted inclusive ranges, and
the per-code-point `str.lower()` map restricted to code points whose lower-casing is a single, different code
point, plus the list of code points whose lower-casing changes length."""
import os
import sys
from lib.common import GEN
from .leanfmt import lean_array, lean_list, HEADER

MAXCP = 0x110000


def ranges(pred):
    out = []
    start = None
    for c in range(MAXCP):
        if 0xD800 <= c <= 0xDFFF:
            ok = False
        else:
            ok = pred(chr(c))
        if ok and start is None:
            start = c
        elif not ok and start is not None:
            out.append((start, c - 1))
            start = None
    if start is not None:
        out.append((start, MAXCP - 1))
    return out


def generate():
    sp = ranges(str.isspace)
    dg = ranges(str.isdigit)
    al = ranges(str.isalpha)
    lower1 = []
    expanding = []
    for c in range(MAXCP):
        if 0xD800 <= c <= 0xDFFF:
            continue
        l = chr(c).lower()
        if len(l) != 1:
            expanding.append((c, [ord(x) for x in l]))
        elif ord(l) != c:
            lower1.append((c, ord(l)))
    fmt = lambda rs: lean_array(['(%d, %d)' % r for r in rs], per_line=6)
    text = HEADER % ('chartables', 'CPython %s unicodedata' % sys.version.split()[0])
    text += 'set_option maxRecDepth 1000000\nnamespace RTV.Gen\n\n'
    text += 'def spaceRanges : Array (Nat × Nat) := ' + fmt(sp) + '\n\n'
    text += 'def digitRanges : Array (Nat × Nat) := ' + fmt(dg) + '\n\n'
    text += 'def alphaRanges : Array (Nat × Nat) := ' + fmt(al) + '\n\n'
    text += '/-- code points whose `str.lower()` is one different code point, sorted by key -/\n'
    text += 'def lowerPairs : Array (Nat × Nat) := ' + fmt(lower1) + '\n\n'
    text += '/-- code points whose `str.lower()` has a different length (breaks length preservation) -/\n'
    text += 'def lowerExpanding : List (Nat × List Nat) := ' + lean_list(
        ['(%d, [%s])' % (c, ', '.join(map(str, l))) for c, l in expanding], per_line=4) + '\n\n'
    text += 'end RTV.Gen\n'
    return [(os.path.join(GEN, 'CharTables.lean'), text)]
