"""english/timex_constants.py of the working tree (`EnglishConstants`: DAYS, MONTHS, DATE_ABBREVIATION, SEASONS, WEEKS,
DAY_PARTS) -> RTV/Gen/TimexEnglish.lean, for the model of `TimexConvert` / `TimexRelativeConvert`
(`Timex.to_string`, `Timex.to_natural_language`)."""
import importlib.util
import os

from lib.common import GEN, REPO
from .leanfmt import lean_list, HEADER

SRC = os.path.join(REPO, 'Python', 'libraries', 'datatypes-timex-expression', 'datatypes_timex_expression', 'english',
                   'timex_constants.py')


def cps(s):
    return '[' + ', '.join(str(ord(c)) for c in s) + ']'


def generate():
    spec = importlib.util.spec_from_file_location('_verif_timex_english_constants', SRC)
    mod = importlib.util.module_from_spec(spec)
    spec.loader.exec_module(mod)
    E = mod.EnglishConstants
    text = HEADER % ('timexenglish', 'datatypes_timex_expression/english/timex_constants.py')
    text += 'namespace RTV.Gen.TimexEnglish\n\n'
    text += 'def days : List (List Nat) := %s\n' % lean_list([cps(x) for x in E.DAYS], per_line=1)
    text += 'def months : List (List Nat) := %s\n' % lean_list([cps(x) for x in E.MONTHS], per_line=1)
    text += '/-- `DATE_ABBREVIATION` as (key, text) pairs -/\n'
    text += 'def dateAbbreviation : List (Int × List Nat) := %s\n' % lean_list(
        ['(%d, %s)' % (k, cps(v)) for k, v in E.DATE_ABBREVIATION.items()], per_line=1)
    text += 'def seasons : List (List Nat × List Nat) := %s\n' % lean_list(
        ['(%s, %s)' % (cps(k), cps(v)) for k, v in E.SEASONS.items()], per_line=1)
    text += 'def weeks : List (List Nat) := %s\n' % lean_list([cps(x) for x in E.WEEKS], per_line=1)
    text += 'def dayParts : List (List Nat × List Nat) := %s\n' % lean_list(
        ['(%s, %s)' % (cps(k), cps(v)) for k, v in E.DAY_PARTS.items()], per_line=1)
    text += '\nend RTV.Gen.TimexEnglish\n'
    return [(os.path.join(GEN, 'TimexEnglish.lean'), text)]
