"""Duration unit tables of every registered date-time model's duration parser configuration (unit_map: spelling ->
unit code, unit_value_map: spelling -> seconds), read from the constructed parser objects of the working tree."""
import os
from lib import common
from lib.common import GEN
from .leanfmt import lean_list, lean_str_cps, HEADER

BASIC = ('Y', 'MON', 'W', 'D', 'H', 'M', 'S')


def generate():
    from lib import recog
    rows = []
    for (rec, mt, cul) in recog.all_pairs():
        if rec != 'DateTime':
            continue
        m = recog.get_model(rec, mt, cul)
        dp = getattr(m.parser.config, 'duration_parser', None)
        cfg = getattr(dp, 'config', None)
        um = getattr(cfg, 'unit_map', None)
        uv = getattr(cfg, 'unit_value_map', None)
        if not um or not uv:
            continue
        for k in um:
            if k in uv and um[k] in BASIC:
                rows.append((cul, k, um[k], int(uv[k])))
    text = HEADER % ('durationmaps', 'duration_parser.config.unit_map / unit_value_map of every registered date-time model')
    text += 'set_option maxRecDepth 1000000\nnamespace RTV.Gen\n\n'
    text += '/-- (culture, spelling, unit code, seconds) for every spelling whose code is one of Y MON W D H M S -/\n'
    text += 'def durationRows : List (List Nat × List Nat × List Nat × Nat) := ' + lean_list(
        ['(%s, %s, %s, %d)' % (lean_str_cps(c), lean_str_cps(k), lean_str_cps(code), secs) for c, k, code, secs in rows],
        per_line=1) + '\n\nend RTV.Gen\n'
    return [(os.path.join(GEN, 'DurationMaps.lean'), text)]
