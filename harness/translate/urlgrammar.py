"""The covering family of the explicit URL grammar (harness/lib/urlgrammar.py) -> RTV/Gen/UrlGrammar.lean, in four
chunks (one kernel evaluation each, built in parallel)."""
import os

from lib import urlgrammar
from lib.common import GEN
from .leanfmt import HEADER


def L(s):
    return '[' + ', '.join(str(ord(c)) for c in s) + ']'


def generate():
    fam = urlgrammar.family()
    text = HEADER % ('urlgrammar', 'harness/lib/urlgrammar.py (the grammar the C13 pipeline generates URLs from)')
    text += 'set_option maxRecDepth 1000000\nnamespace RTV.Gen\n\n'
    n = 4
    for k in range(n):
        rows = ['  -- %r\n  (%s, %d, %s)' % (q, L(q), a, L(u)) for q, a, u in fam[k::n]]
        text += '/-- (query, start of the URL, URL) -/\ndef urlFamily%d : List (List Nat × Nat × List Nat) := [\n%s]\n\n' % (
            k, ',\n'.join(rows))
    text += 'end RTV.Gen\n'
    return [(os.path.join(GEN, 'UrlGrammar.lean'), text)]
