"""Data of the fraction / point / power / suffix paths of BaseNumberParser that RTV.Model.NumFrac reads, taken from
the *parser configuration objects* of the working tree (the eight BaseNumberParser cultures):
fraction_marker_token, written_fraction_separator_texts, the resource's OneHalfTokens (used by the Spanish / French
normalize_token_set), lang_marker, `len(match)` of a digital_number_regex match (= group count + 1: the number the
suffix-removal loop of `_digit_number_parse` adds to the match position), the word separator, and the `prec` of the
`@precision` decorators on `parse` and `_power_number_parse`, `Constants.SYS_NUM_*`.

RTV/Gen/NumFracCfg.lean (namespace RTV.Gen.NumFracCfg)."""
import os

from lib import common
from lib.common import GEN
from .leanfmt import lean_list, lean_str_cps, HEADER

CULTURES = ['en-us', 'es-es', 'es-mx', 'fr-fr', 'pt-br', 'de-de', 'it-it', 'nl-nl']
RESOURCE = {'en-us': ('english_numeric', 'EnglishNumeric'), 'es-es': ('spanish_numeric', 'SpanishNumeric'),
            'es-mx': ('spanish_numeric', 'SpanishNumeric'), 'fr-fr': ('french_numeric', 'FrenchNumeric'),
            'pt-br': ('portuguese_numeric', 'PortugueseNumeric'), 'de-de': ('german_numeric', 'GermanNumeric'),
            'it-it': ('italian_numeric', 'ItalianNumeric'), 'nl-nl': ('dutch_numeric', 'DutchNumeric')}


def _prec_of(fn):
    for cell in (getattr(fn, '__closure__', None) or ()):
        try:
            v = cell.cell_contents
        except ValueError:
            continue
        if isinstance(v, dict) and 'prec' in v:
            return int(v['prec'])
    return None


def collect():
    common.setup_repo_imports()
    import importlib
    import recognizers_number
    from recognizers_number.number.number_recognizer import NumberRecognizer
    from recognizers_number.number.parsers import BaseNumberParser
    from recognizers_number.number.constants import Constants
    common.assert_tree_modules(recognizers_number)
    rows = []
    for code in CULTURES:
        rec = NumberRecognizer(code)
        parser = rec.get_number_model(code, False).parser
        cfg = parser.config
        modname, clsname = RESOURCE[code]
        res = getattr(importlib.import_module('recognizers_number.resources.' + modname), clsname)
        rows.append({
            'code': code,
            'fractionMarker': cfg.fraction_marker_token or '',
            'writtenFracSep': list(cfg.written_fraction_separator_texts or []),
            'oneHalf': list(getattr(res, 'OneHalfTokens', []) or []),
            'langMarker': cfg.lang_marker or '',
            'wordSep': cfg.word_separator_token or '',
            'matchLen': cfg.digital_number_regex.groups + 1,
            'loose': parser.text_number_regex.pattern.startswith('((?='),
            'hasRoundMultiplier': cfg.round_multiplier_regex is not None,
        })
    consts = {'parsePrec': _prec_of(BaseNumberParser.parse), 'powerPrec': _prec_of(BaseNumberParser._power_number_parse),
              'sysNum': {k: getattr(Constants, k) for k in ('SYS_NUM_CARDINAL', 'SYS_NUM_DOUBLE', 'SYS_NUM_FRACTION',
                                                            'SYS_NUM_INTEGER', 'SYS_NUM', 'SYS_NUM_ORDINAL',
                                                            'SYS_NUM_PERCENTAGE')}}
    return rows, consts


def generate():
    rows, consts = collect()
    t = HEADER % ('numfrac', 'the BaseNumberParser configurations (fraction / point / power / suffix paths)')
    t += 'namespace RTV.Gen.NumFracCfg\n\n'
    t += ('/-- (culture code, fraction_marker_token, written_fraction_separator_texts, OneHalfTokens of the resource,\n'
          'lang_marker, word_separator_token, len(match) of a digital_number_regex match, text_number_regex has the\n'
          'boundary-free second alternative (it / de / nl), round_multiplier_regex is not None) -/\n')
    t += ('def rows : List (List Nat × List Nat × List (List Nat) × List (List Nat) × List Nat × List Nat × Nat × Bool × Bool) := %s\n\n'
          % lean_list(['(%s, %s, %s, %s, %s, %s, %d, %s, %s)' % (
              lean_str_cps(r['code']), lean_str_cps(r['fractionMarker']),
              '[' + ', '.join(lean_str_cps(x) for x in r['writtenFracSep']) + ']',
              '[' + ', '.join(lean_str_cps(x) for x in r['oneHalf']) + ']',
              lean_str_cps(r['langMarker']), lean_str_cps(r['wordSep']), r['matchLen'],
              'true' if r['loose'] else 'false', 'true' if r['hasRoundMultiplier'] else 'false') for r in rows], per_line=1))
    t += '/-- the `prec` of `@precision(prec=…)` on BaseNumberParser.parse / _power_number_parse (0 = not decorated) -/\n'
    t += 'def parsePrec : Nat := %d\n' % (consts['parsePrec'] or 0)
    t += 'def powerPrec : Nat := %d\n\n' % (consts['powerPrec'] or 0)
    for k, v in consts['sysNum'].items():
        name = 'sys' + ''.join(p.capitalize() for p in k.lower().split('_')[1:])
        t += 'def %s : List Nat := %s\n' % (name, lean_str_cps(v))
    t += '\nend RTV.Gen.NumFracCfg\n'
    return [(os.path.join(GEN, 'NumFracCfg.lean'), t)]
