"""Single code points for which the working tree's `StringUtility.is_emoji` answers True (it asks the installed
`emoji` package: `demojize(c)` no longer contains `c`), as sorted inclusive ranges -> RTV/Gen/Emoji.lean."""
import os

import emoji

from lib.common import GEN
from .leanfmt import HEADER
from .regexes import merge_ranges, fmt_ranges


def is_emoji(ch):
    return ch not in emoji.demojize(ch)


def emoji_cps():
    data = getattr(emoji, 'EMOJI_DATA', None)
    if data is None:
        raise RuntimeError('emoji package without EMOJI_DATA')
    cands = {ord(k) for k in data if len(k) == 1}
    # every single code point of any listed sequence is a candidate as well
    for k in data:
        for ch in k:
            cands.add(ord(ch))
    return sorted(c for c in cands if is_emoji(chr(c)))


def generate():
    cps = emoji_cps()
    text = HEADER % ('emojitable', 'emoji %s demojize()' % getattr(emoji, '__version__', '?'))
    text += 'namespace RTV.Gen\n\n'
    text += '/-- code points `c` with `StringUtility.is_emoji(c)` -/\n'
    text += 'def emojiRanges : Array (Nat × Nat) := ' + fmt_ranges(merge_ranges(cps)) + '\n\n'
    text += 'end RTV.Gen\n'
    return [(os.path.join(GEN, 'Emoji.lean'), text)]
