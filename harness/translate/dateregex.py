"""English basic date regexes (C06 front end): the compiled patterns the PARSER's `parse_basic_regex_match` runs.

The real `EnglishDateParserConfiguration` of the working tree is built (through the registered DateTimeModel, so it is the
very object the pipeline uses) and its `date_regex` list (DateExtractor1, 3, 4, 5, 6, 7L, 7S, 8, 9L, 9S, A — in the parser's
order) and `date_token_prefix` are read: pattern text + flags of every entry.  Each pattern is translated to the `RE` AST of
RTV/Model/Re.lean with harness/translate/regexes.py:

* the `regex` module's duplicate group names (`(?<year>…(?<year>…))`, `month` in two branches) are renamed apart for
  CPython's parser and mapped back: a named group is numbered BY NAME (`TRACKED`: year 1, month 2, day 3, fullyear 4,
  weekday 5 — same name = same group, as in the `regex` module, where same-named groups share one group whose value is the
  last capture); every other group (unnamed, `order`, …) becomes number 0 = non-capturing, `match_to_date` never reads it;
* `\\p{L}` is expanded to the ranges the running `regex` module accepts for it, written as
  `[ASCII letters]|(?=[^\\x00-\\x7f])[other letters]` (same language; the 650-range scan is then never run on an ASCII
  character — it dominated kernel evaluation);
* IGNORECASE is expanded by the translator, `\\d \\s \\w \\b` stay symbolic (tables are a parameter of the matcher);
* sub-terms that occur more than once (MonthRegex, DayRegex, WeekDayRegex, the year alternatives …) are emitted once as
  `def s<k>` (hash-consing of the right-nested AST), so the terms stay small;
* a pattern outside the supported subset (or with a tracked group inside a POSITIVE look-around; inside a negative one the
  group is made non-capturing: no capture made there survives) is emitted as
  `unsupported` + reason and counted; `dateRegexes` then holds `none` at its index.

RTV/Gen/DateRegexEn.lean (namespace RTV.Gen.DateRegexEn).

Other BaseDateParser cultures of the C06 contract (builder Q2): the same translation of the culture's own `date_regex` list
and `date_token_prefix` -> RTV/Gen/DateRegex<Cul>.lean, the culture's contract layouts / month names ->
RTV/Gen/DateLayouts<Cul>.lean (`CULTURES`: es-es -> Es, fr-fr -> Fr, pt-br -> Pt, de-de -> De, it-it -> It, nl-nl -> Nl; the
last two feed the driver / correspondence only, no Props file).  es-mx shares the Spanish
configuration: the Spanish file records whether the es-mx pattern list is identical (`esmxSameRegexes`) and carries the
es-mx layouts.  A layout with the French `{d1er}` placeholder (`1er`, day 1 only) goes to the separate list `layouts<Cul>Day1`
as `.d, e, r`."""
import os
import re

import regex

from lib import common
from lib.common import GEN
from . import regexes as R
from .leanfmt import HEADER

TRACKED = {'year': 1, 'month': 2, 'day': 3, 'fullyear': 4, 'weekday': 5}
PUA = '\ue000'          # stands for \p{L} while CPython's parser reads the pattern
NAMES = ['DateExtractor1', 'DateExtractor3', 'DateExtractor4', 'DateExtractor5', 'DateExtractor6', 'DateExtractor7L',
         'DateExtractor7S', 'DateExtractor8', 'DateExtractor9L', 'DateExtractor9S', 'DateExtractorA']

# culture -> suffix of the generated modules; the English files keep their historical shape
CULTURES = [('en-us', 'En'), ('es-es', 'Es'), ('fr-fr', 'Fr'), ('pt-br', 'Pt'), ('de-de', 'De'), ('it-it', 'It'), ('nl-nl', 'Nl')]
SUFFIX = dict(CULTURES)
LANGNAME = {'en-us': 'English', 'es-es': 'Spanish', 'fr-fr': 'French', 'pt-br': 'Portuguese', 'de-de': 'German',
            'it-it': 'Italian', 'nl-nl': 'Dutch'}

_letters = {}


def letter_ranges(icase):
    if icase not in _letters:
        allc = ''.join(chr(c) for c in range(R.MAXCP) if not 0xD800 <= c <= 0xDFFF)
        _letters[icase] = R.merge_ranges(ord(x) for x in regex.findall((r'(?i)' if icase else '') + r'\p{L}', allc))
    return _letters[icase]


def _rename_groups(text):
    """`(?<name>` -> `(?P<name__k>` with k unique per occurrence; -> (text, {renamed: name})"""
    back = {}
    count = [0]

    def sub(m):
        count[0] += 1
        nm = '%s__%d' % (m.group(1), count[0])
        back[nm] = m.group(1)
        return '(?P<%s>' % nm
    return re.sub(r'\(\?P?<([A-Za-z_][A-Za-z0-9_]*)>', sub, text), back


def _fix(n, num2name, icase, in_look):
    """placeholder class -> letter ranges; group numbers -> tracked numbers"""
    k = n[0]
    if k == 'cls':
        if any(it[0] == 'range' and it[1] <= 0xE000 <= it[2] for it in n[1]):
            if n[2] or len(n[1]) != 1 or n[1][0] != ('range', 0xE000, 0xE000):
                raise R.Unsupported('\\p{L} inside a character class')
            # same language, cheaper to evaluate on ASCII text: [ASCII letters] | (?=[^\x00-\x7f])[the other letters]
            lo = [('range', a, min(b, 127)) for a, b in letter_ranges(icase) if a < 128]
            hi = [('range', max(a, 128), b) for a, b in letter_ranges(icase) if b >= 128]
            return ('alt', [('seq', [('cls', lo, False)]),
                            ('seq', [('look', True, False, ('seq', [('cls', [('range', 128, R.MAXCP - 1)], False)])),
                                     ('cls', hi, False)])])
        return n
    if k in ('seq', 'alt'):
        return (k, [_fix(x, num2name, icase, in_look) for x in n[1]])
    if k == 'rep':
        return ('rep', _fix(n[1], num2name, icase, in_look), n[2], n[3], n[4])
    if k == 'grp':
        name = num2name.get(n[1])
        idx = TRACKED.get(name, 0)
        if idx and in_look == 'neg':
            idx = 0     # inside a NEGATIVE look-around: the engine keeps no capture made there (the assertion holds only
            #             when the body does not match); the model drops captures of look-arounds likewise
        elif idx and in_look:
            raise R.Unsupported('named group %s inside a look-around assertion' % name)
        return ('grp', idx, _fix(n[2], num2name, icase, in_look))
    if k == 'look':
        return ('look', n[1], n[2], _fix(n[3], num2name, icase, 'neg' if (n[2] or in_look == 'neg') else True))
    return n


def parse(pattern, flags):
    """pattern text of the `regex` module -> (python AST with tracked group numbers, sorted list of group names)"""
    text = pattern
    if PUA in text:
        raise R.Unsupported('pattern uses U+E000')
    if '\\p{' in text or '\\P{' in text:
        text = text.replace('\\p{L}', PUA)
        if '\\p{' in text or '\\P{' in text:
            raise R.Unsupported('Unicode property other than \\p{L}')
    # `^?` (an optional anchor: the `regex` module accepts it, CPython's parser does not) matches the empty string always
    text = re.sub(r'(?<![\\\[])\^\?', '(?:)', text)
    text, back = _rename_groups(text)
    ast = R.parse(text, flags)
    num2name = {num: back.get(nm, nm) for nm, num in R.LAST_GROUPS.items()}
    return _fix(ast, num2name, bool(flags & regex.I), False), sorted(set(num2name.values()))


_collected = {}


def collect(culture='en-us'):
    """-> {'prefix': str, 'entries': [{'idx', 'name', 'pattern', 'flags', 'ast' | 'unsupported', 'groups'}]}"""
    key = (os.path.realpath(common.REPO), culture)
    if key in _collected:
        return _collected[key]
    common.setup_repo_imports()
    from lib import recog
    model = recog.get_model('DateTime', 'DateTimeModel', culture)
    cfg = model.parser.config.date_parser.config
    import recognizers_date_time
    common.assert_tree_modules(recognizers_date_time)
    entries = []
    for idx, rx in enumerate(cfg.date_regex):
        pat = rx.pattern if hasattr(rx, 'pattern') else str(rx)
        flags = (rx.flags if hasattr(rx, 'flags') else 0) & (regex.I | regex.S | regex.M | regex.X)
        e = {'idx': idx, 'name': NAMES[idx] if culture == 'en-us' and len(cfg.date_regex) == len(NAMES) else 'date_regex[%d]' % idx,
             'pattern': pat, 'flags': flags, 'groups': []}
        try:
            if flags & (regex.M | regex.X):
                raise R.Unsupported('flags %d' % flags)
            e['ast'], e['groups'] = parse(pat, flags)
        except R.Unsupported as u:
            e['unsupported'] = str(u)
        entries.append(e)
    out = {'prefix': cfg.date_token_prefix, 'entries': entries, 'cfg_class': type(cfg).__name__}
    _collected[key] = out
    return out


# ------------------------------------------------------------------ hash-consed emission

def _binary(n):
    """python AST -> right-nested binary tree of hashable tuples (the shape lean_re prints)"""
    k = n[0]
    if k == 'seq':
        out = ('eps',)
        for x in reversed(n[1]):
            out = ('seq', _binary(x), out)
        return out
    if k == 'alt':
        bs = [_binary(b) for b in n[1]]
        out = bs[-1]
        for b in reversed(bs[:-1]):
            out = ('alt', b, out)
        return out
    if k == 'cls':
        return ('cls', tuple(n[1]), n[2])
    if k == 'rep':
        return ('rep', _binary(n[1]), n[2], n[3], n[4])
    if k == 'grp':
        return ('grp', n[1], _binary(n[2]))
    if k == 'at':
        return ('at', n[1])
    if k == 'look':
        return ('look', n[1], n[2], _binary(n[3]))
    raise R.Unsupported(k)


def _children(t):
    k = t[0]
    if k in ('seq', 'alt'):
        return [t[1], t[2]]
    if k == 'rep':
        return [t[1]]
    if k == 'grp':
        return [t[2]]
    if k == 'look':
        return [t[3]]
    return []


class Emitter:
    """emits each distinct sub-term that occurs at least twice (and is not tiny) as a definition"""

    def __init__(self, roots, prefix='s'):
        self.count = {}
        self.size = {}
        for r in roots:
            self._walk(r)
        self.names = {}
        self.defs = []          # (name, text) in dependency order
        self.prefix = prefix

    def _walk(self, t):
        self.count[t] = self.count.get(t, 0) + 1
        if t in self.size:
            return
        sz = 1 + (len(t[1]) if t[0] == 'cls' else 0)
        for c in _children(t):
            self._walk(c)
            sz += self.size[c]
        self.size[t] = sz

    def term(self, t, top=False):
        if not top and t in self.names:
            return self.names[t]
        k = t[0]
        if k == 'eps':
            s = '.eps'
        elif k == 'seq':
            s = '.seq %s %s' % (R.par(self.ref(t[1])), R.par(self.ref(t[2])))
        elif k == 'alt':
            s = '.alt %s %s' % (R.par(self.ref(t[1])), R.par(self.ref(t[2])))
        elif k == 'cls':
            s = '.cls [%s] %s' % (', '.join(R.lean_item(i) for i in t[1]), 'true' if t[2] else 'false')
        elif k == 'rep':
            g = 'true' if t[4] else 'false'
            if t[3] is None:
                s = '.repU %s %d %s' % (R.par(self.ref(t[1])), t[2], g)
            else:
                s = '.rep %s %d %d %s' % (R.par(self.ref(t[1])), t[2], t[3], g)
        elif k == 'grp':
            s = '.grp %d %s' % (t[1], R.par(self.ref(t[2])))
        elif k == 'at':
            s = '.' + t[1]
        elif k == 'look':
            s = '.look %s %s %s' % ('true' if t[1] else 'false', 'true' if t[2] else 'false', R.par(self.ref(t[3])))
        else:
            raise R.Unsupported(k)
        return s

    def ref(self, t):
        """text that denotes `t` inside a bigger term: a definition name when shared"""
        if t in self.names:
            return self.names[t]
        if self.count.get(t, 0) >= 2 and self.size[t] >= 6:
            body = self.term(t, top=True)
            name = '%s%d' % (self.prefix, len(self.defs) + 1)
            self.names[t] = name
            self.defs.append((name, body))
            return name
        return self.term(t, top=True)


def _doc(s):
    return s.replace('-/', '- /').replace('/-', '/ -')


def generate():
    out = []
    for culture, suf in CULTURES:
        out += generate_culture(culture, suf)
    return out


def generate_culture(culture, suf):
    data = collect(culture)
    src = "the %s date parser configuration of the working tree (regex %s)" % (LANGNAME[culture], regex.__version__)
    t = HEADER % ('dateregex', src)
    t += 'import RTV.Model.Re\nset_option maxRecDepth 1000000\nnamespace RTV.Gen.DateRegex%s\nopen RTV.Re\n\n' % suf
    roots = []
    for e in data['entries']:
        if 'ast' in e:
            try:
                e['bin'] = _binary(e['ast'])
                roots.append(e['bin'])
            except R.Unsupported as u:
                e['unsupported'] = str(u)
                e.pop('ast', None)
    em = Emitter(roots)
    tops = []
    for e in data['entries']:
        if 'bin' in e:
            tops.append((e, em.term(e['bin'], top=True)))
    t += '/-! shared sub-regexes (each occurs at least twice in the %s patterns) -/\n\n' % (
        'eleven' if culture == 'en-us' else str(len(data['entries'])))
    for name, body in em.defs:
        t += 'def %s : RE :=\n%s\n\n' % (name, R.wrap(body))
    for e, body in tops:
        t += '/-- %s.date_regex[%d] = %s, flags %d; groups: %s\n    pattern: %s -/\ndef dateRegex%d : RE :=\n%s\n\n' % (
            data['cfg_class'], e['idx'], e['name'], e['flags'], ', '.join(e['groups']), _doc(e['pattern']), e['idx'], R.wrap(body))
    t += '/-- the list `date_regex` in the parser\'s order; `none` = outside the translator (see `unsupported`) -/\n'
    t += 'def dateRegexes : List (Option RE) := [%s]\n\n' % ', '.join(
        ('some dateRegex%d' % e['idx']) if 'bin' in e else 'none' for e in data['entries'])
    t += '/-- patterns outside the supported subset: (index, reason) -/\n'
    t += 'def unsupported : List (Nat × String) := [%s]\n\n' % ', '.join(
        '(%d, "%s")' % (e['idx'], e['unsupported'].replace('\\', '\\\\').replace('"', "'")) for e in data['entries'] if 'unsupported' in e)
    t += '/-- `date_token_prefix` -/\ndef dateTokenPrefix : List Nat := [%s]\n\n' % ', '.join(str(ord(c)) for c in data['prefix'])
    t += '/-- numbers of the named groups `match_to_date` reads (+ weekday); every other group is number 0 -/\n'
    for nm, i in sorted(TRACKED.items(), key=lambda kv: kv[1]):
        t += 'def g_%s : Nat := %d\n' % (nm, i)
    if culture == 'es-es':
        mx = collect('es-mx')
        same = ([(e['pattern'], e['flags']) for e in mx['entries']] == [(e['pattern'], e['flags']) for e in data['entries']]
                and mx['prefix'] == data['prefix'])
        t += ('\n/-- the es-mx configuration has the same `date_regex` patterns, flags and `date_token_prefix` as es-es -/\n'
              'def esmxSameRegexes : Bool := %s\n' % ('true' if same else 'false'))
    t += '\nend RTV.Gen.DateRegex%s\n' % suf
    return [(os.path.join(GEN, 'DateRegex%s.lean' % suf), t),
            (os.path.join(GEN, 'DateLayouts%s.lean' % suf), layouts_text(culture, suf))]


TOKS = {'y': '.y', 'm': '.m', 'm02': '.m02', 'd': '.d', 'd02': '.d02', 'mon': '.mon', 'abbr': '.abbr', 'dord': '.dord'}


def layout_tokens(template):
    """`{mon} {dord}, {y}` -> ['.mon', '.lit 32', '.dord', '.lit 44', '.lit 32', '.y'] (None for an unknown placeholder)"""
    out = []
    for m in re.finditer(r'\{(\w+)\}|(.)', template, flags=re.S):
        if m.group(1):
            if m.group(1) not in TOKS:
                return None
            out.append(TOKS[m.group(1)])
        else:
            out.append('.lit %d' % ord(m.group(2)))
    return out


def layouts_text(culture='en-us', suf='En'):
    """the culture's layouts of the committed contract /verif/contracts/C06.json as token lists (Props/C06Front<Cul>
    quantifies over this list) + the contract's month names"""
    import json
    with open(os.path.join(common.VERIF, 'contracts', 'C06.json'), encoding='utf-8') as f:
        c = json.load(f)
    en = culture == 'en-us'
    t = HEADER % ('dateregex', 'contracts/C06.json (layouts, months, abbr of %s)' % culture)
    t += 'import RTV.Model.DateFront\nnamespace RTV.Gen.DateLayouts%s\nopen RTV.DateFront\n\n' % suf

    def emit_rows(tag, defprefix):
        txt, names, day1 = '', [], []
        for i, row in enumerate(c['layouts'][tag]):
            tpl = row['template']
            if '{d1er}' in tpl and not en:
                toks = layout_tokens(tpl.replace('{d1er}', '{d}er'))
                if toks is not None:
                    txt += '/-- `%s` (%s): `1er`, day 1 only -/\ndef %s%d : List Tok := [%s]\n\n' % (
                        tpl, row['family'], defprefix, i, ', '.join(toks))
                    day1.append('%s%d' % (defprefix, i))
                    continue
            toks = layout_tokens(tpl)
            if toks is None:
                txt += '-- layout %d: %s — placeholder outside the token set\n\n' % (i, tpl)
                continue
            txt += '/-- `%s` (%s) -/\ndef %s%d : List Tok := [%s]\n\n' % (tpl, row['family'], defprefix, i, ', '.join(toks))
            names.append('%s%d' % (defprefix, i))
        return txt, names, day1

    txt, names, day1 = emit_rows(culture, 'layout')
    t += txt
    t += '/-- every %s layout of the contract -/\ndef layouts%s : List (List Tok) := [%s]\n\n' % (
        'English' if en else culture, suf, ', '.join(names))
    if not en:
        t += ('/-- the layouts of the contract that apply to day 1 only (`1er`) -/\ndef layouts%sDay1 : List (List Tok) := [%s]\n\n'
              % (suf, ', '.join(day1)))
    if culture == 'es-es':
        txt, names, day1 = emit_rows('es-mx', 'layoutMx')
        t += txt
        t += '/-- every es-mx layout of the contract -/\ndef layoutsEsMx : List (List Tok) := [%s]\n\n' % ', '.join(names)

    def strs(lst):
        return '[' + ', '.join('[' + ', '.join(str(ord(ch)) for ch in s) + ']' for s in lst) + ']'
    t += '/-- `months` / `abbr` of the contract -/\ndef names%s : Names := ⟨%s,\n  %s⟩\n\n' % (
        suf, strs(c['months'][culture]), strs(c['abbr'].get(culture, [])))
    if culture == 'es-es':
        t += '/-- the es-mx month names of the contract are the es-es ones -/\ndef esmxSameNames : Bool := %s\n\n' % (
            'true' if c['months']['es-mx'] == c['months']['es-es'] and c['abbr'].get('es-mx', []) == c['abbr'].get('es-es', []) else 'false')
    t += 'end RTV.Gen.DateLayouts%s\n' % suf
    return t
