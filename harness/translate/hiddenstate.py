"""Inventory of HIDDEN STATE of the working tree -> RTV/Gen/HiddenState.lean  (C02: recognition is a pure function).

Pure `ast` walk over every module of the seven libraries (nothing of the tree is imported).  Seven tables, each a
sorted list of rows, a row is ONE line of text `<module>:<qualified name> <kind> <target>[ xN]` emitted as a code-point
list.  The committed allow-list lives in RTV/Props/C02State.lean; the theorems there say `regenerated ⊆ allowed`.

  classState   (a)  class-level attributes bound, at class-definition time, to a mutable container / a constructed object
  classWrites  (a') sites that write class-level state (root of the store is a class name, `cls`, `self.__class__`,
                    `type(self)`), and every caller-by-name of a function that does
  moduleState  (b)  module-level names that a function mutates (`global`, store through the name, mutator call, `next`),
                    module attributes rebound from inside functions
  memo         (c)  every decorator outside the benign set (property / staticmethod / classmethod / abstractmethod /
                    x.setter / overload), every import or use of functools memoisers, mutable default arguments, closure state
                    (an inner function mutating a variable of the enclosing function)
  selfMut      (d1) instance state written outside `__init__`: `self.x = ..`, `self.x[k] = ..`, `self.x.append(..)`,
                    also through one-step local aliases (`cfg = self.config`, `for x in self.items`)
  argMut       (d2) functions that mutate their ARGUMENTS in place (`source.text = ..`, `er.start += ..`, `ers.append(..)`,
                    through aliases `for er in ers`)
  settings     (e)  process- / thread-global settings touched (decimal context, locale, random, os.environ, sys.*,
                    warnings, threading.local) and reflective escape hatches (setattr / globals / __dict__ / exec / eval)
resources/*.py data modules are scanned for (b), (c), (e) only (their class-level tables are data, snapshotted at run time
by harness/lib/hiddenstatecorr.py)."""
import ast
import os

from lib import common
from lib.common import GEN
from .leanfmt import HEADER, lean_list

TABLES = ['classState', 'classWrites', 'moduleState', 'memo', 'selfMut', 'argMut', 'settings']

MUTATORS = {'append', 'extend', 'insert', 'pop', 'remove', 'clear', 'update', 'setdefault', 'add', 'discard', 'popitem',
            'sort', 'reverse', 'appendleft', 'popleft', 'extendleft', '__setitem__', '__delitem__', 'move_to_end',
            'difference_update', 'intersection_update', 'symmetric_difference_update', 'cache_clear', 'put', 'push'}
BENIGN_DECORATORS = {'property', 'staticmethod', 'classmethod', 'abstractmethod', 'abstractproperty', 'overload',
                     'abc.abstractmethod', 'typing.overload', 'abstractclassmethod', 'abstractstaticmethod'}
MEMO_NAMES = {'lru_cache', 'cache', 'cached_property', 'singledispatch', 'singledispatchmethod', 'memoize', 'memoized',
              'memo', 'cachedmethod', 'cached'}
CONTAINER_CALLS = {'dict': 'dict', 'list': 'list', 'set': 'set', 'defaultdict': 'dict', 'OrderedDict': 'dict',
                   'Counter': 'dict', 'deque': 'list', 'bytearray': 'list', 'ChainMap': 'dict', 'WeakValueDictionary': 'dict',
                   'WeakKeyDictionary': 'dict', 'count': 'counter', 'cycle': 'counter', 'iter': 'counter', 'local': 'threadlocal',
                   'Lock': 'lock', 'RLock': 'lock'}
# calls whose result is immutable (or a type): a class attribute bound to them is not state
IMMUTABLE_CALLS = {'get_safe_reg_exp', 'compile', 'namedtuple', 'frozenset', 'tuple', 'TypeVar', 'str', 'int', 'float',
                   'bool', 'Decimal', 'auto', 'property', 'abstractproperty', 'NewType', 'len', 'format', 'join',
                   'timedelta', 'date', 'datetime', 'time', 'escape', 'lower', 'upper', 'strip', 'replace', 'chr', 'ord',
                   'sanitize', 'Fraction', 'range', 'min', 'max', 'sum', 'abs', 'round', 'repr', 'bytes', 'staticmethod',
                   'classmethod', 'TypedDict', 'Enum', 'IntEnum', 'IntFlag', 'Flag', 'getLogger'}
SETTINGS_CALLS = {'getcontext', 'setcontext', 'localcontext', 'setlocale', 'getlocale', 'seed', 'putenv', 'unsetenv',
                  'chdir', 'setrecursionlimit', 'setswitchinterval', 'tzset', 'filterwarnings', 'simplefilter',
                  'setattr', 'delattr', 'globals', 'exec', 'eval', 'local', 'settrace', 'setprofile', 'getrandbits',
                  'random', 'randint', 'choice', 'shuffle', 'now', 'today', 'utcnow', 'getenv', 'BasicContext',
                  'ExtendedContext', 'DefaultContext', '__import__', 'import_module', 'reload', 'vars'}
SETTINGS_ATTRS = {'environ', '__dict__', 'modules', 'path', 'prec', 'rounding', 'Emax', 'Emin', 'traps', 'flags',
                  'DefaultContext', 'BasicContext', 'ExtendedContext', 'tzinfo_default'}
CONSTRUCTORS = {'__init__', '__new__', '__post_init__', '__init_subclass__'}
LIB_DIRS_SKIP = {'tests', 'test', 'build', 'dist', '__pycache__', 'node_modules', '.eggs'}


def tree_modules(repo=None):
    """-> [(module name, path, is_resource)] of the seven libraries, sorted"""
    repo = repo or common.REPO
    out = []
    for lib in common.LIBS:
        root = os.path.join(repo, 'Python', 'libraries', lib)
        for dp, dirs, files in os.walk(root):
            dirs[:] = sorted(d for d in dirs if d not in LIB_DIRS_SKIP and not d.endswith('.egg-info'))
            for f in sorted(files):
                if not f.endswith('.py') or (dp == root and f == 'setup.py'):
                    continue
                rel = os.path.relpath(os.path.join(dp, f), root)
                parts = rel[:-3].split(os.sep)
                if parts[-1] == '__init__':
                    parts = parts[:-1]
                if not parts:
                    continue
                out.append(('.'.join(parts), os.path.join(dp, f), 'resources' in parts[:-1]))
    return sorted(out)


def chain(node):
    """text of a Name / Attribute / Subscript / Call chain and its root Name id: `self.a.b[]` -> ('self.a.b[]', 'self')"""
    parts = []
    n = node
    while True:
        if isinstance(n, ast.Attribute):
            parts.append('.' + n.attr)
            n = n.value
        elif isinstance(n, ast.Subscript):
            parts.append('[]')
            n = n.value
        elif isinstance(n, ast.Call):
            parts.append('()')
            n = n.func
        elif isinstance(n, ast.Starred):
            n = n.value
        elif isinstance(n, ast.Name):
            return n.id + ''.join(reversed(parts)), n.id
        else:
            return None, None


def target_names(t):
    """names BOUND by an assignment / for target (not the roots of attribute or subscript stores)"""
    if isinstance(t, ast.Name):
        return [t.id]
    if isinstance(t, (ast.Tuple, ast.List)):
        return [n for e in t.elts for n in target_names(e)]
    if isinstance(t, ast.Starred):
        return target_names(t.value)
    return []


def last_name(func):
    if isinstance(func, ast.Attribute):
        return func.attr
    if isinstance(func, ast.Name):
        return func.id
    return None


def value_kind(v):
    """kind of a value bound at class / module level: mutable container, counter, constructed object, or None"""
    if isinstance(v, (ast.Dict, ast.DictComp)):
        return 'dict'
    if isinstance(v, (ast.List, ast.ListComp)):
        return 'list'
    if isinstance(v, (ast.Set, ast.SetComp)):
        return 'set'
    if isinstance(v, ast.GeneratorExp):
        return 'generator'
    if isinstance(v, ast.Call):
        name = last_name(v.func)
        if name in CONTAINER_CALLS:
            return CONTAINER_CALLS[name]
        if name in IMMUTABLE_CALLS or name is None:
            return None
        return 'call:' + (chain(v.func)[0] or name)
    if isinstance(v, ast.Lambda):
        return None
    return None


class Scope:
    def __init__(self, kind, name, parent, node=None):
        self.kind, self.name, self.parent, self.node = kind, name, parent, node
        self.params, self.globals, self.nonlocals, self.locals = [], set(), set(), set()
        self.alias = {}     # local name -> root category ('self' | 'arg:<param>')
        self.mutable_locals = {}

    def qual(self):
        names = []
        s = self
        while s is not None and s.kind != 'module':
            names.append(s.name)
            s = s.parent
        return '.'.join(reversed(names)) or '<module>'

    def enclosing_function(self):
        s = self.parent
        while s is not None:
            if s.kind == 'function':
                return s
            s = s.parent
        return None

    def enclosing_class(self):
        s = self.parent
        while s is not None and s.kind != 'class':
            if s.kind == 'function':
                s = s.parent
                continue
            s = s.parent
        return s


class ModuleInventory:
    def __init__(self, modname, tree, is_resource, rows):
        self.m, self.tree, self.res, self.rows = modname, tree, is_resource, rows
        self.mod_names = {}      # module-level name -> kind ('class' | 'import' | 'func' | value kind | 'value')
        self.writers = set()     # names of functions that write class-level / module-level state
        self.class_containers = {}   # class name -> names bound to containers / constructed objects in its body

    def add(self, table, scope_qual, kind, target):
        key = (table, '%s:%s %s %s' % (self.m, scope_qual, kind, target))
        self.rows[key] = self.rows.get(key, 0) + 1

    # ---- pass 1: module-level names
    def collect_module_names(self):
        for st in self.tree.body:
            if isinstance(st, ast.ClassDef):
                self.mod_names[st.name] = 'class'
            elif isinstance(st, (ast.FunctionDef, ast.AsyncFunctionDef)):
                self.mod_names[st.name] = 'func'
            elif isinstance(st, (ast.Import, ast.ImportFrom)):
                for a in st.names:
                    nm = (a.asname or a.name).split('.')[0]
                    self.mod_names.setdefault(nm, 'import')
            elif isinstance(st, (ast.Assign, ast.AnnAssign, ast.AugAssign)):
                tg = st.targets if isinstance(st, ast.Assign) else [st.target]
                val = st.value
                for t in tg:
                    for n in ast.walk(t):
                        if isinstance(n, ast.Name):
                            k = value_kind(val) if val is not None else None
                            if k is None and isinstance(val, ast.Constant) and isinstance(val.value, (int, float)) \
                                    and not isinstance(val.value, bool):
                                k = 'number'
                            self.mod_names[n.id] = k or 'value'

    # ---- pass 2
    def run(self):
        self.collect_module_names()
        for n in ast.walk(self.tree):
            if isinstance(n, ast.ClassDef):
                for st in n.body:
                    if isinstance(st, (ast.Assign, ast.AnnAssign)) and st.value is not None and value_kind(st.value):
                        for t in (st.targets if isinstance(st, ast.Assign) else [st.target]):
                            if isinstance(t, ast.Name):
                                self.class_containers.setdefault(n.name, set()).add(t.id)
        top = Scope('module', self.m, None)
        self.visit_body(self.tree.body, top)

    def visit_body(self, body, scope):
        for st in body:
            self.visit_stmt(st, scope)

    def visit_stmt(self, st, scope):
        if isinstance(st, ast.ClassDef):
            self.decorators(st, scope)
            cs = Scope('class', st.name, scope, st)
            if not self.res:
                self.class_body(st, cs)
            self.visit_body(st.body, cs)
            return
        if isinstance(st, (ast.FunctionDef, ast.AsyncFunctionDef)):
            self.decorators(st, scope)
            fs = Scope('function', st.name, scope, st)
            self.prepare_function(st, fs)
            self.visit_body(st.body, fs)
            return
        # `if reference is None: reference = datetime.now()`: the clock is read only when the caller gave no reference
        guarded = None
        if isinstance(st, ast.If) and isinstance(st.test, ast.Compare) and isinstance(st.test.left, ast.Name) \
                and len(st.test.ops) == 1 and isinstance(st.test.ops[0], ast.Is) \
                and isinstance(st.test.comparators[0], ast.Constant) and st.test.comparators[0].value is None:
            guarded = st.test.left.id
        elif isinstance(st, ast.If) and isinstance(st.test, ast.UnaryOp) and isinstance(st.test.op, ast.Not) \
                and isinstance(st.test.operand, ast.Name):
            guarded = st.test.operand.id        # `if not reference:` (a datetime is never falsy)
        if guarded is not None and len(st.body) == 1 and not st.orelse and isinstance(st.body[0], ast.Assign) \
                and len(st.body[0].targets) == 1 and isinstance(st.body[0].targets[0], ast.Name) \
                and st.body[0].targets[0].id == guarded and isinstance(st.body[0].value, ast.Call) \
                and not st.body[0].value.args and not st.body[0].value.keywords \
                and chain(st.body[0].value.func)[0] in ('datetime.now', 'datetime.datetime.now') \
                and scope.kind == 'function' and guarded in scope.params:
            self.add('settings', scope.qual(), 'default-when-none', '%s=%s' % (guarded, chain(st.body[0].value.func)[0]))
            return
        # nested statements with bodies
        self.effects(st, scope)
        for field in ('body', 'orelse', 'finalbody'):
            sub = getattr(st, field, None)
            if isinstance(sub, list) and sub and isinstance(sub[0], ast.stmt):
                self.visit_body(sub, scope)
        for h in getattr(st, 'handlers', []) or []:
            self.visit_body(h.body, scope)
        if isinstance(st, ast.Match):
            for c in st.cases:
                self.visit_body(c.body, scope)

    # ---- (a)
    def class_body(self, cd, cs):
        for st in cd.body:
            if isinstance(st, (ast.Assign, ast.AnnAssign)) and st.value is not None:
                k = value_kind(st.value)
                if k is None:
                    continue
                tg = st.targets if isinstance(st, ast.Assign) else [st.target]
                for t in tg:
                    if isinstance(t, ast.Name):
                        self.add('classState', cs.qual(), k, t.id)
                        self.class_containers.setdefault(cd.name, set()).add(t.id)

    # ---- (c)
    def decorators(self, node, scope):
        q = (scope.qual() + '.' if scope.kind != 'module' else '') + node.name
        for d in node.decorator_list:
            f = d.func if isinstance(d, ast.Call) else d
            text = chain(f)[0] or ast.dump(f)[:40]
            if text in BENIGN_DECORATORS or text.endswith('.setter') or text.endswith('.getter') or text.endswith('.deleter'):
                continue
            self.add('memo', q, 'decorator', '@' + text)

    def prepare_function(self, fd, fs):
        a = fd.args
        params = [x.arg for x in a.posonlyargs + a.args + a.kwonlyargs]
        if a.vararg:
            params.append(a.vararg.arg)
        if a.kwarg:
            params.append(a.kwarg.arg)
        fs.params = params
        # mutable default arguments
        pos = a.posonlyargs + a.args
        for arg, dv in list(zip(pos[len(pos) - len(a.defaults):], a.defaults)) + \
                [(x, d) for x, d in zip(a.kwonlyargs, a.kw_defaults) if d is not None]:
            k = value_kind(dv)
            if k is not None:
                self.add('memo', fs.qual(), 'mutable-default:' + k, arg.arg)
        # declarations, locals, aliases (flow-insensitive), excluding nested defs
        own = []

        def collect(nodes):
            for n in nodes:
                if isinstance(n, (ast.FunctionDef, ast.AsyncFunctionDef, ast.ClassDef, ast.Lambda)):
                    if not isinstance(n, ast.Lambda):
                        fs.locals.add(n.name)
                    continue
                own.append(n)
                collect(ast.iter_child_nodes(n))
        collect(fd.body)
        for n in own:
            if isinstance(n, ast.Global):
                fs.globals.update(n.names)
            elif isinstance(n, ast.Nonlocal):
                fs.nonlocals.update(n.names)
            elif isinstance(n, ast.Name) and isinstance(n.ctx, (ast.Store, ast.Del)):
                fs.locals.add(n.id)
            elif isinstance(n, ast.ExceptHandler) and n.name:
                fs.locals.add(n.name)
            elif isinstance(n, ast.alias):
                fs.locals.add((n.asname or n.name).split('.')[0])
        fs.locals -= fs.globals
        fs.locals -= fs.nonlocals
        is_method = fs.parent.kind == 'class' and params and not any(
            (chain(d)[0] == 'staticmethod') for d in fd.decorator_list)
        fs.selfname = params[0] if is_method else None
        is_cls = any(chain(d)[0] == 'classmethod' for d in fd.decorator_list)
        fs.is_cls = is_cls
        fs.is_setter = any((chain(d)[0] or '').endswith('.setter') for d in fd.decorator_list)
        # one-step aliases, iterated to a fixed point: x = <rooted chain>, for x in <rooted chain>, with .. as x
        changed = True
        rounds = 0
        while changed and rounds < 5:
            changed = False
            rounds += 1
            for n in own:
                pairs = []
                if isinstance(n, ast.Assign) and len(n.targets) == 1:
                    pairs.append((n.targets[0], n.value))
                elif isinstance(n, ast.AnnAssign) and n.value is not None:
                    pairs.append((n.target, n.value))
                elif isinstance(n, (ast.For, ast.AsyncFor)):
                    it = n.iter
                    if isinstance(it, ast.Call) and last_name(it.func) in ('enumerate', 'reversed', 'sorted', 'list', 'zip', 'iter') \
                            and it.args:
                        for a_ in it.args:
                            pairs.append((n.target, a_))
                    else:
                        pairs.append((n.target, it))
                elif isinstance(n, ast.comprehension):
                    pairs.append((n.target, n.iter))
                elif isinstance(n, ast.NamedExpr):
                    pairs.append((n.target, n.value))
                for tgt, val in pairs:
                    src = val
                    if isinstance(src, ast.Call) and isinstance(src.func, ast.Attribute) and src.func.attr in (
                            'get', 'values', 'items', 'keys', 'setdefault', 'pop', 'copy') and src.func.attr != 'copy':
                        src = src.func.value            # x = self.memo.get(k): x lives inside self.memo
                    text, root = chain(src)
                    if root is None or '()' in (text or ''):
                        continue
                    cat = self.root_category(root, fs)
                    if cat is None or cat[0] not in ('self', 'arg', 'class', 'modvar', 'closure'):
                        continue
                    for t in target_names(tgt):
                        if t not in fs.alias and t not in params:
                            fs.alias[t] = (cat, text)
                            changed = True

    def root_category(self, root, scope, follow_alias=True):
        """-> (category, detail) of a root Name as seen from `scope` (a function scope or the module scope)"""
        if scope.kind == 'function':
            if follow_alias and root in scope.alias:
                cat, text = scope.alias[root]
                return (cat[0], cat[1], text)
            if root == scope.selfname:
                return ('class', root, None) if scope.is_cls or scope.name == '__init_subclass__' else ('self', root, None)
            if root in scope.params:
                return ('arg', root, None)
            if root in scope.globals:
                return ('modvar', root, None)
            if root in scope.nonlocals:
                return ('closure', root, None)
            if root in scope.locals:
                return ('local', root, None)
            # free variable: enclosing function local, else module-level
            enc = scope.enclosing_function()
            while enc is not None:
                if root in enc.locals or root in enc.params:
                    return ('closure', root, None)
                enc = enc.enclosing_function()
        if root in self.mod_names:
            k = self.mod_names[root]
            if k == 'class':
                return ('class', root, None)
            if k == 'import':
                return ('import', root, None)
            if k == 'func':
                return ('modvar', root, None)
            return ('modvar', root, None)
        return None

    # ---- effects of one (simple or compound-header) statement
    def effects(self, st, scope):
        # the statement's own expressions, not nested statement bodies / nested defs
        def own_nodes(n, top=True):
            yield n
            for field, val in ast.iter_fields(n):
                if top and field in ('body', 'orelse', 'finalbody', 'handlers', 'cases') and isinstance(n, ast.stmt):
                    continue
                vals = val if isinstance(val, list) else [val]
                for c in vals:
                    if isinstance(c, ast.AST) and not isinstance(c, (ast.FunctionDef, ast.AsyncFunctionDef, ast.ClassDef)):
                        yield from own_nodes(c, False)
        fn = scope if scope.kind == 'function' else None
        where = scope.qual()
        in_ctor = fn is not None and fn.name in CONSTRUCTORS
        if isinstance(st, ast.Global) and fn is not None:
            for nm in st.names:
                self.add('moduleState', where, 'global', nm)
                self.writers.add(fn.name)
        if isinstance(st, ast.Nonlocal) and fn is not None:
            for nm in st.names:
                self.add('memo', where, 'nonlocal', nm)
        stores = []     # (target node, kind)
        if isinstance(st, ast.Assign):
            stores += [(t, 'store') for t in st.targets]
        elif isinstance(st, ast.AnnAssign) and st.value is not None:
            stores.append((st.target, 'store'))
        elif isinstance(st, ast.AugAssign):
            stores.append((st.target, 'aug'))
        elif isinstance(st, ast.Delete):
            stores += [(t, 'del') for t in st.targets]
        elif isinstance(st, (ast.For, ast.AsyncFor)):
            stores.append((st.target, 'store'))
        elif isinstance(st, (ast.With, ast.AsyncWith)):
            stores += [(i.optional_vars, 'store') for i in st.items if i.optional_vars is not None]
        flat = []
        for t, k in stores:
            if isinstance(t, (ast.Tuple, ast.List)):
                flat += [(e, k) for e in ast.walk(t) if isinstance(e, (ast.Name, ast.Attribute, ast.Subscript))
                         and isinstance(getattr(e, 'ctx', None), (ast.Store, ast.Del))]
            else:
                flat.append((t, k))
        for t, k in flat:
            if isinstance(t, ast.Name):
                if fn is not None and t.id in fn.globals:
                    self.add('moduleState', where, k + ':global', t.id)
                    self.writers.add(fn.name)
                elif fn is not None and t.id in fn.nonlocals:
                    self.add('memo', where, k + ':closure', t.id)
                continue
            text, root = chain(t)
            if root is None:
                continue
            self.classify(scope, fn, where, in_ctor, root, text, k)
        for n in own_nodes(st):
            if isinstance(n, ast.Call):
                name = last_name(n.func)
                if isinstance(n.func, ast.Attribute) and n.func.attr in MUTATORS:
                    text, root = chain(n.func.value)
                    if root is not None and '()' not in text:
                        self.classify(scope, fn, where, in_ctor, root, text, 'call:' + n.func.attr)
                if isinstance(n.func, ast.Name) and name == 'next' and n.args:
                    text, root = chain(n.args[0])
                    if root is not None and '()' not in text:
                        self.classify(scope, fn, where, in_ctor, root, text, 'call:next')
                if name in SETTINGS_CALLS:
                    ftext = chain(n.func)[0] or name
                    # `x.random()` style false friends: only bare names / module-qualified names
                    if ftext.count('.') <= 1 and not ftext.startswith('self.'):
                        self.add('settings', where, 'call', ftext)
                if name in MEMO_NAMES and not (isinstance(n.func, ast.Attribute) and chain(n.func)[1] in ('self',)):
                    self.add('memo', where, 'use', chain(n.func)[0] or name)
            elif isinstance(n, ast.Attribute) and n.attr in SETTINGS_ATTRS:
                text, root = chain(n)
                if root in ('os', 'sys', 'decimal', 'locale') or n.attr == '__dict__' or (
                        n.attr in ('prec', 'rounding', 'Emax', 'Emin', 'traps', 'flags') and isinstance(n.ctx, ast.Store)):
                    self.add('settings', where, 'attr', text or n.attr)
        if isinstance(st, (ast.Import, ast.ImportFrom)):
            for a in st.names:
                if a.name.split('.')[-1] in MEMO_NAMES and (getattr(st, 'module', None) or '').split('.')[0] in (
                        'functools', 'cachetools', 'cached_property', 'methodtools', ''):
                    self.add('memo', where, 'import', (getattr(st, 'module', None) or '') + '.' + a.name)
                if a.name.split('.')[0] in ('functools', 'cachetools', 'methodtools') and isinstance(st, ast.Import):
                    self.add('memo', where, 'import', a.name)
                if (getattr(st, 'module', None) or a.name).split('.')[0] in ('random', 'locale', 'threading', 'multiprocessing',
                                                                               'contextvars', 'atexit', 'signal', 'gc', 'weakref',
                                                                               'pickle', 'shelve', 'tempfile', 'sqlite3', 'socket'):
                    self.add('settings', where, 'import', ((getattr(st, 'module', None) or '') + '.' + a.name).lstrip('.'))

    def classify(self, scope, fn, where, in_ctor, root, text, kind):
        cat = self.root_category(root, scope)
        if cat is None:
            return
        c, detail, via = cat
        if via is not None:
            # alias: rewrite `x.attr` to `<what x stands for>~.attr`
            text = via + '~' + text[len(root):]
            root = detail
        if c == 'self':
            first = text[len(root) + 1:].split('.')[0].split('[')[0].split('~')[0] if text.startswith(root + '.') else ''
            cls = scope.enclosing_class() if scope.kind == 'function' else None
            if text.startswith(root + '.__class__') or (cls is not None and first in self.class_containers.get(cls.name, ())):
                # `self.table[k] = v` where `table` is bound in the class body: ONE object for every instance
                self.add('classWrites', where, kind, text)
                self.writers.add(fn.name)
            elif not in_ctor and not (fn is not None and fn.is_setter and kind == 'store' and text.count('.') == 1
                                      and '[' not in text):
                # a property setter's plain `self._x = value` is state only through its CALLER's `obj.x = ..` (listed there)
                self.add('selfMut', where, kind, text)
        elif c == 'arg':
            self.add('argMut', where, kind, text)
        elif c == 'class':
            if text == root:
                return
            self.add('classWrites', where, kind, text)
            if fn is not None:
                self.writers.add(fn.name)
        elif c == 'modvar':
            if fn is None and text == root:
                return
            if fn is None:
                # module-level code mutating a module-level container while the module is imported: construction
                return
            self.add('moduleState', where, kind, text)
            self.writers.add(fn.name)
        elif c == 'import':
            if text != root and kind in ('store', 'aug', 'del') and fn is not None:
                self.add('moduleState', where, kind + ':module-attribute', text)
        elif c == 'closure':
            self.add('memo', where, kind + ':closure', text)


def inventory(repo=None):
    """-> {table: sorted list of row strings}"""
    rows = {}
    invs = []
    for modname, path, is_res in tree_modules(repo):
        with open(path, encoding='utf-8') as f:
            src = f.read()
        tree = ast.parse(src, filename=path)
        inv = ModuleInventory(modname, tree, is_res, rows)
        inv.run()
        invs.append(inv)
    # callers-by-name of the functions that write class-level / module-level state (one level, whole tree)
    writers = set()
    for inv in invs:
        writers |= {w for w in inv.writers if w not in CONSTRUCTORS}
    if writers:
        for inv in invs:
            for scope_qual, name in calls_by_name(inv.tree, writers):
                key = ('classWrites', '%s:%s calls %s' % (inv.m, scope_qual, name))
                rows[key] = rows.get(key, 0) + 1
    out = {t: [] for t in TABLES}
    for (table, text), n in rows.items():
        out[table].append(text + (' x%d' % n if n > 1 else ''))
    for t in out:
        out[t].sort()
    return out


def calls_by_name(tree, names):
    res = []

    def walk(node, qual):
        for ch in ast.iter_child_nodes(node):
            if isinstance(ch, (ast.FunctionDef, ast.AsyncFunctionDef, ast.ClassDef)):
                walk(ch, qual + [ch.name])
            else:
                if isinstance(ch, ast.Call):
                    nm = last_name(ch.func)
                    if nm in names:
                        res.append(('.'.join(qual) or '<module>', nm))
                walk(ch, qual)
    walk(tree, [])
    return res


def row_cps(s):
    return '[' + ', '.join(str(ord(c)) for c in s) + ']'


def generate():
    inv = inventory()
    text = HEADER % ('hiddenstate', 'an ast walk over every module of the seven libraries of the working tree')
    text += 'set_option maxRecDepth 1000000\nnamespace RTV.Gen.HiddenState\n\n'
    doc = {'classState': '(a) class-level attributes bound to mutable containers / constructed objects',
           'classWrites': "(a') writers of class-level state and their callers by name",
           'moduleState': '(b) module-level names mutated by functions, module attributes rebound from functions',
           'memo': '(c) decorators outside the benign set, memoiser imports / uses, mutable defaults, closure state',
           'selfMut': '(d1) instance state written outside __init__',
           'argMut': '(d2) in-place mutation of arguments',
           'settings': '(e) process- / thread-global settings and reflective escape hatches'}
    for t in TABLES:
        text += '/-- %s; one row = `<module>:<qualified name> <kind> <target>[ xN]` -/\n' % doc[t]
        text += 'def %s : List (List Nat) := %s\n\n' % (t, lean_list(['-- %s\n  %s' % (r, row_cps(r)) for r in inv[t]],
                                                                      per_line=1))
    text += 'end RTV.Gen.HiddenState\n'
    return [(os.path.join(GEN, 'HiddenState.lean'), text)]


if __name__ == '__main__':
    # maintenance helpers:  python -m translate.hiddenstate entry '<row text>' <cover> '<why>'   -> allow-list entry text
    #                       python -m translate.hiddenstate dump [repo]                         -> the tables as text
    import sys
    if len(sys.argv) >= 4 and sys.argv[1] == 'entry':
        why = sys.argv[4] if len(sys.argv) > 4 else 'TODO'
        print('  -- %s\n  --   why: %s\n  ⟨%s, .%s⟩,' % (sys.argv[2], why, row_cps(sys.argv[2]), sys.argv[3]))
    else:
        inv_ = inventory(sys.argv[2] if len(sys.argv) > 2 else None)
        for t_ in TABLES:
            print('== %s (%d)' % (t_, len(inv_[t_])))
            for r_ in inv_[t_]:
                print(r_)
