"""BaseURL.TldList of the working tree -> RTV/Gen/Tlds.lean (code-point lists)."""
import os

from lib.common import GEN
from .leanfmt import HEADER, lean_list
from .regexes import load_class, _res


def tld_list():
    return list(load_class(_res('recognizers-sequence', 'recognizers_sequence', 'base_url.py'), 'BaseURL').TldList)


def generate():
    tl = tld_list()
    text = HEADER % ('tlds', 'recognizers_sequence/resources/base_url.py BaseURL.TldList')
    text += 'set_option maxRecDepth 1000000\nnamespace RTV.Gen\n\n/-- `BaseURL.TldList`, in source order -/\n'
    text += 'def tldList : List (List Nat) := ' + lean_list(
        ['[' + ', '.join(str(ord(c)) for c in t) + ']' for t in tl], per_line=4) + '\n\nend RTV.Gen\n'
    return [(os.path.join(GEN, 'Tlds.lean'), text)]
