"""Number-extractor regexes (C03, the extraction front end for digit literals).

For each of the seven number extractors behind the eight BaseNumberParser cultures (es-es and es-mx share the Spanish
extractor) and for the two modes that matter (NumberMode.DEFAULT, and NumberMode.PURE_NUMBER = what NumberRecognizer
builds) the REAL extractor object of the working tree is constructed and its `regexes` list is read: pattern text and
flags of every entry (a few entries are plain strings: `regex.finditer(str, …)` then compiles them without flags).

The DIGIT FAMILY of a list = the entries tagged `IntegerNum` / `DoubleNum` whose consuming part (everything outside
look-around assertions) is built from `\\d`, `\\s` and punctuation only (sign, grouping and decimal marks): the regexes made
from NumbersWithPlaceHolder, `_generate_format_regex(LongFormatType…)` = BaseNumbers.IntegerRegexDefinition /
DoubleRegexDefinition, DoubleDecimalPointRegex, DoubleWithoutIntegralRegex.  They are translated to the `RE` AST of
RTV/Model/Re.lean with harness/translate/regexes.py (`\\p{L}` is expanded to the ranges the running `regex` module
accepts).  Every other entry is listed with its tag and the reason it is outside the family (`consumes letters`,
`tag`) or `unsupported` + reason, and counted.  Also translated: `_negative_number_terms` and the
`ambiguity_filters_dict` pairs (small word regexes) so that the model runs the whole of `extract`.

RTV/Gen/NumRegex<Lang>.lean (namespace RTV.Gen.NumRegex), RTV/Gen/NumRegexIndex.lean."""
import os

import regex

from lib import common
from lib.common import GEN
from . import regexes as R
from .leanfmt import HEADER

LANGS = [('en', 'english', 'English'), ('es', 'spanish', 'Spanish'), ('fr', 'french', 'French'),
         ('pt', 'portuguese', 'Portuguese'), ('de', 'german', 'German'), ('it', 'italian', 'Italian'),
         ('nl', 'dutch', 'Dutch')]
MODES = [('Default', 'DEFAULT'), ('Pure', 'PURE_NUMBER')]
# culture -> (extractor language, grouping mark, decimal mark): the long-format table of recognizers_number/culture.py
CULTURES = [('en-us', 'en', ',', '.'), ('es-es', 'es', '.', ','), ('es-mx', 'es', ',', '.'), ('fr-fr', 'fr', '.', ','),
            ('pt-br', 'pt', '.', ','), ('de-de', 'de', '.', ','), ('it-it', 'it', '.', ','), ('nl-nl', 'nl', '.', ',')]
DIGIT_TAGS = ('IntegerNum', 'DoubleNum')
PUA = '\ue000'          # stands for \p{L} while CPython's parser reads the pattern

_letters = None


def letter_ranges():
    """`\\p{L}` as the running regex module sees it (under IGNORECASE, the flag of the patterns that use it)."""
    global _letters
    if _letters is None:
        allc = ''.join(chr(c) for c in range(R.MAXCP) if not 0xD800 <= c <= 0xDFFF)
        _letters = R.merge_ranges(ord(x) for x in regex.findall(r'(?i)\p{L}', allc))
    return _letters


def _subst(n):
    """replace the placeholder class by the letter ranges"""
    k = n[0]
    if k == 'cls':
        if any(it[0] == 'range' and it[1] <= 0xE000 <= it[2] for it in n[1]):
            if n[2] or len(n[1]) != 1 or n[1][0] != ('range', 0xE000, 0xE000):
                raise R.Unsupported('\\p{L} inside a character class')
            return ('cls', [('range', a, b) for a, b in letter_ranges()], False)
        return n
    if k in ('seq', 'alt'):
        return (k, [_subst(x) for x in n[1]])
    if k == 'rep':
        return ('rep', _subst(n[1]), n[2], n[3], n[4])
    if k == 'grp':
        return ('grp', n[1], _subst(n[2]))
    if k == 'look':
        return ('look', n[1], n[2], _subst(n[3]))
    return n


def parse(pattern, flags):
    text = pattern
    if '\\p{' in text or '\\P{' in text:
        text = text.replace('\\p{L}', PUA)
        if '\\p{' in text or '\\P{' in text:
            raise R.Unsupported('Unicode property other than \\p{L}')
    if PUA in pattern:
        raise R.Unsupported('pattern uses U+E000')
    return _subst(R.parse(text, flags))


def consuming_reason(n):
    """None when everything the regex can consume is a digit, white space or punctuation; else the reason."""
    k = n[0]
    if k == 'cls':
        if n[2]:
            return 'consumes a negated class'
        for it in n[1]:
            if it[0] == 'cat':
                if it[1] not in ('digit', 'space'):
                    return 'consumes \\%s' % it[1]
            else:
                if it[2] - it[1] > 64:
                    return 'consumes a wide range'
                if any(chr(c).isalnum() for c in range(it[1], it[2] + 1)):
                    return 'consumes letters'
        return None
    if k in ('seq', 'alt'):
        for x in n[1]:
            r = consuming_reason(x)
            if r:
                return r
        return None
    if k == 'rep':
        return consuming_reason(n[1])
    if k == 'grp':
        return consuming_reason(n[2])
    return None


def pattern_of(obj):
    """(pattern text, flags as finditer will use them) of a ReVal.re entry (compiled pattern or plain string)"""
    if hasattr(obj, 'pattern'):
        return obj.pattern, obj.flags & (regex.I | regex.S)
    return str(obj), 0


_collected = {}


def collect():
    """-> {lang: {mode: {'entries': [...], 'neg': (pat, flags)|None, 'amb': [((pat, flags), (pat, flags))]}}}"""
    key = os.path.realpath(common.REPO)
    if key in _collected:
        return _collected[key]
    common.setup_repo_imports()
    import importlib
    import recognizers_number
    from recognizers_number.number.models import NumberMode
    common.assert_tree_modules(recognizers_number)
    out = {}
    for lang, mod, cls in LANGS:
        M = importlib.import_module('recognizers_number.number.%s.extractors' % mod)
        common.assert_tree_modules(M)
        K = getattr(M, cls + 'NumberExtractor')
        out[lang] = {}
        for mname, mattr in MODES:
            ex = K(getattr(NumberMode, mattr))
            entries = []
            for idx, rv in enumerate(ex.regexes):
                pat, flags = pattern_of(rv.re)
                entries.append({'idx': idx, 'tag': rv.val, 'pattern': pat, 'flags': flags})
            neg = getattr(ex, '_negative_number_terms', None)
            amb = []
            for item in (ex.ambiguity_filters_dict or []):
                amb.append((pattern_of(item.reKey), pattern_of(item.reVal)))
            out[lang][mname] = {'entries': entries, 'neg': pattern_of(neg) if neg is not None else None, 'amb': amb,
                                'cls': type(ex).__name__}
    _collected[key] = out
    return out


def classified():
    """collect() + per entry: 'ast' (family members), or 'outside' = reason"""
    data = collect()
    for lang in data:
        for mode in data[lang]:
            d = data[lang][mode]
            for e in d['entries']:
                if 'ast' in e or 'outside' in e:
                    continue
                if e['tag'] not in DIGIT_TAGS:
                    e['outside'] = 'tag'
                    continue
                try:
                    ast = parse(e['pattern'], e['flags'])
                except R.Unsupported as u:
                    e['outside'] = 'unsupported: %s' % u
                    continue
                why = consuming_reason(ast)
                if why:
                    e['outside'] = why
                else:
                    e['ast'] = ast
            if 'negAst' not in d:
                d['negAst'] = None
                d['ambAst'] = []
                d['aux_unsupported'] = []
                try:
                    if d['neg'] is not None:
                        d['negAst'] = parse(*d['neg'])
                    for (kp, kf), (vp, vf) in d['amb']:
                        d['ambAst'].append((parse(kp, kf), parse(vp, vf)))
                except R.Unsupported as u:
                    d['aux_unsupported'].append(str(u))
    return data


def _doc(s):
    return s.replace('-/', '- /').replace('/-', '/ -')


def finditer_guard(data):
    """Every regex the model hands to `RTV.Re.findAll` — the family members (`matchesOf`), `_negative_number_terms`
    (`negSpan`), the VALUE regexes of `ambiguity_filters_dict` (`ambMatches`; the keys are only searched) — must be
    `finditer_safe`: not able to match the empty string, or the empty pattern itself (the value `''` of the Spanish /
    French / Portuguese / Italian / Dutch filters).  See RTV/Lemmas/ReNullable.lean."""
    null = []
    for lang in data:
        for mode, d in data[lang].items():
            null += ['%s/%s regexes[%d]' % (lang, mode, e['idx']) for e in d['entries'] if 'ast' in e and R.nullable(e['ast'])]
            if d['negAst'] is not None and R.nullable(d['negAst']):
                null.append('%s/%s _negative_number_terms' % (lang, mode))
            null += ['%s/%s ambiguity value %d' % (lang, mode, i) for i, (_, v) in enumerate(d['ambAst'])
                     if not R.finditer_safe(v)]
    if null:
        raise ValueError(R.NULLABLE_MSG % ('numregex', ', '.join(null)))


def generate():
    data = classified()
    finditer_guard(data)
    src = "the number extractor objects of the working tree (regex %s)" % regex.__version__
    files = []
    index_rows = []
    for lang, mod, cls in LANGS:
        t = HEADER % ('numregex', src)
        t += 'import RTV.Model.Re\nset_option maxRecDepth 1000000\nnamespace RTV.Gen.NumRegex\nopen RTV.Re\n\n'
        for mname, _ in MODES:
            d = data[lang][mname]
            fam, outside = [], []
            for e in d['entries']:
                if 'ast' in e:
                    name = '%s%s_r%d' % (lang, mname, e['idx'])
                    t += '/-- %s.regexes[%d] (%s), flags %d\n    pattern: %s -/\ndef %s : RE :=\n%s\n\n' % (
                        d['cls'], e['idx'], e['tag'], e['flags'], _doc(e['pattern']), name, R.wrap(R.lean_re(e['ast'])))
                    fam.append((e['idx'], e['tag'], name))
                else:
                    outside.append((e['idx'], e['tag'], e['outside']))
            t += '/-- the digit family of %s(NumberMode.%s): (index in `regexes`, regex), in list order -/\n' % (d['cls'], mname)
            t += 'def %s%s : List (Nat × RE) := [%s]\n\n' % (lang, mname, ', '.join('(%d, %s)' % (i, n) for i, _, n in fam))
            t += '/-- `ReVal.val` of every entry of the list (all entries, in order) -/\n'
            t += 'def %s%sTags : List String := [%s]\n\n' % (lang, mname, ', '.join('"%s"' % e['tag'] for e in d['entries']))
            t += '/-- entries outside the digit family: (index, tag, reason) -/\n'
            t += 'def %s%sOutside : List (Nat × String × String) := [%s]\n\n' % (
                lang, mname, ', '.join('(%d, "%s", "%s")' % (i, tg, why.replace('\\', '\\\\').replace('"', "'")) for i, tg, why in outside))
            if d['negAst'] is not None:
                t += '/-- _negative_number_terms: %s -/\ndef %s%sNeg : Option RE := some (\n%s)\n\n' % (
                    _doc(d['neg'][0]), lang, mname, R.wrap(R.lean_re(d['negAst'])))
            else:
                t += 'def %s%sNeg : Option RE := none\n\n' % (lang, mname)
            t += '/-- ambiguity_filters_dict: (key regex, value regex) -/\ndef %s%sAmb : List (RE × RE) := [%s]\n\n' % (
                lang, mname, ',\n'.join('(\n%s,\n%s)' % (R.wrap(R.lean_re(k)), R.wrap(R.lean_re(v))) for k, v in d['ambAst']))
            index_rows.append((lang, mname))
        t += 'end RTV.Gen.NumRegex\n'
        files.append((os.path.join(GEN, 'NumRegex%s.lean' % lang.capitalize()), t))
    idx = HEADER % ('numregex', src)
    idx += 'import RTV.Model.NumExtract\n' + ''.join('import RTV.Gen.NumRegex%s\n' % l.capitalize() for l, _, _ in LANGS)
    idx += 'namespace RTV.Gen.NumRegex\nopen RTV.Re RTV.NumExtract\n\n'
    for lang, mname in index_rows:
        idx += 'def %s%sExt : Ext := ⟨%s%s, %s%sTags, %s%sNeg, %s%sAmb⟩\n' % ((lang, mname) * 5)
    idx += '\ndef allExt : List (String × Ext) := [\n' + ',\n'.join(
        '  ("%s/%s", %s%sExt)' % (lang, mname, lang, mname) for lang, mname in index_rows) + ']\n\n'
    idx += ('/-- Every regex `RTV.NumExtract` hands to `RTV.Re.findAll` (family members, `_negative_number_terms`, the value\n'
            'regexes of `ambiguity_filters_dict`) cannot match the empty string, or is the empty pattern: on each of them\n'
            '`findAll` is the `finditer` of `regex` (`findAll_eq_findAllPy`, RTV/Lemmas/ReNullable.lean). -/\n'
            'theorem allExt_finditer_safe : (allExt.all fun e => e.2.fam.all (fun p => !nullable p.2) &&\n'
            '    (match e.2.neg with | some r => !nullable r | none => true) &&\n'
            '    e.2.amb.all (fun kv => !nullable kv.2 || decide (kv.2 = RE.eps))) = true := by decide +kernel\n\n')
    idx += '/-- culture -> (extractor language, grouping mark, decimal mark) -/\n'
    idx += 'def cultures : List (String × String × Nat × Nat) := [\n' + ',\n'.join(
        '  ("%s", "%s", %d, %d)' % (c, l, ord(g), ord(dm)) for c, l, g, dm in CULTURES) + ']\n\n'
    idx += 'end RTV.Gen.NumRegex\n'
    files.append((os.path.join(GEN, 'NumRegexIndex.lean'), idx))
    return files
