"""Number-parser data of every culture with a number model, read from the *actual parser configuration objects*
of the working tree (NumberRecognizer(code).get_number_model(code).parser.config), not from the resource text:
CardinalNumberMap / OrdinalNumberMap / RoundNumberMap as the parser sees them (Spanish builds its ordinal map at
construction time), the separator configuration used by `_get_digital_value`, the long-format table of
`recognizers_number/culture.py`, the LongFormatTypes the culture's extractor passes to `_generate_format_regex`,
the CJK character tables, and the Unicode digit values of the running interpreter (`str.isdigit` / `Decimal(c)`).

One module per culture: RTV/Gen/Num<Cc>.lean (namespace RTV.Gen.Num<Cc>), plus RTV/Gen/NumDigits.lean."""
import os
import sys
import unicodedata
from decimal import Decimal, InvalidOperation

from lib import common
from lib.common import GEN
from .leanfmt import lean_list, lean_str_cps, HEADER

CULTURES = [('en-us', 'En'), ('es-es', 'Es'), ('es-mx', 'EsMx'), ('fr-fr', 'Fr'), ('pt-br', 'Pt'), ('de-de', 'De'),
            ('it-it', 'It'), ('nl-nl', 'Nl'), ('zh-cn', 'Zh'), ('ja-jp', 'Ja')]


def _cps(s):
    return lean_str_cps(s)


def _map(d, skipped, what):
    rows = []
    for k, v in d.items():
        if isinstance(v, bool) or not isinstance(v, int) or v < 0:
            skipped.append('%s[%r] = %r' % (what, k, v))
            continue
        rows.append('(%s, %d)' % (_cps(k), v))
    return lean_list(rows, per_line=4)


def _b(x):
    return 'true' if x else 'false'


def _opt_cp(c):
    return 'none' if c is None else 'some %d' % ord(c)


def collect():
    """-> {code: dict of plain python data}. Also used by the correspondence checks."""
    common.setup_repo_imports()
    import recognizers_number
    from recognizers_number.number import extractors as base_extractors
    from recognizers_number.number.number_recognizer import NumberRecognizer
    from recognizers_number.culture import SUPPORTED_CULTURES
    common.assert_tree_modules(recognizers_number)
    out = {}
    for code, _ in CULTURES:
        rec = NumberRecognizer(code)
        nm = rec.get_number_model(code, False)
        om = rec.get_ordinal_model(code, False)
        pm = rec.get_percentage_model(code, False)
        cfg = nm.parser.config
        d = {'code': code}
        d['decSep'] = cfg.decimal_separator_char
        d['nonDecSep'] = cfg.non_decimal_separator_char
        d['multiDec'] = bool(getattr(cfg, 'is_multi_decimal_separator_culture', False))
        d['nonStdVariant'] = bool(nm.parser.is_non_standard_separator_variant)
        lf = SUPPORTED_CULTURES.get(cfg.culture_info.code)
        d['longFormat'] = (lf.decimals_mark, lf.thousands_mark) if lf else None
        d['cultureInfoCode'] = cfg.culture_info.code
        d['cardinal'] = dict(cfg.cardinal_number_map)
        d['ordinal'] = dict(cfg.ordinal_number_map)
        d['round'] = dict(cfg.round_number_map)
        d['wordSep'] = cfg.word_separator_token or ''
        d['writtenIntSep'] = list(cfg.written_integer_separator_texts or [])
        d['writtenDecSep'] = [x for x in (cfg.written_decimal_separator_texts or []) if x is not None]
        d['halfADozenText'] = getattr(cfg, 'half_a_dozen_text', '') or ''
        # the three models of a culture must be configured with the same data
        for other in (om, pm):
            oc = other.parser.config
            same = (oc.decimal_separator_char == d['decSep'] and oc.non_decimal_separator_char == d['nonDecSep']
                    and dict(oc.cardinal_number_map) == d['cardinal'] and dict(oc.ordinal_number_map) == d['ordinal']
                    and dict(oc.round_number_map) == d['round']
                    and bool(other.parser.is_non_standard_separator_variant) == d['nonStdVariant'])
            if not same:
                raise ValueError('%s: number / ordinal / percentage parsers are configured differently' % code)
        # which LongFormatTypes does the culture's extractor instantiate? (fresh extractor, recorded calls)
        formats = []
        orig = base_extractors.BaseNumberExtractor._generate_format_regex

        def rec_fmt(self, format_type, placeholder=None, _f=formats, _o=orig):
            t = (format_type.thousands_mark, format_type.decimals_mark)
            if t not in _f:
                _f.append(t)
            return _o(self, format_type, placeholder)
        base_extractors.BaseNumberExtractor._generate_format_regex = rec_fmt
        try:
            # same constructor call as number_recognizer.py (a fresh object: the cached model was built earlier)
            from recognizers_number.number.models import NumberMode
            try:
                type(nm.extractor)(NumberMode.PURE_NUMBER)
            except (TypeError, AttributeError, KeyError):
                type(nm.extractor)()
        finally:
            base_extractors.BaseNumberExtractor._generate_format_regex = orig
        d['formats'] = formats
        if hasattr(cfg, 'zero_to_nine_map'):
            d['cjk'] = {
                'zeroToNine': dict(cfg.zero_to_nine_map),
                'roundChar': dict(cfg.round_number_map_char),
                'roundDirect': list(cfg.round_direct_list),
                'tenChars': list(cfg.ten_chars),
                'zeroChar': cfg.zero_char,
                'pairChar': cfg.pair_char,
                'unitMap': dict(cfg.unit_map),
                'fullToHalf': dict(cfg.full_to_half_map),
                'tradToSim': dict(cfg.trato_sim_map or {}),
            }
        out[code] = d
    return out


def digit_table():
    """(lo, hi, base): code points lo..hi are `str.isdigit()` and `Decimal(chr(c))` = c - base  (base = lo for
    a run of ten); runs with no Decimal value get base = none."""
    rows = []
    c = 0
    n = 0x110000
    while c < n:
        if 0xD800 <= c <= 0xDFFF or not chr(c).isdigit():
            c += 1
            continue
        try:
            v = int(Decimal(chr(c)))
        except (InvalidOperation, ValueError):
            v = None
        lo = c
        if v is None:
            while c + 1 < n and chr(c + 1).isdigit() and _dec(chr(c + 1)) is None:
                c += 1
            rows.append((lo, c, None))
        else:
            while c + 1 < n and chr(c + 1).isdigit() and _dec(chr(c + 1)) == v + (c + 1 - lo):
                c += 1
            rows.append((lo, c, lo - v))
        c += 1
    return rows


def _dec(ch):
    try:
        return int(Decimal(ch))
    except (InvalidOperation, ValueError):
        return None


def code_constants():
    common.setup_repo_imports()
    from recognizers_number.number.constants import Constants
    from recognizers_number.number.parsers import BaseNumberParser
    tup = Decimal(0.1).as_tuple()
    prec = None
    for cell in (BaseNumberParser._get_digital_value.__closure__ or ()):
        try:
            v = cell.cell_contents
        except ValueError:
            continue
        if isinstance(v, dict) and 'prec' in v:
            prec = v['prec']
    if prec is None:
        raise ValueError('_get_digital_value is no longer wrapped by @precision(prec=...)')
    return {'nbsp': ord(Constants.NO_BREAK_SPACE), 'p1c': int(''.join(map(str, tup.digits))), 'p1e': tup.exponent,
            'prec': int(prec)}


def generate():
    data = collect()
    files = []
    for code, suffix in CULTURES:
        d = data[code]
        skipped = []
        t = HEADER % ('nummaps', 'NumberRecognizer(%r) number/ordinal/percentage parser configuration' % code)
        t += 'set_option maxRecDepth 1000000\nnamespace RTV.Gen.Num%s\n\n' % suffix
        t += 'def code : List Nat := %s\n' % _cps(code)
        t += 'def cultureInfoCode : List Nat := %s\n' % _cps(d['cultureInfoCode'])
        t += 'def decSep : Nat := %d\n' % ord(d['decSep'])
        t += 'def nonDecSep : Nat := %d\n' % ord(d['nonDecSep'])
        t += 'def multiDec : Bool := %s\n' % _b(d['multiDec'])
        t += '/-- culture_info.code ∈ non_standard_separator_variants -/\n'
        t += 'def nonStdVariant : Bool := %s\n' % _b(d['nonStdVariant'])
        t += '/-- recognizers_number/culture.py SUPPORTED_CULTURES[code] as (decimals_mark, thousands_mark) -/\n'
        lf = d['longFormat']
        t += 'def longFormat : Option (Nat × Nat) := %s\n' % (
            'none' if lf is None else 'some (%d, %d)' % (ord(lf[0]), ord(lf[1])))
        t += '/-- LongFormatTypes (thousands_mark, decimals_mark) the extractor passes to _generate_format_regex -/\n'
        t += 'def formats : List (Nat × Option Nat) := %s\n' % lean_list(
            ['(%d, %s)' % (ord(a), _opt_cp(b)) for a, b in d['formats']], per_line=6)
        t += 'def wordSep : List Nat := %s\n' % _cps(d['wordSep'])
        t += 'def writtenIntSep : List (List Nat) := %s\n' % lean_list([_cps(x) for x in d['writtenIntSep']])
        t += 'def writtenDecSep : List (List Nat) := %s\n' % lean_list([_cps(x) for x in d['writtenDecSep']])
        t += 'def halfADozenText : List Nat := %s\n\n' % _cps(d['halfADozenText'])
        t += 'def cardinal : List (List Nat × Nat) := %s\n\n' % _map(d['cardinal'], skipped, 'cardinal')
        t += 'def ordinal : List (List Nat × Nat) := %s\n\n' % _map(d['ordinal'], skipped, 'ordinal')
        t += 'def round : List (List Nat × Nat) := %s\n\n' % _map(d['round'], skipped, 'round')
        if 'cjk' in d:
            k = d['cjk']
            t += '/-- zero_to_nine_map, integer-valued entries only (the others are listed at the end) -/\n'
            t += 'def zeroToNine : List (List Nat × Nat) := %s\n\n' % _map(k['zeroToNine'], skipped, 'zeroToNine')
            t += 'def roundChar : List (List Nat × Nat) := %s\n\n' % _map(k['roundChar'], skipped, 'roundChar')
            t += 'def roundDirect : List (List Nat) := %s\n' % lean_list([_cps(x) for x in k['roundDirect']])
            t += 'def tenChars : List (List Nat) := %s\n' % lean_list([_cps(x) for x in k['tenChars']])
            t += 'def zeroChar : List Nat := %s\n' % _cps(k['zeroChar'])
            t += 'def pairChar : List Nat := %s\n' % _cps(k['pairChar'])
            t += 'def unitMap : List (List Nat × List Nat) := %s\n' % lean_list(
                ['(%s, %s)' % (_cps(a), _cps(b)) for a, b in k['unitMap'].items()], per_line=4)
            t += 'def fullToHalf : List (List Nat × List Nat) := %s\n' % lean_list(
                ['(%s, %s)' % (_cps(a), _cps(b)) for a, b in k['fullToHalf'].items()], per_line=4)
            t += 'def tradToSim : List (List Nat × List Nat) := %s\n\n' % lean_list(
                ['(%s, %s)' % (_cps(a), _cps(b)) for a, b in k['tradToSim'].items()], per_line=4)
        if skipped:
            t += '/- entries left out (value is not a non-negative integer):\n' + '\n'.join(
                '   ' + s for s in skipped) + '\n-/\n'
        t += 'end RTV.Gen.Num%s\n' % suffix
        files.append((os.path.join(GEN, 'Num%s.lean' % suffix), t))
    rows = digit_table()
    t = HEADER % ('nummaps', 'CPython %s str.isdigit / decimal.Decimal(chr)' % sys.version.split()[0])
    t += 'namespace RTV.Gen.NumDigits\n\n'
    t += ('/-- (lo, hi, base): every code point c in lo..hi has `chr(c).isdigit()`; `Decimal(chr(c))` is c - base when\n'
          'base is `some`, and raises InvalidOperation when it is `none` (superscripts, circled digits ...). -/\n')
    t += 'def table : Array (Nat × Nat × Option Nat) := #%s\n\n' % lean_list(
        ['(%d, %d, %s)' % (a, b, 'none' if c is None else 'some %d' % c) for a, b, c in rows], per_line=4)
    # constants of the code that the model uses as literals: regenerated here and tied by `constants_regenerated`
    consts = code_constants()
    t += '/-- recognizers_number.number.constants.Constants.NO_BREAK_SPACE -/\n'
    t += 'def noBreakSpace : Nat := %d\n' % consts['nbsp']
    t += '/-- `Decimal(0.1).as_tuple()` of the running interpreter: coefficient and exponent -/\n'
    t += 'def pointOneCoeff : Nat := %d\ndef pointOneExp : Int := %d\n' % (consts['p1c'], consts['p1e'])
    t += '/-- the `prec` argument of the `@precision(...)` decorator on BaseNumberParser._get_digital_value -/\n'
    t += 'def digitalValuePrec : Nat := %d\n\n' % consts['prec']
    t += 'end RTV.Gen.NumDigits\n'
    files.append((os.path.join(GEN, 'NumDigits.lean'), t))
    return files
