"""L6 DtRes data, dumped from the working tree's date-time parser configuration objects (child processes, one per
culture, so the checking process's model cache is never touched):
  * per registered date-time culture: `date_parser.config.month_of_year`, `date_parser.config.day_of_month`
    (dict order kept) and — where the time parser has a configuration — `time_parser.config.numbers`
  * Constants: two-digit-year pivots, INVALID_*, the `ampm` comment, TIMEX prefix/connector, DateUtils.min_value
  * from the running interpreter: str.isnumeric ranges and the code points with decimal value 0 (every Unicode
    decimal digit is `zero + k`, asserted here), used by the model of `int(group)` / `\\d`.
Output: RTV/Gen/DtMaps.lean (constants, Unicode, English), DtMapsX1.lean / DtMapsX2.lean (other cultures)."""
import json
import os
import subprocess
import sys
import unicodedata

from lib import common
from lib.common import GEN
from .leanfmt import lean_list, lean_str_cps, HEADER

CULTURES = [('en-us', 'en'), ('es-es', 'es'), ('es-mx', 'esmx'), ('fr-fr', 'fr'), ('pt-br', 'pt'),
            ('it-it', 'it'), ('de-de', 'de'), ('nl-nl', 'nl'), ('zh-cn', 'zh')]

DUMP = r'''
import json, sys, warnings
warnings.simplefilter('ignore')
from multiprocessing import Pool

def one(cul):
    import recognizers_date_time
    from recognizers_date_time import DateTimeRecognizer
    rec = DateTimeRecognizer(lazy_initialization=False)
    model = rec.get_model('DateTimeModel', cul, False)
    cfg = model.parser.config
    dc = cfg.date_parser.config
    out = {'culture': cul, 'file': recognizers_date_time.__file__,
           'date_parser': type(cfg.date_parser).__name__,
           'moy': [[k, v] for k, v in dc.month_of_year.items()],
           'dom': [[k, v] for k, v in dc.day_of_month.items()],
           'numbers': None}
    if hasattr(cfg.time_parser, 'numbers_map'):
        out['zh_numbers_map'] = [[k, v] for k, v in cfg.time_parser.numbers_map.items()]
        out['zh_low_bound'] = [[k, v] for k, v in cfg.time_parser.low_bound_map.items()]
    tc = getattr(cfg.time_parser, 'config', None)
    if tc is not None and getattr(tc, 'numbers', None) is not None:
        out['numbers'] = [[k, v] for k, v in tc.numbers.items()]
    return out

def consts():
    from recognizers_date_time.date_time.constants import Constants
    from recognizers_date_time.date_time.utilities import DateUtils, DateTimeFormatUtil
    mv = DateUtils.min_value
    return {'MIN_TWO_DIGIT_YEAR_PAST_NUM': Constants.MIN_TWO_DIGIT_YEAR_PAST_NUM,
            'MAX_TWO_DIGIT_YEAR_FUTURE_NUM': Constants.MAX_TWO_DIGIT_YEAR_FUTURE_NUM,
            'INVALID_YEAR': Constants.INVALID_YEAR, 'INVALID_HOUR': Constants.INVALID_HOUR,
            'INVALID_MINUTE': Constants.INVALID_MINUTE, 'INVALID_SECOND': Constants.INVALID_SECOND,
            'AM_PM_GROUP_NAME': Constants.AM_PM_GROUP_NAME, 'COMMENT_AMPM': Constants.COMMENT_AMPM,
            'TIME_TIMEX_PREFIX': Constants.TIME_TIMEX_PREFIX, 'TIME_TIMEX_CONNECTOR': Constants.TIME_TIMEX_CONNECTOR,
            'UNIT_T': Constants.UNIT_T, 'INVALID_DATE_STRING': Constants.INVALID_DATE_STRING,
            'AM_GROUP_NAME': Constants.AM_GROUP_NAME, 'PM_GROUP_NAME': Constants.PM_GROUP_NAME,
            'min_value': [mv.year, mv.month, mv.day, mv.hour, mv.minute, mv.second],
            'HourTimeRegex': DateTimeFormatUtil.HourTimeRegex.pattern}

if __name__ == '__main__':
    culs = json.loads(sys.argv[1])
    with Pool(len(culs)) as p:
        tabs = p.map(one, culs)
    print('@@DUMP@@' + json.dumps({'consts': consts(), 'tables': tabs}))
'''


def dump():
    p = subprocess.run([sys.executable, '-c', DUMP, json.dumps([c for c, _ in CULTURES])], env=common.child_env(),
                       stdout=subprocess.PIPE, stderr=subprocess.PIPE, text=True, timeout=600)
    marker = [l for l in p.stdout.splitlines() if l.startswith('@@DUMP@@')]
    if p.returncode != 0 or not marker:
        raise RuntimeError('dtmaps dump failed: ' + (p.stderr or p.stdout)[-1500:])
    data = json.loads(marker[0][len('@@DUMP@@'):])
    for t in data['tables']:
        f = os.path.realpath(t['file'])
        if not f.startswith(os.path.realpath(common.REPO) + os.sep):
            raise RuntimeError('recognizers_date_time loaded from %s, not the working tree' % f)
    return data


def table(name, rows, doc):
    for k, v in rows:
        if not isinstance(v, int) or isinstance(v, bool) or v < 0:
            raise RuntimeError('table %s: value of %r is %r, expected a non-negative int' % (name, k, v))
    body = lean_list(['(%s, %d)' % (lean_str_cps(k), v) for k, v in rows], per_line=4)
    return '/-- %s -/\ndef %s : List (List Nat × Nat) := %s\n\n' % (doc, name, body)


def numeric_ranges():
    out, start = [], None
    for c in range(0x110000):
        ok = not (0xD800 <= c <= 0xDFFF) and chr(c).isnumeric()
        if ok and start is None:
            start = c
        elif not ok and start is not None:
            out.append((start, c - 1))
            start = None
    if start is not None:
        out.append((start, 0x10FFFF))
    return out


def nd_zeros():
    """code points z with decimal value 0; asserts that the Nd digits are exactly z..z+9 with values 0..9."""
    zeros, covered = [], set()
    for c in range(0x110000):
        if 0xD800 <= c <= 0xDFFF:
            continue
        if unicodedata.category(chr(c)) == 'Nd' and unicodedata.decimal(chr(c)) == 0:
            zeros.append(c)
            for k in range(10):
                if unicodedata.category(chr(c + k)) != 'Nd' or unicodedata.decimal(chr(c + k)) != k:
                    raise RuntimeError('Unicode decimal block at U+%04X is not contiguous' % c)
                covered.add(c + k)
    for c in range(0x110000):
        if not (0xD800 <= c <= 0xDFFF) and unicodedata.category(chr(c)) == 'Nd' and c not in covered:
            raise RuntimeError('decimal digit U+%04X outside a zero-based block' % c)
    return zeros


def generate():
    data = dump()
    c = data['consts']
    src = 'recognizers_date_time parser configurations of the working tree'
    main = HEADER % ('dtmaps', src)
    main += 'set_option maxRecDepth 1000000\nnamespace RTV.Gen.DtMaps\n\n'
    main += '/-- Constants.MIN_TWO_DIGIT_YEAR_PAST_NUM -/\ndef minTwoDigitYearPastNum : Int := %d\n' % c['MIN_TWO_DIGIT_YEAR_PAST_NUM']
    main += '/-- Constants.MAX_TWO_DIGIT_YEAR_FUTURE_NUM -/\ndef maxTwoDigitYearFutureNum : Int := %d\n' % c['MAX_TWO_DIGIT_YEAR_FUTURE_NUM']
    for k in ('INVALID_YEAR', 'INVALID_HOUR', 'INVALID_MINUTE', 'INVALID_SECOND'):
        name = 'invalid' + k.split('_')[1].capitalize()
        main += 'def %s : Int := %d\n' % (name, c[k])
    for k, name in (('AM_PM_GROUP_NAME', 'amPmGroupName'), ('COMMENT_AMPM', 'commentAmPm'),
                    ('TIME_TIMEX_PREFIX', 'timeTimexPrefix'), ('TIME_TIMEX_CONNECTOR', 'timeTimexConnector'),
                    ('UNIT_T', 'unitT'), ('INVALID_DATE_STRING', 'invalidDateString'),
                    ('AM_GROUP_NAME', 'amGroupName'), ('PM_GROUP_NAME', 'pmGroupName'),
                    ('HourTimeRegex', 'hourTimeRegexText')):
        main += '/-- %s = %r -/\ndef %s : List Nat := %s\n' % (k, c[k], name, lean_str_cps(c[k]))
    mv = c['min_value']
    main += '/-- DateUtils.min_value as (year, month, day, hour, minute, second) -/\n'
    main += 'def minValue : Nat × Nat × Nat × Nat × Nat × Nat := (%d, %d, %d, %d, %d, %d)\n\n' % tuple(mv)
    main += '/-- str.isnumeric of the running interpreter (CPython %s), sorted inclusive ranges -/\n' % sys.version.split()[0]
    main += 'def numericRanges : Array (Nat × Nat) := #' + lean_list(['(%d, %d)' % r for r in numeric_ranges()], per_line=6) + '\n\n'
    main += '/-- code points with Unicode decimal value 0; every decimal digit (`\\d`, accepted by `int`) is `z + k`, k ≤ 9 -/\n'
    main += 'def ndZeros : List Nat := ' + lean_list([str(z) for z in nd_zeros()], per_line=10) + '\n\n'
    files = {'DtMaps': main, 'DtMapsX1': None, 'DtMapsX2': None}
    x = {}
    for part in ('DtMapsX1', 'DtMapsX2'):
        x[part] = HEADER % ('dtmaps', src) + 'set_option maxRecDepth 1000000\nnamespace RTV.Gen.DtMaps\n\n'
    bytag = {t['culture']: t for t in data['tables']}
    parsers = []
    for i, (cul, tag) in enumerate(CULTURES):
        t = bytag[cul]
        parsers.append((tag, t['date_parser']))
        text = table('monthOfYear_' + tag, t['moy'], '%s date_parser.config.month_of_year (%s)' % (cul, t['date_parser']))
        text += table('dayOfMonth_' + tag, t['dom'], '%s date_parser.config.day_of_month' % cul)
        if tag == 'en':
            if t['numbers'] is None:
                raise RuntimeError('English time parser has no numbers table')
            text += table('numbers_en', t['numbers'], 'en-us time_parser.config.numbers')
            main += text
        else:
            if t['numbers'] is not None:
                text += table('numbers_' + tag, t['numbers'], '%s time_parser.config.numbers' % cul)
            if t.get('zh_numbers_map') is not None:
                text += table('timeNumbers_zh', t['zh_numbers_map'], 'ChineseTimeParser.numbers_map (TimeNumberDictionary)')
                text += table('timeLowBound_zh', t['zh_low_bound'], 'ChineseTimeParser.low_bound_map (TimeLowBoundDesc)')
            part = 'DtMapsX1' if i <= 4 else 'DtMapsX2'
            x[part] += text
    main += '/-- class of each culture\'s date parser (BaseDateParser cultures share match_to_date) -/\n'
    main += 'def dateParserClass : List (String × String) := ' + lean_list(
        ['("%s", "%s")' % p for p in parsers], per_line=3) + '\n\n'
    main += 'end RTV.Gen.DtMaps\n'
    out = [(os.path.join(GEN, 'DtMaps.lean'), main)]
    for part in ('DtMapsX1', 'DtMapsX2'):
        out.append((os.path.join(GEN, part + '.lean'), x[part] + 'end RTV.Gen.DtMaps\n'))
    return out
