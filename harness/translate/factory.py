"""L9 Factory data, dumped from the working tree (in a child process so that the class-level model cache of the
checking process is never touched by the translator):
  * Culture._get_supported_culture_codes()            -> supportedCultures
  * ModelFactory.__fallback_to_default_culture        -> fallbackCulture
  * model_factories of one constructed instance of each of the five recognisers (dict order) -> kinds[*].regs
  * the accepted option interval of each constructor (probed: options -3..70, must be one interval)
  * the get_*_model wrappers of each recogniser: method name, model type they ask for, and whether they rewrite
    zh-*, ja-* cultures to zh-cn (recorded by calling them on an instance whose get_model only records)
"""
import json
import os
import subprocess
import sys

from lib import common
from lib.common import GEN
from .leanfmt import lean_list, lean_str_cps, HEADER

KINDS = [('Number', 'recognizers_number', 'NumberRecognizer'),
         ('NumberWithUnit', 'recognizers_number_with_unit', 'NumberWithUnitRecognizer'),
         ('DateTime', 'recognizers_date_time', 'DateTimeRecognizer'),
         ('Sequence', 'recognizers_sequence', 'SequenceRecognizer'),
         ('Choice', 'recognizers_choice', 'ChoiceRecognizer')]

DUMP = r'''
import json, sys, importlib, warnings
warnings.simplefilter('ignore')
from recognizers_text import Culture
from recognizers_text.model import ModelFactory
kinds = json.loads(sys.argv[1])
out = {'supported': Culture._get_supported_culture_codes(),
       'fallback': ModelFactory._ModelFactory__fallback_to_default_culture,
       'files': [sys.modules['recognizers_text'].__file__], 'kinds': []}
for name, mod, cls in kinds:
    C = getattr(importlib.import_module(mod), cls)
    inst = C(lazy_initialization=False)
    regs = [[k.model_type, k.culture] for k in inst.model_factory.model_factories]
    ok = []
    for o in range(-3, 71):
        try:
            C(options=o, lazy_initialization=False)
            ok.append(o)
        except ValueError:
            pass
    calls = []
    class Rec(C):
        def get_model(self, t, c, fb):
            calls.append([t, c, fb])
            return None
    rec = Rec(lazy_initialization=False)
    wrappers = []
    for m in sorted(dir(C)):
        if m.startswith('get_') and m.endswith('_model') and m != 'get_model':
            del calls[:]
            getattr(rec, m)('zh-tw', False)
            getattr(rec, m)('JA-jp', True)
            getattr(rec, m)('en-gb', True)
            getattr(rec, m)(None, True)
            getattr(rec, m)()
            wrappers.append([m, calls[:]])
    out['kinds'].append({'name': name, 'regs': regs, 'accepted': ok, 'wrappers': wrappers,
                         'default_lazy': bool(C.__init__.__defaults__[-1])})
print(json.dumps(out))
'''


def dump():
    p = subprocess.run([sys.executable, '-c', DUMP, json.dumps(KINDS)], env=common.child_env(),
                       stdout=subprocess.PIPE, stderr=subprocess.PIPE, text=True, timeout=600)
    if p.returncode != 0:
        raise RuntimeError('factory dump failed: ' + p.stderr[-1500:])
    d = json.loads(p.stdout.strip().splitlines()[-1])
    for f in d['files']:
        if not os.path.realpath(f).startswith(os.path.realpath(common.REPO) + os.sep):
            raise RuntimeError('recognizers_text loaded from %s, not from the working tree' % f)
    return d


def wrapper_row(kind_idx, name, calls):
    """calls: the five recorded get_model calls -> (type, cjk flag); refuses shapes the model does not cover."""
    types = {c[0] for c in calls}
    if len(calls) != 5 or len(types) != 1:
        raise RuntimeError('wrapper %s: unexpected call shape %r' % (name, calls))
    t = calls[0][0]
    (c1, c2, c3, c4, c5) = [c[1] for c in calls]
    fbs = [c[2] for c in calls]
    if fbs != [False, True, True, True, True] or c3 != 'en-gb' or c4 is not None or c5 is not None:
        raise RuntimeError('wrapper %s: arguments are not passed through: %r' % (name, calls))
    if (c1, c2) == ('zh-cn', 'zh-cn'):
        cjk = True
    elif (c1, c2) == ('zh-tw', 'JA-jp'):
        cjk = False
    else:
        raise RuntimeError('wrapper %s: unknown culture rewriting %r' % (name, calls))
    return '(%d, %s, %s, %s)' % (kind_idx, lean_str_cps(name), lean_str_cps(t), 'true' if cjk else 'false')


def generate():
    d = dump()
    text = HEADER % ('factory', 'recognizers_text/culture.py, model.py and the five recognisers of the working tree')
    text += 'namespace RTV.Gen\n\n'
    text += '/-- `Culture._get_supported_culture_codes()` in list order -/\n'
    text += 'def supportedCultures : List (List Nat) := ' + lean_list(
        [lean_str_cps(c) for c in d['supported']], per_line=1) + '\n\n'
    text += '/-- `ModelFactory.__fallback_to_default_culture` -/\n'
    text += 'def fallbackCulture : List Nat := ' + lean_str_cps(d['fallback']) + '\n\n'
    text += '/-- names of the recogniser kinds, index = kind id -/\n'
    text += 'def kindNames : List (List Nat) := ' + lean_list(
        [lean_str_cps(k['name']) for k in d['kinds']], per_line=1) + '\n\n'
    text += '/-- per kind: the keys of `model_factories` of a constructed recogniser, (model_type, culture) in dict order -/\n'
    regs = []
    for k in d['kinds']:
        regs.append(lean_list(['(%s, %s)' % (lean_str_cps(t), lean_str_cps(c)) for t, c in k['regs']],
                              per_line=1, indent='    '))
    text += 'def registrations : List (List (List Nat × List Nat)) := ' + lean_list(regs, per_line=1) + '\n\n'
    ranges = []
    for k in d['kinds']:
        ok = k['accepted']
        if not ok or ok != list(range(ok[0], ok[-1] + 1)) or ok[0] <= -3 or ok[-1] >= 70:
            raise RuntimeError('%s: accepted options are not one interval inside the probe: %r' % (k['name'], ok))
        ranges.append('(%d, %d)' % (ok[0], ok[-1]))
    text += '/-- per kind: the interval of option values the constructor accepts (everything else: ValueError) -/\n'
    text += 'def optionRanges : List (Int × Int) := ' + lean_list(ranges, per_line=5) + '\n\n'
    text += '/-- per kind: default of the constructor\'s `lazy_initialization` argument -/\n'
    text += 'def defaultLazy : List Bool := ' + lean_list(
        ['true' if k['default_lazy'] else 'false' for k in d['kinds']], per_line=5) + '\n\n'
    rows = []
    for i, k in enumerate(d['kinds']):
        for name, calls in k['wrappers']:
            rows.append(wrapper_row(i, name, calls))
    text += '/-- the `get_*_model` wrappers: (kind, method name, model type, rewrites zh-*, ja-* to zh-cn) -/\n'
    text += 'def wrappers : List (Nat × List Nat × List Nat × Bool) := ' + lean_list(rows, per_line=1) + '\n\n'
    text += 'end RTV.Gen\n'
    return [(os.path.join(GEN, 'Factory.lean'), text)]
