"""Spec cases of the families the Lean models cover end to end -> RTV/Gen/SpecCases.lean:
Specs/Sequence/*/IpAddressModel*.json, GUIDModel*.json, HashtagModel*.json, MentionModel*.json, EmailModel*.json,
URLModel*.json, Specs/Choice/English/BooleanModel*.json —
Python-supported cases only (as harness/lib/specs.iter_cases() marks them).  Each case is emitted with EVERY field the
Specs state for its results: TypeName, Text, Start / End where given, and every key of Resolution (`value`, `type`,
`score` — str, bool or float, as text).  That is what property C19 demands ("text, type, offsets where given, and
resolution fields"); the repository's own runner (Python/tests/test_runner_sequence.py, test_runner_choice.py)
compares less: count, TypeName, Text, Resolution.value, and Resolution.score for the sequence models only — never Start /
End, never Resolution.type, never the boolean score."""
import os

from lib import specs
from lib.common import GEN
from .leanfmt import HEADER


def L(s):
    return '[' + ', '.join(str(ord(c)) for c in s) + ']'


def families():
    """-> {'ipEn': [...], 'ipZh': [...], 'guid': [...], 'bool': [...]} of (file, index, input, results)"""
    fam = {'ipEn': [], 'ipZh': [], 'guid': [], 'bool': [], 'hashtag': [], 'mention': [], 'email': [], 'urlEn': [], 'urlZh': []}
    for c in specs.iter_cases():
        if not c['supported'] or c['entity'] != 'Model':
            continue
        if c['recognizer'] == 'Sequence' and c['model'] == 'IpAddress':
            # recognize_ip_address routes zh-* / ja-* to the Chinese configuration, everything else to English
            key = 'ipZh' if c['culture'].lower().startswith(('zh-', 'ja-')) else 'ipEn'
        elif c['recognizer'] == 'Sequence' and c['model'] == 'GUID':
            key = 'guid'
        elif c['recognizer'] == 'Sequence' and c['model'] in ('Hashtag', 'Mention', 'Email') and c['language'] == 'English':
            key = c['model'].lower()
        elif c['recognizer'] == 'Sequence' and c['model'] == 'URL':
            # recognize_url routes zh-* / ja-* to the Chinese configuration
            key = 'urlZh' if c['culture'].lower().startswith(('zh-', 'ja-')) else 'urlEn'
        elif c['recognizer'] == 'Choice' and c['model'] == 'Boolean' and c['language'] == 'English':
            key = 'bool'
        else:
            continue
        fam[key].append((c['file'], c['index'], c['input'], c['results'] or []))
    return fam


def canon(v):
    """text of a resolution value, the same on the Specs side, the implementation side and in the model:
    `str` as it is, `bool` as True/False, `float`/`int` as its repr, None as None"""
    if isinstance(v, str):
        return v
    return repr(v)


def expected_fields(r):
    """(TypeName, Text, Start|None, End|None, [(key, canon(value))]) — every field a Specs result states"""
    known = {'TypeName', 'Text', 'Start', 'End', 'Resolution'}
    extra = set(r) - known
    if extra:
        raise ValueError('spec result with fields this translator does not know: %r' % sorted(extra))
    return (r['TypeName'], r['Text'], r.get('Start'), r.get('End'),
            [(k, canon(v)) for k, v in (r.get('Resolution') or {}).items()])


def lean_exp(r):
    t, x, a, b, res = expected_fields(r)
    return '(%s, %s, %s, %s, [%s])' % (L(t), L(x), 'none' if a is None else 'some %d' % a,
                                       'none' if b is None else 'some (%d : Int)' % b,
                                       ', '.join('(%s, %s)' % (L(k), L(v)) for k, v in res))


KEYS = ('ipEn', 'ipZh', 'guid', 'bool', 'hashtag', 'mention', 'email', 'urlEn', 'urlZh')


def generate():
    fam = families()
    text = HEADER % ('speccases', 'Specs/Sequence/*/IpAddressModel*.json, GUIDModel*.json, HashtagModel / MentionModel / '
                     'EmailModel / URLModel*.json, Specs/Choice/English/BooleanModel*.json')
    text += 'set_option maxRecDepth 1000000\nnamespace RTV.Gen\n\n'
    for key in KEYS:
        rows = []
        for f, i, inp, res in fam[key]:
            rows.append('  -- %s #%d\n  (%s, [%s])' % (f, i, L(inp), ', '.join(lean_exp(r) for r in res)))
        text += ('/-- (input, expected [(TypeName, Text, Start if stated, End if stated, Resolution as (key, text of the '
                 'value) pairs)]) -/\n')
        text += ('def specCases_%s : List (List Nat × List (List Nat × List Nat × Option Nat × Option Int × '
                 'List (List Nat × List Nat))) := [\n%s]\n\n' % (key, ',\n'.join(rows)))
    text += 'end RTV.Gen\n'
    return [(os.path.join(GEN, 'SpecCases.lean'), text)]
