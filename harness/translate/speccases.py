"""Spec cases of the families the Lean models cover end to end -> RTV/Gen/SpecCases.lean:
Specs/Sequence/*/IpAddressModel*.json, GUIDModel*.json, HashtagModel*.json, MentionModel*.json, EmailModel*.json,
URLModel*.json, Specs/Choice/English/BooleanModel*.json —
Python-supported cases only (as harness/lib/specs.iter_cases() marks them).  Each case is emitted with exactly the
fields the repository's runner compares (Python/tests/test_runner_sequence.py, test_runner_choice.py): number of
results, TypeName, Text, Resolution.value, and Resolution.score when the spec states one (sequence runner only)."""
import os

from lib import specs
from lib.common import GEN
from .leanfmt import HEADER


def L(s):
    return '[' + ', '.join(str(ord(c)) for c in s) + ']'


def families():
    """-> {'ipEn': [...], 'ipZh': [...], 'guid': [...], 'bool': [...]} of (file, index, input, results)"""
    fam = {'ipEn': [], 'ipZh': [], 'guid': [], 'bool': [], 'hashtag': [], 'mention': [], 'email': [], 'urlEn': [], 'urlZh': []}
    for c in specs.iter_cases():
        if not c['supported'] or c['entity'] != 'Model':
            continue
        if c['recognizer'] == 'Sequence' and c['model'] == 'IpAddress':
            # recognize_ip_address routes zh-* / ja-* to the Chinese configuration, everything else to English
            key = 'ipZh' if c['culture'].lower().startswith(('zh-', 'ja-')) else 'ipEn'
        elif c['recognizer'] == 'Sequence' and c['model'] == 'GUID':
            key = 'guid'
        elif c['recognizer'] == 'Sequence' and c['model'] in ('Hashtag', 'Mention', 'Email') and c['language'] == 'English':
            key = c['model'].lower()
        elif c['recognizer'] == 'Sequence' and c['model'] == 'URL':
            # recognize_url routes zh-* / ja-* to the Chinese configuration
            key = 'urlZh' if c['culture'].lower().startswith(('zh-', 'ja-')) else 'urlEn'
        elif c['recognizer'] == 'Choice' and c['model'] == 'Boolean' and c['language'] == 'English':
            key = 'bool'
        else:
            continue
        fam[key].append((c['file'], c['index'], c['input'], c['results'] or []))
    return fam


def generate():
    fam = families()
    text = HEADER % ('speccases', 'Specs/Sequence/*/IpAddressModel*.json, GUIDModel*.json, Specs/Choice/English/BooleanModel*.json')
    text += 'set_option maxRecDepth 1000000\nnamespace RTV.Gen\n\n'
    for key in ('ipEn', 'ipZh', 'hashtag', 'mention', 'email', 'urlEn', 'urlZh'):
        rows = []
        for f, i, inp, res in fam[key]:
            exp = ', '.join('(%s, %s, %s)' % (L(r['TypeName']), L(r['Text']), L(str(r['Resolution']['value']))) for r in res)
            rows.append('  -- %s #%d\n  (%s, [%s])' % (f, i, L(inp), exp))
        text += '/-- (input, expected [(TypeName, Text, Resolution.value)]) -/\n'
        text += 'def specCases_%s : List (List Nat × List (List Nat × List Nat × List Nat)) := [\n%s]\n\n' % (key, ',\n'.join(rows))
    rows = []
    for f, i, inp, res in fam['guid']:
        exp = ', '.join('(%s, %s, %s, %s)' % (
            L(r['TypeName']), L(r['Text']), L(str(r['Resolution']['value'])),
            ('some ' + L(str(r['Resolution']['score']))) if 'score' in r['Resolution'] else 'none') for r in res)
        rows.append('  -- %s #%d\n  (%s, [%s])' % (f, i, L(inp), exp))
    text += '/-- (input, expected [(TypeName, Text, Resolution.value, Resolution.score if stated)]) -/\n'
    text += ('def specCases_guid : List (List Nat × List (List Nat × List Nat × List Nat × Option (List Nat))) := [\n%s]\n\n'
             % ',\n'.join(rows))
    rows = []
    for f, i, inp, res in fam['bool']:
        exp = ', '.join('(%s, %s, %s)' % (L(r['TypeName']), L(r['Text']),
                                          'true' if r['Resolution']['value'] is True else 'false') for r in res)
        rows.append('  -- %s #%d\n  (%s, [%s])' % (f, i, L(inp), exp))
    text += '/-- (input, expected [(TypeName, Text, Resolution.value)]) -/\n'
    text += 'def specCases_bool : List (List Nat × List (List Nat × List Nat × Bool)) := [\n%s]\n\n' % ',\n'.join(rows)
    text += 'end RTV.Gen\n'
    return [(os.path.join(GEN, 'SpecCases.lean'), text)]
