"""The alternation of `BaseNumberParser.text_number_regex` as the REAL pattern text has it (C04, audit item 14).

For the cultures whose tokeniser is modelled (`RTV.NumFrac.textTokens`, tied by `nf.tok`: en-us, es-es, fr-fr, de-de) the
pattern of the parser object of the working tree is taken apart: `(?=\\b)(<alternatives>|\\d+)(?=\\b)`, for de-de
`((?=\\b)(<alternatives>|\\d+)(?=\\b))|(<alternatives>|\\d+)`.  The alternatives, in pattern order, are emitted as code-point
lists: RTV/Gen/NumAlts.lean.  `RTV.Props.C04Text` proves that the model's `tokenAlts` (word separator, ` -`, cardinal keys
by length, ordinal keys by length — a stable insertion sort) produces exactly this list from the regenerated maps, and
evaluates the tokeniser on the literal list."""
import os

from lib import common
from lib.common import GEN
from .leanfmt import HEADER, lean_list, lean_str_cps

CULTURES = [('en-us', 'en'), ('es-es', 'es'), ('fr-fr', 'fr'), ('de-de', 'de')]


def alternatives(pattern):
    """-> (alternatives without the final `\\d+`, loose)"""
    loose = pattern.startswith('((?=\\b)(')
    if loose:
        first, second = pattern.split(')(?=\\b))|(', 1)
        body = first[len('((?=\\b)('):]
        if second != body + ')':
            raise ValueError('the two alternatives of the loose pattern differ')
    else:
        if not (pattern.startswith('(?=\\b)(') and pattern.endswith(')(?=\\b)')):
            raise ValueError('unexpected shape of text_number_regex: %r…' % pattern[:40])
        body = pattern[len('(?=\\b)('):-len(')(?=\\b)')]
    alts = body.split('|')
    if alts[-1] != '\\d+':
        raise ValueError('text_number_regex does not end with \\d+')
    alts = alts[:-1]
    for a in alts:
        if any(ch in a for ch in '\\()[]?*+.^$'):
            raise ValueError('alternative %r is not a literal' % a)
    return alts, loose


def collect():
    common.setup_repo_imports()
    from recognizers_number.number.number_recognizer import NumberRecognizer
    out = {}
    for cu, name in CULTURES:
        parser = NumberRecognizer(cu).get_number_model(cu, False).parser
        out[name] = alternatives(parser.text_number_regex.pattern)
    return out


def generate():
    data = collect()
    t = HEADER % ('numalts', 'the pattern text of BaseNumberParser.text_number_regex of the working tree')
    t += 'set_option maxRecDepth 1000000\nnamespace RTV.Gen.NumAlts\n\n'
    for cu, name in CULTURES:
        alts, loose = data[name]
        t += '/-- the literal alternatives of text_number_regex (%s), in pattern order (the final `\\d+` left out) -/\n' % cu
        t += 'def %s : List (List Nat) := %s\n' % (name, lean_list([lean_str_cps(a) for a in alts], per_line=6))
        t += '/-- the pattern has the boundary-free second alternative -/\ndef %sLoose : Bool := %s\n\n' % (name, 'true' if loose else 'false')
    t += 'end RTV.Gen.NumAlts\n'
    return [(os.path.join(GEN, 'NumAlts.lean'), t)]
