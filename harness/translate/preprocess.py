"""The literal data of `QueryProcessor.preprocess` (recognizers_text/utilities.py): the chain of
`result = result.replace(a, b)` recodes, read from the working tree's source with `ast` (so an edited or added
replace shows up in RTV/Gen/Preprocess.lean and the length theorem is re-checked against it)."""
import ast
import os

from lib import common
from lib.common import GEN
from .leanfmt import lean_list, HEADER


def replace_pairs():
    path = os.path.join(common.REPO, 'Python', 'libraries', 'recognizers-text', 'recognizers_text', 'utilities.py')
    tree = ast.parse(open(path, encoding='utf-8').read())
    fn = None
    for node in ast.walk(tree):
        if isinstance(node, ast.ClassDef) and node.name == 'QueryProcessor':
            for item in node.body:
                if isinstance(item, ast.FunctionDef) and item.name == 'preprocess':
                    fn = item
    if fn is None:
        raise ValueError('QueryProcessor.preprocess not found in ' + path)
    pairs = []
    for node in ast.walk(fn):
        if (isinstance(node, ast.Call) and isinstance(node.func, ast.Attribute) and node.func.attr == 'replace'
                and len(node.args) == 2 and all(isinstance(a, ast.Constant) and isinstance(a.value, str)
                                                for a in node.args)):
            pairs.append((node.lineno, node.col_offset, node.args[0].value, node.args[1].value))
    pairs.sort()
    return [(a, b) for _, _, a, b in pairs]


def generate():
    pairs = replace_pairs()
    cp = lambda s: '[' + ', '.join(str(ord(c)) for c in s) + ']'
    text = HEADER % ('preprocess', 'recognizers_text/utilities.py QueryProcessor.preprocess')
    text += 'namespace RTV.Gen\n\n'
    text += '/-- the `result.replace(a, b)` chain of `QueryProcessor.preprocess`, in source order -/\n'
    text += 'def recodePairs : List (List Nat × List Nat) := ' + lean_list(
        ['(%s, %s)' % (cp(a), cp(b)) for a, b in pairs], per_line=6) + '\n\n'
    text += 'end RTV.Gen\n'
    return [(os.path.join(GEN, 'Preprocess.lean'), text)]
