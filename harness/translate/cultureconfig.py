"""Culture parser CONFIGURATION methods, translated from the SOURCE TEXT of the working tree on every run.

For every date-time culture directory (english, spanish, french, portuguese, italian, german, dutch, chinese) the
configuration objects a `DateTimeModel` really uses are found by walking the model's object graph; for each
`*Configuration` class defined under `recognizers_date_time/date_time/<culture>/` every method of the class body
(no properties, no `__init__`, no holiday date functions — harness/translate/holiday.py owns those) is read with `ast`
and executed SYMBOLICALLY:

  * parameters annotated `str` / `int` become `SE.arg k` / `IE.arg k`;
  * assignments are substituted, `if / elif / else` splits the path, `return` ends it, `x -= 12` is an assignment,
    `self.f(x)` is inlined from the same class body, `a if c else b` splits the path;
  * `self.attr`, `Class._attr`, `EnglishDateTime.X`, `Constants.X` are read from the constructed configuration object /
    the module's globals (`str`, `int`, `bool`, lists of `str`, compiled `regex` patterns with their flags);
  * `regex.search(p, s)`, `p.search(s)`, `.match`, `.fullmatch` become `reSearch / reMatch / reFull` of the pattern text
    translated by harness/translate/regexes.py (named groups dropped, IGNORECASE expanded); `re.sub('[..]', '', s)`;
  * `any(t.endswith(o) for o in L)` and the `==`, `startswith`, `in` forms; `x in [...]`; `'abc' in s`; slices;
  * a call of a static utility with constant arguments only (`TimexUtil.parse_time_of_day(Constants.MORNING)`) is folded
    by calling the working tree's function; records (`MatchedTimex(True, 'PRESENT_REF')`, namedtuples and plain classes)
    become `VE.record` with the fields in declaration order.

The result per method is one decision tree (`RTV.CultureCfg.VE`).  Anything else (mutation of an argument, match
groups, dict look-ups, `datetime`, …) makes the method `unsupported` with the reason — listed in the generated files
and counted in the evidence, never dropped.

Everything that imports the recognisers runs in forked children (one per culture).  Output:
RTV/Gen/CultureCfg<Culture>.lean (regexes, lists, methods of one culture) and RTV/Gen/CultureCfg.lean (index)."""
import ast
import hashlib
import inspect
import multiprocessing
import os
import re as _re

from lib import common
from lib.common import GEN
from .leanfmt import HEADER

CULTURES = [('en-us', 'english'), ('es-es', 'spanish'), ('fr-fr', 'french'), ('pt-br', 'portuguese'),
            ('it-it', 'italian'), ('de-de', 'german'), ('nl-nl', 'dutch'), ('zh-cn', 'chinese')]
PKG = 'recognizers_date_time.date_time.'
MAX_LEAVES = 400
MAX_INLINE_DEPTH = 4


class Unsupported(Exception):
    pass


# ------------------------------------------------------------------ the configuration objects in use

def walk_instances(root, prefix):
    """{class name: first instance met} of classes defined in modules under `prefix`, reachable from `root`."""
    seen, found, stack = set(), {}, [root]
    while stack:
        o = stack.pop()
        if id(o) in seen:
            continue
        seen.add(id(o))
        mod = getattr(type(o), '__module__', '') or ''
        if not mod.startswith('recognizers_'):
            if isinstance(o, (list, tuple)):
                stack.extend(o)
            elif isinstance(o, dict):
                stack.extend(o.values())
            continue
        if mod.startswith(prefix):
            found.setdefault(type(o).__name__, o)
        d = getattr(o, '__dict__', None)
        if d:
            stack.extend(reversed(list(d.values())))
    return found


_INST = {}


def instances(culture, culdir):
    """configuration instances of one culture (this process builds the model on first use)"""
    if culture not in _INST:
        common.setup_repo_imports()
        import warnings
        warnings.simplefilter('ignore')
        import recognizers_date_time
        common.assert_tree_modules(recognizers_date_time)
        from recognizers_date_time import DateTimeRecognizer
        model = DateTimeRecognizer(lazy_initialization=False).get_model('DateTimeModel', culture, False)
        found = walk_instances(model, PKG + culdir + '.')
        _INST[culture] = {k: v for k, v in found.items() if k.endswith('Configuration')}
    return _INST[culture]


# ------------------------------------------------------------------ symbolic values
# ('str', SE) ('int', IE) ('bool', BE, kind)  kind in bool | match | mixed      ('none',)
# ('strlist', [str], ref) ('re', pattern, flags, ref) ('rec', clsname, [field names], [values]) ('py', obj)

def const_to_val(obj, ref):
    import regex
    if isinstance(obj, bool):
        return ('bool', ('lit', obj), 'bool')
    if isinstance(obj, int):
        return ('int', ('lit', obj))
    if isinstance(obj, str):
        return ('str', ('lit', obj))
    if obj is None:
        return ('none',)
    if isinstance(obj, (list, tuple)) and all(isinstance(x, str) for x in obj):
        return ('strlist', list(obj), ref)
    if isinstance(obj, (regex.Pattern, _re.Pattern)):
        return ('re', obj.pattern, int(obj.flags), ref)
    return ('py', obj)


def truth(v):
    """-> (BE, kind)"""
    t = v[0]
    if t == 'bool':
        return v[1], v[2]
    if t == 'str':
        return ('nonEmpty', v[1]), 'mixed'
    if t == 'int':
        return ('icmp', 'ne', v[1], ('lit', 0)), 'mixed'
    if t == 'none':
        return ('lit', False), 'mixed'
    if t == 'strlist':
        return ('lit', bool(v[1])), 'mixed'
    if t in ('rec', 're'):
        return ('lit', True), 'mixed'
    raise Unsupported('truth value of a %s' % t)


def join_kind(kinds):
    ks = set(kinds)
    return ks.pop() if len(ks) == 1 else 'mixed'


def want(v, t, what):
    if v[0] != t:
        raise Unsupported('%s: expected %s, got %s' % (what, t, v[0]))
    return v[1]


CMP = {ast.Lt: 'lt', ast.LtE: 'le', ast.Gt: 'gt', ast.GtE: 'ge', ast.Eq: 'eq', ast.NotEq: 'ne'}


class ClassTranslator:
    def __init__(self, culdir, cls, obj):
        self.culdir, self.cls, self.obj = culdir, cls, obj
        self.module = inspect.getmodule(cls)
        self.globals = vars(self.module)
        path = inspect.getsourcefile(cls)
        with open(path, encoding='utf-8') as f:
            tree = ast.parse(f.read())
        self.node = next(n for n in tree.body if isinstance(n, ast.ClassDef) and n.name == cls.__name__)
        self.methods = {n.name: n for n in self.node.body if isinstance(n, ast.FunctionDef)}
        self.regexes = {}      # ref -> (pattern, flags)
        self.lists = {}        # ref -> [str]
        self.folded = []

    # ---- which methods
    def candidates(self):
        out = []
        for name, fn in self.methods.items():
            decs = [ast.unparse(d) for d in fn.decorator_list]
            if name == '__init__' or any(d == 'property' or d.endswith('.setter') or d == 'abstractmethod' for d in decs):
                continue
            args = [a.arg for a in fn.args.args]
            if name == '_init_holiday_funcs' or ('staticmethod' in decs and args == ['year']):
                continue                    # harness/translate/holiday.py
            out.append(name)
        return out

    # ---- one method
    def translate(self, name):
        fn = self.methods[name]
        decs = [ast.unparse(d) for d in fn.decorator_list]
        attr = name
        if name.startswith('__') and not name.endswith('__'):
            attr = '_%s%s' % (self.cls.__name__.lstrip('_'), name)
        static = inspect.getattr_static(self.cls, attr, None)
        bound = getattr(self.obj, attr, None)
        if getattr(bound, '__func__', bound) is not getattr(static, '__func__', static):
            raise Unsupported('shadowed on the instance by a %s' % type(bound).__name__)
        args = list(fn.args.args)
        if 'staticmethod' not in decs:
            if not args or args[0].arg != 'self':
                raise Unsupported('first parameter is not self')
            args = args[1:]
        if fn.args.vararg or fn.args.kwarg or fn.args.kwonlyargs:
            raise Unsupported('variadic parameters')
        env, params, ns, ni = {}, [], 0, 0
        for a in args:
            ann = ast.unparse(a.annotation) if a.annotation is not None else None
            if ann == 'int':
                env[a.arg] = ('int', ('arg', ni))
                params.append((a.arg, 'int'))
                ni += 1
            elif ann == 'str' or (ann is None and a.arg in ('source', 'text', 'trimmed_source', 'trimmed_text', 'holiday',
                                                             'prefix', 'suffix', 'matched_text')):
                env[a.arg] = ('str', ('arg', ns))
                params.append((a.arg, 'str'))
                ns += 1
            else:
                raise Unsupported('parameter %s: %s' % (a.arg, ann))
        self.leaves = 0
        self.kinds = []
        self.fields = None
        tree = self.exec(fn.body, env, lambda e: self.leaf(('none',)), self.leaf, 0)
        truthy = any(k != 'bool' for k in self.kinds)
        return {'params': params, 'tree': tree, 'truthy': truthy, 'fields': self.fields}

    def leaf(self, v):
        self.leaves += 1
        if self.leaves > MAX_LEAVES:
            raise Unsupported('more than %d paths' % MAX_LEAVES)
        t = v[0]
        if t == 'rec':
            fes = []
            for fv in v[3]:
                if fv[0] == 'bool' and fv[2] != 'bool':
                    raise Unsupported('record field that is not an exact bool')
                fes.append(self.fe(fv))
            sig = [v[1]] + list(v[2])
            if self.fields is None:
                self.fields = sig
            elif self.fields != sig:
                raise Unsupported('returns records of different classes')
            return ('record', fes)
        if t == 'bool':
            self.kinds.append(v[2])
        else:
            self.kinds.append('bool')       # exact value compared
        return ('ret', self.fe(v))

    def fe(self, v):
        t = v[0]
        if t == 'str':
            return ('str', v[1])
        if t == 'int':
            return ('int', v[1])
        if t == 'bool':
            return ('bool', v[1])
        if t == 'none':
            return ('none',)
        raise Unsupported('returns a %s' % t)

    # ---- statements
    def exec(self, stmts, env, k, rk, depth):
        """k(env): what happens when the statement list falls through; rk(value): what a `return` does"""
        if not stmts:
            return k(env)
        s, rest = stmts[0], stmts[1:]
        if isinstance(s, ast.Expr) and isinstance(s.value, ast.Constant):
            return self.exec(rest, env, k, rk, depth)
        if isinstance(s, ast.Pass):
            return self.exec(rest, env, k, rk, depth)
        if isinstance(s, ast.Return):
            if s.value is None:
                return rk(('none',))
            return self.ev(s.value, env, rk, depth)
        if isinstance(s, ast.Assign):
            if len(s.targets) != 1 or not isinstance(s.targets[0], ast.Name):
                raise Unsupported('assignment to %s' % ast.unparse(s.targets[0]))
            nm = s.targets[0].id
            return self.ev(s.value, env, lambda v: self.exec(rest, {**env, nm: v}, k, rk, depth), depth)
        if isinstance(s, ast.AnnAssign) and isinstance(s.target, ast.Name) and s.value is not None:
            nm = s.target.id
            return self.ev(s.value, env, lambda v: self.exec(rest, {**env, nm: v}, k, rk, depth), depth)
        if isinstance(s, ast.AugAssign):
            if not isinstance(s.target, ast.Name):
                raise Unsupported('assignment to %s' % ast.unparse(s.target))
            nm = s.target.id
            e = ast.BinOp(left=ast.Name(id=nm, ctx=ast.Load()), op=s.op, right=s.value)
            return self.ev(e, env, lambda v: self.exec(rest, {**env, nm: v}, k, rk, depth), depth)
        if isinstance(s, ast.If):
            def after(env2):
                return self.exec(rest, env2, k, rk, depth)

            def branch(v):
                c, _ = truth(v)
                if c == ('lit', True):
                    return self.exec(s.body, env, after, rk, depth)
                if c == ('lit', False):
                    return self.exec(s.orelse, env, after, rk, depth)
                return ('ite', c, self.exec(s.body, env, after, rk, depth), self.exec(s.orelse, env, after, rk, depth))
            return self.ev(s.test, env, branch, depth)
        raise Unsupported('statement %s' % type(s).__name__)

    # ---- expressions (continuation passing: k(value) -> tree)
    def evs(self, nodes, env, k, depth):
        if not nodes:
            return k([])
        return self.ev(nodes[0], env, lambda v: self.evs(nodes[1:], env, lambda vs: k([v] + vs), depth), depth)

    def global_const(self, node):
        """an attribute chain / name rooted in a module global -> python object"""
        root = node
        while isinstance(root, ast.Attribute):
            root = root.value
        if not (isinstance(root, ast.Name) and root.id in self.globals):
            raise Unsupported('name %s' % ast.unparse(node))
        try:
            return eval(compile(ast.Expression(body=node), '<cfg>', 'eval'), self.globals)   # attribute look-up only
        except Exception as e:
            raise Unsupported('cannot read %s: %s' % (ast.unparse(node), e))

    def ev(self, n, env, k, depth):
        if isinstance(n, ast.Constant):
            return k(const_to_val(n.value, None))
        if isinstance(n, ast.Name):
            if n.id in env:
                return k(env[n.id])
            return k(const_to_val(self.global_const(n), n.id))
        if isinstance(n, (ast.List, ast.Tuple)):
            if all(isinstance(e, ast.Constant) and isinstance(e.value, str) for e in n.elts):
                return k(('strlist', [e.value for e in n.elts], None))
            raise Unsupported('list of non-literals')
        if isinstance(n, ast.Attribute):
            return self.ev_attr(n, env, k, depth)
        if isinstance(n, ast.IfExp):
            def branch(v):
                c, _ = truth(v)
                return ('ite', c, self.ev(n.body, env, k, depth), self.ev(n.orelse, env, k, depth))
            return self.ev(n.test, env, branch, depth)
        if isinstance(n, ast.BoolOp):
            def comb(vs):
                ts = [truth(v) for v in vs]
                op = 'and' if isinstance(n.op, ast.And) else 'or'
                be = ts[-1][0]
                for t, _ in reversed(ts[:-1]):
                    be = (op, t, be)
                return k(('bool', be, join_kind(kd for _, kd in ts)))
            return self.evs(n.values, env, comb, depth)
        if isinstance(n, ast.UnaryOp):
            if isinstance(n.op, ast.Not):
                return self.ev(n.operand, env, lambda v: k(('bool', ('not', truth(v)[0]), 'bool')), depth)
            if isinstance(n.op, ast.USub):
                return self.ev(n.operand, env, lambda v: k(('int', self.neg(want(v, 'int', 'unary minus')))), depth)
            raise Unsupported('unary %s' % type(n.op).__name__)
        if isinstance(n, ast.BinOp):
            ops = {ast.Add: 'add', ast.Sub: 'sub', ast.Mult: 'mul'}
            if type(n.op) not in ops:
                raise Unsupported('operator %s' % type(n.op).__name__)

            def comb(vs):
                a, b = vs
                if a[0] == 'int' and b[0] == 'int':
                    return k(('int', (ops[type(n.op)], a[1], b[1])))
                raise Unsupported('%s of %s and %s' % (ops[type(n.op)], a[0], b[0]))
            return self.evs([n.left, n.right], env, comb, depth)
        if isinstance(n, ast.Compare):
            return self.evs([n.left] + list(n.comparators), env, lambda vs: k(self.compare(n.ops, vs)), depth)
        if isinstance(n, ast.Subscript):
            return self.ev(n.value, env, lambda v: k(self.subscript(v, n.slice)), depth)
        if isinstance(n, ast.Call):
            return self.ev_call(n, env, k, depth)
        raise Unsupported('expression %s' % type(n).__name__)

    @staticmethod
    def neg(ie):
        if ie[0] == 'lit':
            return ('lit', -ie[1])
        return ('neg', ie)

    @staticmethod
    def const_int(node):
        if node is None:
            return None
        if isinstance(node, ast.Constant) and isinstance(node.value, int) and not isinstance(node.value, bool):
            return node.value
        if isinstance(node, ast.UnaryOp) and isinstance(node.op, ast.USub) and isinstance(node.operand, ast.Constant) \
                and isinstance(node.operand.value, int):
            return -node.operand.value
        raise Unsupported('slice bound %s' % ast.unparse(node))

    def subscript(self, v, sl):
        if v[0] == 'str' and isinstance(sl, ast.Slice) and sl.step is None:
            return ('str', ('slice', v[1], self.const_int(sl.lower), self.const_int(sl.upper)))
        if v[0] == 'strlist' and not isinstance(sl, ast.Slice):
            i = self.const_int(sl)
            if -len(v[1]) <= i < len(v[1]):
                return ('str', ('lit', v[1][i]))
            raise Unsupported('index %d out of range of %s' % (i, v[2]))
        raise Unsupported('subscript of a %s' % v[0])

    def compare(self, ops, vs):
        parts = []
        for op, a, b in zip(ops, vs, vs[1:]):
            parts.append(self.compare1(op, a, b))
        be = parts[-1]
        for p in reversed(parts[:-1]):
            be = ('and', p, be)
        return ('bool', be, 'bool')

    def compare1(self, op, a, b):
        if isinstance(op, (ast.Eq, ast.NotEq)):
            if a[0] == 'str' and b[0] == 'str':
                be = ('eq', a[1], b[1])
            elif a[0] == 'int' and b[0] == 'int':
                return ('icmp', CMP[type(op)], a[1], b[1])
            else:
                raise Unsupported('== of %s and %s' % (a[0], b[0]))
            return be if isinstance(op, ast.Eq) else ('not', be)
        if isinstance(op, (ast.Lt, ast.LtE, ast.Gt, ast.GtE)):
            if a[0] == 'int' and b[0] == 'int':
                return ('icmp', CMP[type(op)], a[1], b[1])
            raise Unsupported('ordering of %s and %s' % (a[0], b[0]))
        if isinstance(op, (ast.In, ast.NotIn)):
            if a[0] == 'str' and b[0] == 'strlist':
                be = ('inList', a[1], self.listref(b))
            elif a[0] == 'str' and b[0] == 'str':
                be = ('contains', b[1], a[1])
            else:
                raise Unsupported('%s in %s' % (a[0], b[0]))
            return be if isinstance(op, ast.In) else ('not', be)
        if isinstance(op, (ast.Is, ast.IsNot)):
            if b[0] != 'none':
                raise Unsupported('is %s' % b[0])
            if a[0] == 'none':
                be = ('lit', True)
            elif a[0] == 'bool' and a[2] == 'match':
                be = ('not', a[1])
            elif a[0] in ('str', 'int', 'rec', 'strlist', 're') or (a[0] == 'bool' and a[2] == 'bool'):
                be = ('lit', False)
            else:
                raise Unsupported('is None of a %s value' % a[0])
            return be if isinstance(op, ast.Is) else ('not', be)
        raise Unsupported('comparison %s' % type(op).__name__)

    def listref(self, v):
        """('strlist', items, ref) -> list expression: ('ref', name) for a resource list, ('items', [...]) inline"""
        if v[2]:
            self.lists[v[2]] = list(v[1])
            return ('ref', v[2])
        return ('items', list(v[1]))

    def reref(self, v):
        import regex
        if v[0] == 'str' and v[1][0] == 'lit':
            pat, flags, ref = v[1][1], 0, 'inline_' + hashlib.sha256(v[1][1].encode()).hexdigest()[:8]
        elif v[0] == 're':
            pat, flags, ref = v[1], v[2], v[3]
        else:
            raise Unsupported('pattern is a %s' % v[0])
        if flags & (regex.M | regex.X | regex.A | regex.L | regex.V1 | regex.F | regex.B | regex.R | regex.W):
            raise Unsupported('regex flags %s of %s' % (flags, ref))
        ref = ref or 'anon_' + hashlib.sha256(pat.encode()).hexdigest()[:8]
        self.regexes[ref] = (pat, flags & (regex.I | regex.S))
        return ref

    def ev_attr(self, n, env, k, depth):
        if isinstance(n.value, ast.Name) and n.value.id == 'self':
            attr = n.attr
            if attr.startswith('__') and not attr.endswith('__'):
                attr = '_%s%s' % (self.cls.__name__.lstrip('_'), attr)
            try:
                obj = getattr(self.obj, attr)
            except Exception as e:
                raise Unsupported('self.%s: %s' % (n.attr, e))
            return k(const_to_val(obj, '%s.%s' % (self.cls.__name__, n.attr)))
        root = n
        while isinstance(root, ast.Attribute):
            root = root.value
        if isinstance(root, ast.Name) and root.id not in env and root.id in self.globals:
            self.last_ref = ast.unparse(n)
            return k(const_to_val(self.global_const(n), ast.unparse(n)))

        def on(v):
            if v[0] == 'py':
                try:
                    return k(const_to_val(getattr(v[1], n.attr), None))
                except Exception as e:
                    raise Unsupported('attribute %s: %s' % (n.attr, e))
            if v[0] == 'rec' and n.attr in v[2]:
                return k(v[3][v[2].index(n.attr)])
            raise Unsupported('attribute %s of a %s' % (n.attr, v[0]))
        return self.ev(n.value, env, on, depth)

    def ev_call(self, n, env, k, depth):
        f = n.func
        if n.keywords and not (isinstance(f, ast.Name) or isinstance(f, ast.Attribute)):
            raise Unsupported('keyword arguments')
        # any(<test> for o in <list>)
        if isinstance(f, ast.Name) and f.id in ('any', 'all') and f.id not in env:
            return self.ev_any(n, env, k, depth, f.id == 'all')
        if isinstance(f, ast.Name) and f.id == 'len' and len(n.args) == 1:
            return self.ev(n.args[0], env, lambda v: k(('int', ('len', want(v, 'str', 'len')))), depth)
        if isinstance(f, ast.Name) and f.id not in env:
            return self.ev_construct(n, self.global_const(f), f.id, env, k, depth)
        if isinstance(f, ast.Attribute):
            # self.method(...)
            if isinstance(f.value, ast.Name) and f.value.id == 'self':
                if f.attr in self.methods and not any(ast.unparse(d) == 'property' for d in self.methods[f.attr].decorator_list):
                    return self.inline(f.attr, n, env, k, depth)
                if f.attr in self.methods:
                    raise Unsupported('call of property %s' % f.attr)
            root = f
            while isinstance(root, ast.Attribute):
                root = root.value
            if isinstance(root, ast.Name) and root.id not in env and root.id != 'self' and root.id in self.globals:
                target = self.global_const(f)
                import regex
                if target in (regex.search, _re.search, regex.match, _re.match, regex.fullmatch, _re.fullmatch):
                    kind = {'search': 'reSearch', 'match': 'reMatch', 'fullmatch': 'reFull'}[f.attr]
                    if len(n.args) != 2 or n.keywords:
                        raise Unsupported('%s with flags' % ast.unparse(f))
                    return self.evs(n.args, env, lambda vs: k(('bool', (kind, self.reref(vs[0]), want(vs[1], 'str', f.attr)),
                                                                'match')), depth)
                if target in (regex.sub, _re.sub):
                    return self.evs(n.args, env, lambda vs: k(self.re_sub(vs)), depth)
                if inspect.isclass(target):
                    return self.ev_construct(n, target, ast.unparse(f), env, k, depth)
                if callable(target):
                    return self.evs(n.args, env, lambda vs: k(self.fold(target, ast.unparse(f), vs)), depth)
                raise Unsupported('call of %s' % ast.unparse(f))
            # method of a value
            return self.ev(f.value, env, lambda recv: self.evs(
                n.args, env, lambda vs: k(self.value_method(recv, f.attr, vs, n)), depth), depth)
        raise Unsupported('call of %s' % ast.unparse(f))

    def fold(self, target, name, vs):
        args = []
        for v in vs:
            if v[0] in ('str', 'int') and v[1][0] == 'lit':
                args.append(v[1][1])
            else:
                raise Unsupported('call of %s with a non-constant argument' % name)
        mod = getattr(target, '__module__', '') or ''
        if not mod.startswith('recognizers_date_time.date_time.utilities'):
            raise Unsupported('call of %s' % name)
        try:
            res = target(*args)
        except Exception as e:
            raise Unsupported('folding %s%r raised %s' % (name, tuple(args), e))
        self.folded.append('%s%r' % (name, tuple(args)))
        return const_to_val(res, None)

    def re_sub(self, vs):
        if len(vs) != 3:
            raise Unsupported('re.sub with %d arguments' % len(vs))
        pat, rep, s = vs
        if not (pat[0] == 'str' and pat[1][0] == 'lit' and rep == ('str', ('lit', '')) and s[0] == 'str'):
            raise Unsupported('re.sub of this shape')
        m = _re.fullmatch(r'\[((?:[^\\\]\[^-]|\\.)+)\]', pat[1][1])
        if not m:
            raise Unsupported('re.sub pattern %r' % pat[1][1])
        body = _re.sub(r'\\(.)', r'\1', m.group(1))
        if _re.search(r'\\[a-zA-Z0-9]', m.group(1)):
            raise Unsupported('re.sub pattern %r' % pat[1][1])
        return ('str', ('delChars', s[1], sorted(set(ord(c) for c in body))))

    def value_method(self, recv, name, vs, n):
        if n.keywords:
            raise Unsupported('keyword arguments of .%s' % name)
        if recv[0] == 'str':
            s = recv[1]
            if name == 'strip' and not vs:
                return ('str', ('strip', s))
            if name == 'lower' and not vs:
                return ('str', ('lower', s))
            if name == 'replace' and len(vs) == 2 and all(v[0] == 'str' and v[1][0] == 'lit' for v in vs):
                return ('str', ('replace', s, vs[0][1][1], vs[1][1][1]))
            if name in ('endswith', 'startswith') and len(vs) == 1 and vs[0][0] == 'str':
                return ('bool', ('endsWith' if name == 'endswith' else 'startsWith', s, vs[0][1]), 'bool')
            raise Unsupported('str.%s' % name)
        if recv[0] == 're':
            if name in ('search', 'match', 'fullmatch') and len(vs) == 1:
                kind = {'search': 'reSearch', 'match': 'reMatch', 'fullmatch': 'reFull'}[name]
                return ('bool', (kind, self.reref(recv), want(vs[0], 'str', name)), 'match')
            raise Unsupported('pattern.%s' % name)
        raise Unsupported('method .%s of a %s' % (name, recv[0]))

    def ev_any(self, n, env, k, depth, is_all=False):
        if len(n.args) != 1 or not isinstance(n.args[0], ast.GeneratorExp):
            raise Unsupported('any of this shape')
        g = n.args[0]
        if len(g.generators) != 1 or g.generators[0].ifs or not isinstance(g.generators[0].target, ast.Name):
            raise Unsupported('generator of this shape')
        var = g.generators[0].target.id
        e = g.elt

        def is_var(x):
            return isinstance(x, ast.Name) and x.id == var

        def with_list(lv):
            if lv[0] == 'str' and lv[1][0] == 'lit':
                # Python iterates over the characters of a str
                lv = ('strlist', list(lv[1][1]), (getattr(self, 'last_ref', None) or 'chars') + '_chars')
            if lv[0] != 'strlist':
                raise Unsupported('any over a %s' % lv[0])
            if is_all:
                return all_of(lv[1])
            lref = self.listref(lv)
            if isinstance(e, ast.Call) and isinstance(e.func, ast.Attribute) and e.func.attr in ('endswith', 'startswith') \
                    and len(e.args) == 1 and is_var(e.args[0]) and not e.keywords:
                kind = 'anyEnds' if e.func.attr == 'endswith' else 'anyStarts'
                return self.ev(e.func.value, env, lambda v: k(('bool', (kind, want(v, 'str', kind), lref), 'bool')), depth)
            if isinstance(e, ast.Call) and isinstance(e.func, ast.Attribute) and e.func.attr == '__contains__' \
                    and len(e.args) == 1 and is_var(e.args[0]) and not e.keywords:
                return self.ev(e.func.value, env, lambda v: k(('bool', ('anyIn', want(v, 'str', 'anyIn'), lref), 'bool')), depth)
            if isinstance(e, ast.Compare) and len(e.ops) == 1:
                a, b = e.left, e.comparators[0]
                if isinstance(e.ops[0], ast.Eq) and (is_var(a) != is_var(b)):
                    other = b if is_var(a) else a
                    return self.ev(other, env, lambda v: k(('bool', ('anyEq', want(v, 'str', 'anyEq'), lref), 'bool')), depth)
                if isinstance(e.ops[0], ast.In) and is_var(a) and not is_var(b):
                    return self.ev(b, env, lambda v: k(('bool', ('anyIn', want(v, 'str', 'anyIn'), lref), 'bool')), depth)
            raise Unsupported('any(%s ...)' % ast.unparse(e))
        def all_of(items):
            # all(<test(o)> for o in L): the conjunction over the (finite, constant) list
            if not items:
                return k(('bool', ('lit', True), 'bool'))

            def go(i, acc):
                if i == len(items):
                    be = acc[-1]
                    for t in reversed(acc[:-1]):
                        be = ('and', t, be)
                    return k(('bool', be, 'bool'))
                return self.ev(e, {**env, var: ('str', ('lit', items[i]))},
                               lambda v: go(i + 1, acc + [truth(v)[0]]), depth)
            return go(0, [])
        return self.ev(g.generators[0].iter, env, with_list, depth)

    def ev_construct(self, n, target, name, env, k, depth):
        if not inspect.isclass(target):
            raise Unsupported('call of %s' % name)
        mod = getattr(target, '__module__', '') or ''
        if not mod.startswith('recognizers_date_time'):
            raise Unsupported('construction of %s' % name)
        if hasattr(target, '_fields'):
            names = list(target._fields)
            defaults = dict(getattr(target, '_field_defaults', {}))
        else:
            sig = inspect.signature(target.__init__)
            ps = list(sig.parameters.values())[1:]
            names = [p.name for p in ps]
            defaults = {p.name: p.default for p in ps if p.default is not inspect.Parameter.empty}
            src = inspect.getsource(target.__init__)
            for nm in names:
                if not _re.search(r'self\.%s\s*=\s*%s\b' % (nm, nm), src):
                    raise Unsupported('%s.__init__ does not store %s as is' % (name, nm))
        if len(n.args) > len(names):
            raise Unsupported('too many arguments for %s' % name)
        kw = {}
        for kwd in n.keywords:
            if kwd.arg is None or kwd.arg not in names:
                raise Unsupported('keyword %s of %s' % (kwd.arg, name))
            kw[kwd.arg] = kwd.value
        nodes, slots = list(n.args), names[:len(n.args)]
        for nm in names[len(n.args):]:
            if nm in kw:
                nodes.append(kw[nm])
                slots.append(nm)

        def build(vs):
            got = dict(zip(slots, vs))
            vals = []
            for nm in names:
                if nm in got:
                    vals.append(got[nm])
                elif nm in defaults:
                    vals.append(const_to_val(defaults[nm], None))
                else:
                    raise Unsupported('%s: missing argument %s' % (name, nm))
            return k(('rec', target.__name__, names, vals))
        return self.evs(nodes, env, build, depth)

    def inline(self, mname, n, env, k, depth):
        if depth >= MAX_INLINE_DEPTH:
            raise Unsupported('call depth')
        fn = self.methods[mname]
        params = [a.arg for a in fn.args.args]
        if 'staticmethod' not in [ast.unparse(d) for d in fn.decorator_list]:
            params = params[1:]
        if n.keywords or len(n.args) != len(params):
            raise Unsupported('call of self.%s with other than positional arguments' % mname)

        def go(vs):
            return self.exec(fn.body, dict(zip(params, vs)), lambda e: k(('none',)), k, depth + 1)
        return self.evs(n.args, env, go, depth)


# ------------------------------------------------------------------ Lean text

def cps(s):
    return '[' + ', '.join(str(ord(c)) for c in s) + ']'


def lean_int(i):
    return str(i) if i >= 0 else '(%d)' % i


def lean_opt_int(i):
    return 'none' if i is None else '(some %s)' % lean_int(i)


def ident(s):
    return _re.sub(r'[^A-Za-z0-9_]', '_', s)


class Emitter:
    def __init__(self, short):
        self.short = short          # class name -> short prefix

    def re_name(self, ref):
        return 're_' + ident(self.shorten(ref))

    def list_name(self, ref):
        return 'list_' + ident(self.shorten(ref))

    def shorten(self, ref):
        head, _, tail = ref.partition('.')
        return (self.short.get(head, head) + '.' + tail) if tail else head

    def se(self, e):
        t = e[0]
        if t == 'arg':
            return '(.arg %d)' % e[1]
        if t == 'lit':
            return '(.lit %s)' % cps(e[1])
        if t in ('strip', 'lower'):
            return '(.%s %s)' % (t, self.se(e[1]))
        if t == 'replace':
            return '(.replace %s %s %s)' % (self.se(e[1]), cps(e[2]), cps(e[3]))
        if t == 'delChars':
            return '(.delChars %s [%s])' % (self.se(e[1]), ', '.join(str(c) for c in e[2]))
        if t == 'slice':
            return '(.slice %s %s %s)' % (self.se(e[1]), lean_opt_int(e[2]), lean_opt_int(e[3]))
        raise Unsupported('SE ' + t)

    def ie(self, e):
        t = e[0]
        if t == 'arg':
            return '(.arg %d)' % e[1]
        if t == 'lit':
            return '(.lit %s)' % lean_int(e[1])
        if t in ('add', 'sub', 'mul'):
            return '(.%s %s %s)' % (t, self.ie(e[1]), self.ie(e[2]))
        if t == 'neg':
            return '(.neg %s)' % self.ie(e[1])
        if t == 'len':
            return '(.len %s)' % self.se(e[1])
        raise Unsupported('IE ' + t)

    def lst(self, l):
        if l[0] == 'ref':
            return self.list_name(l[1])
        return '[' + ', '.join(cps(x) for x in l[1]) + ']'

    def be(self, e):
        t = e[0]
        if t == 'lit':
            return '(.lit %s)' % ('true' if e[1] else 'false')
        if t in ('eq', 'endsWith', 'startsWith', 'contains'):
            return '(.%s %s %s)' % (t, self.se(e[1]), self.se(e[2]))
        if t in ('inList', 'anyEq', 'anyEnds', 'anyStarts', 'anyIn'):
            return '(.%s %s %s)' % (t, self.se(e[1]), self.lst(e[2]))
        if t in ('reSearch', 'reMatch', 'reFull'):
            return '(.%s %s %s)' % (t, self.re_name(e[1]), self.se(e[2]))
        if t == 'nonEmpty':
            return '(.nonEmpty %s)' % self.se(e[1])
        if t == 'icmp':
            return '(.icmp .%s %s %s)' % (e[1], self.ie(e[2]), self.ie(e[3]))
        if t in ('and', 'or'):
            return '(.%s %s %s)' % (t, self.be(e[1]), self.be(e[2]))
        if t == 'not':
            return '(.not %s)' % self.be(e[1])
        raise Unsupported('BE ' + t)

    def fe(self, e):
        t = e[0]
        if t == 'int':
            return '(.int %s)' % self.ie(e[1])
        if t == 'bool':
            return '(.bool %s)' % self.be(e[1])
        if t == 'str':
            return '(.str %s)' % self.se(e[1])
        return '.none'

    def ve(self, e, ind):
        pad = '  ' * ind
        t = e[0]
        if t == 'ite':
            return '%s(.ite %s\n%s\n%s)' % (pad, self.be(e[1]), self.ve(e[2], ind + 1), self.ve(e[3], ind + 1))
        if t == 'ret':
            return '%s(.ret %s)' % (pad, self.fe(e[1]))
        return '%s(.record [%s])' % (pad, ', '.join(self.fe(f) for f in e[1]))


def short_class(culdir, name):
    s = name
    cap = culdir.capitalize()
    if s.startswith(cap):
        s = s[len(cap):]
    if s.endswith('Configuration'):
        s = s[:-len('Configuration')]
    return s or name


def words_of(tree, lists):
    """string literals and list items the conditions of a tree mention (for the correspondence inputs)"""
    out = []

    def se(e):
        if e[0] == 'lit':
            out.append(e[1])
        elif e[0] in ('strip', 'lower', 'replace', 'delChars', 'slice'):
            se(e[1])

    def be(e):
        t = e[0]
        if t in ('eq', 'endsWith', 'startsWith', 'contains'):
            se(e[1])
            se(e[2])
        elif t in ('inList', 'anyEq', 'anyEnds', 'anyStarts', 'anyIn'):
            out.extend(lists[e[2][1]] if e[2][0] == 'ref' else e[2][1])
        elif t in ('and', 'or'):
            be(e[1])
            be(e[2])
        elif t == 'not':
            be(e[1])

    def ve(e):
        if e[0] == 'ite':
            be(e[1])
            ve(e[2])
            ve(e[3])
        elif e[0] == 'ret':
            if e[1][0] == 'bool':
                be(e[1][1])
        else:
            for f in e[1]:
                if f[0] == 'bool':
                    be(f[1])
    ve(tree)
    seen, res = set(), []
    for w in out:
        if w not in seen:
            seen.add(w)
            res.append(w)
    return res


def regexes_of(tree):
    out = []

    def be(e):
        t = e[0]
        if t in ('reSearch', 'reMatch', 'reFull'):
            if e[1] not in out:
                out.append(e[1])
        elif t in ('and', 'or'):
            be(e[1])
            be(e[2])
        elif t == 'not':
            be(e[1])

    def ve(e):
        if e[0] == 'ite':
            be(e[1])
            ve(e[2])
            ve(e[3])
        elif e[0] == 'ret':
            if e[1][0] == 'bool':
                be(e[1][1])
        else:
            for f in e[1]:
                if f[0] == 'bool':
                    be(f[1])
    ve(tree)
    return out


def tree_size(e):
    return 1 + tree_size(e[2]) + tree_size(e[3]) if e[0] == 'ite' else 1


def translate_culture(arg):
    """child process: -> dict (JSON-like) for one culture"""
    culture, culdir = arg
    from . import regexes as rx
    inst = instances(culture, culdir)
    methods, unsupported, regs, lists, folded = [], [], {}, {}, []
    short = {}
    for cname in sorted(inst):
        short[cname] = short_class(culdir, cname)
    for cname in sorted(inst):
        obj = inst[cname]
        try:
            ct = ClassTranslator(culdir, type(obj), obj)
        except Exception as e:
            unsupported.append(('%s/%s' % (culdir, cname), 'class source not readable: %s' % e))
            continue
        for mname in ct.candidates():
            key = '%s/%s.%s' % (culdir, cname, mname)
            ct.regexes, ct.lists = {}, {}
            try:
                m = ct.translate(mname)
                # regexes must translate too
                rtrans = {}
                for ref, (pat, flags) in ct.regexes.items():
                    try:
                        text = _re.sub(r'\(\?P?<([A-Za-z_][A-Za-z0-9_]*)>', '(?:', pat)
                        rtrans[ref] = (pat, flags, rx.lean_re(rx.parse(text, flags)))
                    except rx.Unsupported as e:
                        raise Unsupported('regex %s: %s' % (ref, e))
                    except RecursionError:
                        raise Unsupported('regex %s: too deep' % ref)
            except Unsupported as e:
                unsupported.append((key, str(e)))
                continue
            except RecursionError:
                unsupported.append((key, 'recursion limit'))
                continue
            regs.update(rtrans)
            lists.update(ct.lists)
            methods.append({'key': key, 'cls': cname, 'name': mname, 'short': '%s_%s' % (short[cname], ident(mname.lstrip('_'))),
                            'params': m['params'], 'truthy': m['truthy'], 'fields': m['fields'], 'tree': m['tree'],
                            'words': words_of(m['tree'], ct.lists), 'regexes': regexes_of(m['tree']),
                            'size': tree_size(m['tree'])})
        folded += ct.folded
    # which regex the date-period parser configuration holds as its "previous" prefix: the resource's PreviousPrefixRegex
    # (what the date parser configuration and the extractors use) or something narrower (German / Italian before the fix)
    follows = True
    try:
        dp = next(v for k, v in inst.items() if k.endswith('DatePeriodParserConfiguration'))
        da = next(v for k, v in inst.items() if k.endswith('DateParserConfiguration') and not k.endswith('PeriodParserConfiguration'))
        a, b = getattr(dp, 'previous_prefix_regex', None), getattr(da, '_past_prefix_regex', None)
        if hasattr(a, 'pattern') and hasattr(b, 'pattern'):
            follows = a.pattern == b.pattern
    except StopIteration:
        pass
    return {'culture': culture, 'dir': culdir, 'short': short, 'methods': methods, 'unsupported': unsupported,
            'past_follows_previous': follows,
            'regexes': {k: list(v) for k, v in regs.items()}, 'lists': lists, 'folded': sorted(set(folded))}


_TABLES = {}


def tables():
    """-> [per culture dict], memoised per working tree + process"""
    key = os.path.realpath(common.REPO)
    if key not in _TABLES:
        ctx = multiprocessing.get_context('fork')
        with ctx.Pool(len(CULTURES)) as pool:
            _TABLES[key] = pool.map(translate_culture, CULTURES, chunksize=1)
    return _TABLES[key]


def module_name(culdir):
    return 'CultureCfg' + culdir.capitalize()


def culture_text(t):
    from . import regexes as rx
    em = Emitter(t['short'])
    ns = t['dir'].capitalize()
    text = HEADER % ('cultureconfig', 'the source text of date_time/%s/*_config.py and the objects of the %s model' % (t['dir'], t['culture']))
    text += 'import RTV.Model.CultureCfg\nset_option maxRecDepth 1000000\nnamespace RTV.Gen.CC.%s\nopen RTV.Re RTV.CultureCfg\n\n' % ns
    seen = {}
    for ref in sorted(t['regexes']):
        pat, flags, lean = t['regexes'][ref]
        nm = em.re_name(ref)
        text += '/-- %s (flags %d)\n    pattern: %s -/\n' % (ref, flags, pat.replace('-/', '- /').replace('/-', '/ -'))
        if (pat, flags) in seen:
            text += 'def %s : RE := %s\n\n' % (nm, seen[(pat, flags)])
        else:
            seen[(pat, flags)] = nm
            text += 'def %s : RE :=\n%s\n\n' % (nm, rx.wrap(lean))
    for ref in sorted(t['lists']):
        text += '/-- %s -/\ndef %s : List (List Nat) := [%s]\n\n' % (ref, em.list_name(ref), ', '.join(cps(x) for x in t['lists'][ref]))
    names = []
    for m in t['methods']:
        ns_, ni_ = sum(1 for _, ty in m['params'] if ty == 'str'), sum(1 for _, ty in m['params'] if ty == 'int')
        doc = '%s(%s)%s%s' % (m['key'], ', '.join('%s: %s' % p for p in m['params']),
                              ' — truth value only' if m['truthy'] else '',
                              (' — record ' + '/'.join(m['fields'])) if m['fields'] else '')
        text += '/-- %s -/\ndef %s : Method where\n  name := "%s"\n  nStr := %d\n  nInt := %d\n  truthy := %s\n  body :=\n%s\n\n' % (
            doc, m['short'], m['key'], ns_, ni_, 'true' if m['truthy'] else 'false', em.ve(m['tree'], 2))
        names.append(m['short'])
    text += ('/-- the date-period parser configuration\'s `previous_prefix_regex` is the pattern the date parser configuration holds '
             'as `_past_prefix_regex` (the resource\'s PreviousPrefixRegex); `true` when the culture has no such pair -/\n'
             'def pastPrefixFollowsPrevious : Bool := %s\n\n' % ('true' if t['past_follows_previous'] else 'false'))
    text += 'def methods : List Method := [%s]\n\n' % ', '.join(names)
    text += 'def unsupported : List (String × String) := [\n%s]\n\n' % ',\n'.join(
        '  ("%s", "%s")' % (k, _re.sub(r'["\\\n]', ' ', why)[:160]) for k, why in t['unsupported'])
    if t['folded']:
        text += '/- folded by calling the working tree: %s -/\n\n' % '; '.join(t['folded'])
    text += 'end RTV.Gen.CC.%s\n' % ns
    return text


def generate():
    ts = tables()
    out = []
    for t in ts:
        out.append((os.path.join(GEN, module_name(t['dir']) + '.lean'), culture_text(t)))
    idx = HEADER % ('cultureconfig', 'the culture configuration classes of the working tree')
    idx += ''.join('import RTV.Gen.%s\n' % module_name(t['dir']) for t in ts)
    idx += 'import RTV.Gen.CharTables\nimport RTV.Gen.ReTables\n'
    idx += 'namespace RTV.Gen.CC\nopen RTV.CultureCfg\n\n'
    idx += ('/-- the character tables of the running interpreter (`str.isspace`, `str.lower`) and of the `regex` engine -/\n'
            'def tabs : Tabs where\n'
            '  isSpace c := RTV.Py.inRangesArr RTV.Gen.spaceRanges c\n'
            '  lowerC c := RTV.Preprocess.lowerFull RTV.Gen.lowerPairs RTV.Gen.lowerExpanding c\n'
            '  re := RTV.Gen.reTables\n\n')
    idx += '/-- (culture, culture directory, translated methods) -/\n'
    idx += 'def cultures : List (String × String × List Method) := [\n%s]\n\n' % ',\n'.join(
        '  ("%s", "%s", %s.methods)' % (t['culture'], t['dir'], t['dir'].capitalize()) for t in ts)
    idx += 'def allMethods : Array Method := (cultures.flatMap fun c => c.2.2).toArray\n\n'
    idx += 'def allUnsupported : List (String × String) := %s\n\n' % ' ++ '.join(
        '%s.unsupported' % t['dir'].capitalize() for t in ts)
    idx += 'end RTV.Gen.CC\n'
    out.append((os.path.join(GEN, 'CultureCfg.lean'), idx))
    return out
