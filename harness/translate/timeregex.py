"""English time regexes (C07 front end): the compiled patterns `BaseTimeParser.parse_basic_regex_match` runs.

The real `EnglishTimeParserConfiguration` of the working tree is built (through the registered DateTimeModel, so it is the
very object the pipeline uses) and read: `at_regex`, `time_token_prefix`, the list `time_regexes` (TimeRegex1 … 11,
ConnectNumRegex — in the parser's order), the three description regexes `match_to_time` searches in the `desc` group
(`utility_configuration.am_desc_regex / pm_desc__regex / am_pm_desc_regex`).  Pattern text + flags of every entry are
translated to the `RE` AST of RTV/Model/Re.lean with the machinery of harness/translate/dateregex.py (duplicate group names
numbered BY NAME, IGNORECASE expanded, shared sub-terms emitted once); the tracked groups are the seventeen names
`match_to_time` reads (`TRACKED`), every other group (`lth`, `oclock`, `basictime`, `deltamin`, unnamed …) is number 0.

Also emitted: RTV/Gen/TimeLayoutsEn.lean — the layouts of the committed contract contracts/C07front.json as token lists
(Props/C07Front quantifies over this list).

RTV/Gen/TimeRegexEn.lean (namespace RTV.Gen.TimeRegexEn), RTV/Gen/TimeLayoutsEn.lean (RTV.Gen.TimeLayoutsEn)."""
import json
import os
import re

import regex

from lib import common
from lib.common import GEN
from . import dateregex as D
from . import regexes as R
from .leanfmt import HEADER

TRACKED = {'writtentime': 1, 'hournum': 2, 'minnum': 3, 'tens': 4, 'mid': 5, 'midnight': 6, 'midmorning': 7,
           'midafternoon': 8, 'midday': 9, 'hour': 10, 'min': 11, 'sec': 12, 'desc': 13, 'iam': 14, 'ipm': 15,
           'prefix': 16, 'suffix': 17}
GROUP_ORDER = [n for n, _ in sorted(TRACKED.items(), key=lambda kv: kv[1])]
NAMES = ['TimeRegex1', 'TimeRegex2', 'TimeRegex3', 'TimeRegex4', 'TimeRegex5', 'TimeRegex6', 'TimeRegex7', 'TimeRegex8',
         'TimeRegex9', 'TimeRegex10', 'TimeRegex11', 'ConnectNumRegex']
DESC = [('amDescRegex', 'am_desc_regex'), ('pmDescRegex', 'pm_desc__regex'), ('amPmDescRegex', 'am_pm_desc_regex')]


def parse(pattern, flags):
    """dateregex.parse with this module's tracked group names (its `_fix` reads the module global at call time)"""
    old = D.TRACKED
    D.TRACKED = TRACKED
    try:
        return D.parse(pattern, flags)
    finally:
        D.TRACKED = old


_collected = {}


def _entry(kind, idx, name, rx):
    pat = rx.pattern if hasattr(rx, 'pattern') else str(rx)
    flags = (rx.flags if hasattr(rx, 'flags') else 0) & (regex.I | regex.S | regex.M | regex.X)
    e = {'kind': kind, 'idx': idx, 'name': name, 'pattern': pat, 'flags': flags, 'groups': []}
    try:
        if flags & (regex.M | regex.X):
            raise R.Unsupported('flags %d' % flags)
        e['ast'], e['groups'] = parse(pat, flags)
        e['bin'] = D._binary(e['ast'])
    except R.Unsupported as u:
        e['unsupported'] = str(u)
        e.pop('ast', None)
    return e


def collect():
    """-> {'prefix', 'at': entry, 'entries': [entry], 'desc': [entry], 'cfg_class'}"""
    key = os.path.realpath(common.REPO)
    if key in _collected:
        return _collected[key]
    common.setup_repo_imports()
    from lib import recog
    model = recog.get_model('DateTime', 'DateTimeModel', 'en-us')
    cfg = model.parser.config.time_parser.config
    import recognizers_date_time
    common.assert_tree_modules(recognizers_date_time)
    regs = list(cfg.time_regexes)
    entries = [_entry('time', i, NAMES[i] if len(regs) == len(NAMES) else 'time_regexes[%d]' % i, rx) for i, rx in enumerate(regs)]
    at = _entry('at', 0, 'AtRegex', cfg.at_regex)
    uc = cfg.utility_configuration
    desc = [_entry('desc', i, attr, getattr(uc, attr)) for i, (_, attr) in enumerate(DESC)]
    out = {'prefix': cfg.time_token_prefix, 'at': at, 'entries': entries, 'desc': desc, 'cfg_class': type(cfg).__name__}
    _collected[key] = out
    return out


def generate():
    data = collect()
    src = "the English time parser configuration of the working tree (regex %s)" % regex.__version__
    t = HEADER % ('timeregex', src)
    t += 'import RTV.Model.Re\nset_option maxRecDepth 1000000\nnamespace RTV.Gen.TimeRegexEn\nopen RTV.Re\n\n'
    every = [data['at']] + data['entries'] + data['desc']
    em = D.Emitter([e['bin'] for e in every if 'bin' in e], prefix='t')
    tops = [(e, em.term(e['bin'], top=True)) for e in every if 'bin' in e]
    t += '/-! shared sub-regexes (each occurs at least twice in the patterns) -/\n\n'
    for name, body in em.defs:
        t += 'def %s : RE :=\n%s\n\n' % (name, R.wrap(body))

    def lname(e):
        if e['kind'] == 'at':
            return 'atRegexRE'
        if e['kind'] == 'desc':
            return DESC[e['idx']][0] + 'RE'
        return 'timeRegex%d' % e['idx']
    for e, body in tops:
        t += '/-- %s: %s, flags %d; groups: %s\n    pattern: %s -/\ndef %s : RE :=\n%s\n\n' % (
            data['cfg_class'], e['name'], e['flags'], ', '.join(e['groups']), D._doc(e['pattern']), lname(e), R.wrap(body))

    def opt(e):
        return ('some %s' % lname(e)) if 'bin' in e else 'none'
    t += '/-- `at_regex`; `none` = outside the translator (see `unsupported`) -/\ndef atRegex : Option RE := %s\n\n' % opt(data['at'])
    t += '/-- the list `time_regexes` in the parser\'s order -/\n'
    t += 'def timeRegexes : List (Option RE) := [%s]\n\n' % ', '.join(opt(e) for e in data['entries'])
    for (ln, attr), e in zip(DESC, data['desc']):
        t += '/-- `utility_configuration.%s` -/\ndef %s : Option RE := %s\n\n' % (attr, ln, opt(e))
    t += '/-- patterns outside the supported subset: (name, reason) -/\n'
    t += 'def unsupported : List (String × String) := [%s]\n\n' % ', '.join(
        '("%s", "%s")' % (e['name'], e['unsupported'].replace('\\', '\\\\').replace('"', "'")) for e in every if 'unsupported' in e)
    t += '/-- `time_token_prefix` -/\ndef timeTokenPrefix : List Nat := [%s]\n\n' % ', '.join(str(ord(c)) for c in data['prefix'])
    t += '/-- numbers of the named groups `match_to_time` reads; every other group is number 0 -/\n'
    for nm in GROUP_ORDER:
        t += 'def g_%s : Nat := %d\n' % (nm, TRACKED[nm])
    t += '\nend RTV.Gen.TimeRegexEn\n'
    return [(os.path.join(GEN, 'TimeRegexEn.lean'), t), (os.path.join(GEN, 'TimeLayoutsEn.lean'), layouts_text())]


TOKS = {'H': '.H', 'h': '.H', 'HH': '.HH', 'MM': '.MM', 'SS': '.SS'}


def load_contract():
    with open(os.path.join(common.VERIF, 'contracts', 'C07front.json'), encoding='utf-8') as f:
        return json.load(f)


def layout_tokens(row):
    """row of the contract -> Lean token list text: clock tokens, blank(s), one `.desc` token (None for an unknown placeholder)"""
    out = []
    for m in re.finditer(r'\{(\w+)\}|(.)', row['clock'] + row['sep'], flags=re.S):
        if m.group(1):
            if m.group(1) not in TOKS:
                return None
            out.append(TOKS[m.group(1)])
        else:
            out.append('.lit %d' % ord(m.group(2)))
    if row['desc']:
        out.append('.desc [%s]' % ', '.join(str(ord(c)) for c in row['desc']))
    return out


def render(row, h, m, s):
    """the text of a time in a layout of the contract (what `RTV.TimeFront.renderT` computes)"""
    return row['template'].format(H=h, h=h, HH='%02d' % h, MM='%02d' % m, SS='%02d' % s)


def layouts_text():
    c = load_contract()
    t = HEADER % ('timeregex', 'contracts/C07front.json (layouts of en-us)')
    t += 'import RTV.Model.TimeFront\nnamespace RTV.Gen.TimeLayoutsEn\nopen RTV.TimeFront\n\n'
    names = []
    for i, row in enumerate(c['layouts']['en-us']):
        toks = layout_tokens(row)
        assert row['template'] == row['clock'] + row['sep'] + row['desc'], row
        if toks is None:
            t += '-- layout %d: %s — placeholder outside the token set\n\n' % (i, row['template'])
            continue
        des = row['designator']
        t += '/-- `%s` (%s), hours %d..%d -/\ndef layout%d : Layout :=\n  { toks := [%s], lo := %d, hi := %d, am := %s, pm := %s }\n\n' % (
            row['template'], row['family'], row['hours'][0], row['hours'][1], i, ', '.join(toks), row['hours'][0], row['hours'][1],
            'true' if des == 'am' else 'false', 'true' if des == 'pm' else 'false')
        names.append('layout%d' % i)
    t += '/-- every English layout of the contract -/\ndef layoutsEn : List Layout := [%s]\n\n' % ', '.join(names)
    t += 'end RTV.Gen.TimeLayoutsEn\n'
    return t
