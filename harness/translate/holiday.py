"""Holiday date functions of every BaseHolidayParser culture, translated from the SOURCE TEXT of the working tree
(`ast`): `_init_holiday_funcs` of BaseHolidayParserConfiguration and of each culture's configuration class gives
key -> function name (the culture's `local` dict overrides the base dict, base insertion order first, exactly what
`{**super()._init_holiday_funcs(), **local}` builds), and the body of each function is classified into

  fixed mo d            `return datetime(year, mo, d)`
  nth mo mi k dow       `return datetime(year, mo, <Cls>.get_day(year, mi, k, DayOfWeek.X))`
  last mo mi dow        `return datetime(year, mo, <Cls>.get_last_day(year, mi, DayOfWeek.X))`
  minValue              `return DateUtils.min_value`
  opaque                anything else (e.g. the Spanish Easter computation) — no theorem covers it

`get_day` / `get_last_day` themselves are checked to still have the shape the Lean model `RTV.Holiday.getDay` mirrors
(`getDayShape`).  The variable-holiday TIMEX dictionary is read from the constructed configuration objects.  The unit
correspondence of C11 compares `Fn.eval` with the real function object for every key and every year 1..9999."""
import ast
import os

from lib import common
from lib.common import GEN
from .leanfmt import lean_list, lean_str_cps, HEADER

DT = 'Python/libraries/recognizers-date-time/recognizers_date_time/date_time'
CULTURES = [('en-us', 'english'), ('es-es', 'spanish'), ('fr-fr', 'french'), ('pt-br', 'portuguese'), ('it-it', 'italian'),
            ('de-de', 'german'), ('nl-nl', 'dutch')]


def _parse(rel):
    with open(os.path.join(common.REPO, rel), encoding='utf-8') as f:
        return ast.parse(f.read())


def _class(tree, suffix):
    for n in tree.body:
        if isinstance(n, ast.ClassDef) and n.name.endswith(suffix):
            return n
    return None


def _methods(cls):
    return {n.name: n for n in cls.body if isinstance(n, ast.FunctionDef)}


def _const_value(node, constants):
    """key expression of a dict entry: a string literal or Constants.NAME"""
    if isinstance(node, ast.Constant) and isinstance(node.value, str):
        return node.value
    if isinstance(node, ast.Attribute) and isinstance(node.value, ast.Name) and node.value.id == 'Constants':
        return getattr(constants, node.attr, None)
    return None


def _init_entries(fn, constants):
    """[(key, function name)] of the first `dict([...])` in `_init_holiday_funcs`, in source order"""
    out = []
    for n in ast.walk(fn):
        if isinstance(n, ast.Call) and isinstance(n.func, ast.Name) and n.func.id == 'dict' and n.args and \
                isinstance(n.args[0], ast.List):
            for e in n.args[0].elts:
                if isinstance(e, ast.Tuple) and len(e.elts) == 2 and isinstance(e.elts[1], ast.Attribute):
                    k = _const_value(e.elts[0], constants)
                    out.append((k, e.elts[1].attr))
                else:
                    out.append((None, ast.unparse(e)))
            break
    return out


def _int(node):
    if isinstance(node, ast.Constant) and isinstance(node.value, int) and not isinstance(node.value, bool):
        return node.value
    if isinstance(node, ast.UnaryOp) and isinstance(node.op, ast.USub) and isinstance(node.operand, ast.Constant) and \
            isinstance(node.operand.value, int):
        return -node.operand.value
    return None


def _is_year(node):
    return isinstance(node, ast.Name) and node.id == 'year'


def _dow(node, dayofweek):
    if isinstance(node, ast.Attribute) and isinstance(node.value, ast.Name) and node.value.id == 'DayOfWeek':
        v = getattr(dayofweek, node.attr, None)
        return int(v) if v is not None else None
    return None


def classify(fn, dayofweek):
    """FunctionDef -> ('fixed', mo, d) | ('nth', mo, mi, k, dow) | ('last', mo, mi, dow) | ('minValue',) | ('opaque', text)"""
    body = [s for s in fn.body if not (isinstance(s, ast.Expr) and isinstance(s.value, ast.Constant))]
    args = [a.arg for a in fn.args.args]
    if len(body) != 1 or not isinstance(body[0], ast.Return) or args != ['year']:
        return ('opaque', ast.unparse(fn)[:200])
    e = body[0].value
    if isinstance(e, ast.Attribute) and e.attr == 'min_value' and isinstance(e.value, ast.Name) and e.value.id == 'DateUtils':
        return ('minValue',)
    if isinstance(e, ast.Call) and isinstance(e.func, ast.Name) and e.func.id == 'datetime' and len(e.args) == 3 and \
            not e.keywords and _is_year(e.args[0]):
        mo = _int(e.args[1])
        d = e.args[2]
        if mo is not None and _int(d) is not None:
            return ('fixed', mo, _int(d))
        if mo is not None and isinstance(d, ast.Call) and isinstance(d.func, ast.Attribute) and not d.keywords:
            if d.func.attr == 'get_day' and len(d.args) == 4 and _is_year(d.args[0]):
                mi, k, w = _int(d.args[1]), _int(d.args[2]), _dow(d.args[3], dayofweek)
                if None not in (mi, k, w):
                    return ('nth', mo, mi, k, w)
            if d.func.attr == 'get_last_day' and len(d.args) == 3 and _is_year(d.args[0]):
                mi, w = _int(d.args[1]), _dow(d.args[2], dayofweek)
                if None not in (mi, w):
                    return ('last', mo, mi, w)
    return ('opaque', ast.unparse(e)[:200])


GET_DAY_SRC = ("calendar = Calendar()\n"
               "return [d for d in calendar.itermonthdays2(year, month) if d[0] and d[1] == day_of_week - 1][week][0]")
GET_LAST_DAY_SRC = "return BaseHolidayParserConfiguration.get_day(year, month, -1, day_of_week)"


def _body_text(fn):
    return '\n'.join(ast.unparse(s) for s in fn.body if not (isinstance(s, ast.Expr) and isinstance(s.value, ast.Constant)))


def tables():
    """-> (rows per culture, get_day shape ok?, notes)   rows: [(key, fname, classification)]"""
    common.setup_repo_imports()
    from recognizers_date_time.date_time.constants import Constants
    from recognizers_date_time.date_time.utilities import DayOfWeek
    base_tree = _parse(DT + '/base_holiday.py')
    base_cls = _class(base_tree, 'BaseHolidayParserConfiguration')
    base_m = _methods(base_cls)
    shape_ok = ('get_day' in base_m and 'get_last_day' in base_m and
                _body_text(base_m['get_day']) == GET_DAY_SRC and _body_text(base_m['get_last_day']) == GET_LAST_DAY_SRC and
                [a.arg for a in base_m['get_day'].args.args] == ['year', 'month', 'week', 'day_of_week'] and
                [a.arg for a in base_m['get_last_day'].args.args] == ['year', 'month', 'day_of_week'])
    base_entries = _init_entries(base_m['_init_holiday_funcs'], Constants) if '_init_holiday_funcs' in base_m else []
    out = {}
    for cul, pkg in CULTURES:
        tree = _parse('%s/%s/holiday_parser_config.py' % (DT, pkg))
        cls = _class(tree, 'HolidayParserConfiguration')
        cm = _methods(cls) if cls else {}
        local = _init_entries(cm['_init_holiday_funcs'], Constants) if '_init_holiday_funcs' in cm else []
        merged = {}
        for k, fname in base_entries:
            merged[k] = (fname, 'base')
        for k, fname in local:
            merged[k] = (fname, 'local')
        rows = []
        for k, (fname, where) in merged.items():
            # Python resolves `<Culture>Configuration.f` through the MRO: the culture class first, then the base class;
            # `BaseHolidayParserConfiguration.f` (base dict) is the base class's own function
            fn = (cm.get(fname) if where == 'local' else None) or base_m.get(fname)
            cl = classify(fn, DayOfWeek) if fn is not None else ('opaque', 'unresolved function ' + str(fname))
            rows.append((k, fname, cl))
        out[cul] = rows
    return out, shape_ok


def timex_dicts():
    from lib import recog
    res = {}
    for cul, _ in CULTURES:
        m = recog.get_model('DateTime', 'DateTimeModel', cul)
        cfg = m.parser.config.holiday_parser.config
        res[cul] = list(cfg.variable_holidays_timex_dictionary.items())
    return res


def _fn(cl):
    if cl[0] == 'fixed':
        return '.fixed %d %d' % (cl[1], cl[2])
    if cl[0] == 'nth':
        k = cl[3]
        return '.nth %d %d (%s) %d' % (cl[1], cl[2], str(k) if k >= 0 else str(k), cl[4])
    if cl[0] == 'last':
        return '.last %d %d %d' % (cl[1], cl[2], cl[3])
    if cl[0] == 'minValue':
        return '.minValue'
    return '.unknown'


def generate():
    rows, shape_ok = tables()
    td = timex_dicts()
    text = HEADER % ('holiday', 'the source text of base_holiday.py and <culture>/holiday_parser_config.py')
    text += 'import RTV.Model.Holiday\nset_option maxRecDepth 1000000\nnamespace RTV.Gen\nopen RTV.Holiday\n\n'
    text += '/-- `get_day` / `get_last_day` of BaseHolidayParserConfiguration still read as the text `RTV.Holiday.getDay` mirrors -/\n'
    text += 'def getDayShape : Bool := %s\n\n' % ('true' if shape_ok else 'false')
    names = []
    for cul, _ in CULTURES:
        nm = cul.replace('-', '_')
        names.append((cul, nm))
        items = []
        for k, fname, cl in rows[cul]:
            cmt = (' -- %s' % fname) + ((': ' + cl[1].replace('\n', ' ')) if cl[0] == 'opaque' else '')
            items.append(('(%s, %s)' % (lean_str_cps(k if k is not None else '?'), _fn(cl)), cmt))
        text += '/-- holiday_func_dictionary of %s (key, function), dict order -/\n' % cul
        text += 'def holidayFuncs_%s : List (List Nat × Fn) := [\n' % nm
        text += ',\n'.join('  %s' % it for it, _ in items) + ']\n'
        text += '/- functions: ' + '; '.join('%s=%s' % (k, f) for k, f, _ in rows[cul]) + ' -/\n\n'
        text += 'def holidayTimex_%s : List (List Nat × List Nat) := %s\n\n' % (nm, lean_list(
            ['(%s, %s)' % (lean_str_cps(k), lean_str_cps(v)) for k, v in td[cul]], per_line=1))
    text += 'def holidayCultures : List (List Nat × List (List Nat × Fn) × List (List Nat × List Nat)) := %s\n\n' % lean_list(
        ['(%s, holidayFuncs_%s, holidayTimex_%s)' % (lean_str_cps(c), n, n) for c, n in names], per_line=1)
    text += 'end RTV.Gen\n'
    return [(os.path.join(GEN, 'Holiday.lean'), text)]
