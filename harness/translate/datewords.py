"""The committed word contract /verif/contracts/C06words.json (what the month / day WORDS of each culture mean; written by
hand, independent of the tree under verification) as Lean tables: RTV/Gen/DateWords.lean.

Per culture tag four lists of (word as code points, meaning): `monthRequired_<tag>`, `monthPinned_<tag>`,
`dayRequired_<tag>`, `dayPinned_<tag>` (empty where the contract says nothing). Props/C06.lean states, against the tree's
regenerated `monthOfYear_<tag>` / `dayOfMonth_<tag>` (RTV/Gen/DtMaps*), that every required word is a key with that
meaning and every pinned word that is a key has that meaning. Nothing here reads /repo."""
import json
import os

from lib import common
from lib.common import GEN
from .leanfmt import lean_list, lean_str_cps, HEADER

CONTRACT = os.path.join(common.VERIF, 'contracts', 'C06words.json')
TAGS = [('en-us', 'en'), ('es-es', 'es'), ('es-mx', 'esmx'), ('fr-fr', 'fr'), ('pt-br', 'pt'),
        ('it-it', 'it'), ('de-de', 'de'), ('nl-nl', 'nl'), ('zh-cn', 'zh')]
SECTIONS = [('month_required', 'monthRequired'), ('month_pinned', 'monthPinned'),
            ('day_required', 'dayRequired'), ('day_pinned', 'dayPinned')]


def load():
    with open(CONTRACT, encoding='utf-8') as f:
        c = json.load(f)
    known = {cul for cul, _ in TAGS}
    for sec, _ in SECTIONS:
        for cul, words in c[sec].items():
            if cul not in known:
                raise RuntimeError('C06words.json %s: unknown culture %r' % (sec, cul))
            for w, n in words.items():
                if not isinstance(n, int) or isinstance(n, bool) or not (1 <= n <= 31) or not w or w != w.lower():
                    raise RuntimeError('C06words.json %s[%s]: bad entry %r: %r' % (sec, cul, w, n))
    for kind in ('month', 'day'):            # a word cannot be required with one meaning and pinned with another
        for cul, _ in TAGS:
            req, pin = c[kind + '_required'].get(cul, {}), c[kind + '_pinned'].get(cul, {})
            for w in set(req) & set(pin):
                if req[w] != pin[w]:
                    raise RuntimeError('C06words.json: %s word %r of %s has two meanings' % (kind, w, cul))
    # the month names / English abbreviations the layout contract contracts/C06.json renders with are required words
    with open(os.path.join(common.VERIF, 'contracts', 'C06.json'), encoding='utf-8') as f:
        layouts = json.load(f)
    for key in ('months', 'abbr'):
        for cul, lst in layouts.get(key, {}).items():
            for i, w in enumerate(lst):
                if c['month_required'].get(cul, {}).get(w) != i + 1:
                    raise RuntimeError('contracts/C06.json %s[%s][%d] = %r is not a required word of C06words.json with '
                                       'meaning %d' % (key, cul, i, w, i + 1))
    return c


def generate():
    c = load()
    t = HEADER % ('datewords', 'contracts/C06words.json (committed word contract; independent of the working tree)')
    t += 'set_option maxRecDepth 1000000\nnamespace RTV.Gen.DateWords\n\n'
    for sec, lean in SECTIONS:
        for cul, tag in TAGS:
            words = c[sec].get(cul, {})
            doc = '%s of %s: %s' % (sec, cul, ' '.join('%s=%d' % (w, n) for w, n in words.items()) or '(none)')
            doc = doc.replace('-/', '- /').replace('/-', '/ -')
            body = lean_list(['(%s, %d)' % (lean_str_cps(w), n) for w, n in words.items()], per_line=4)
            t += '/-- %s -/\ndef %s_%s : List (List Nat × Nat) := %s\n\n' % (doc, lean, tag, body)
    t += 'end RTV.Gen.DateWords\n'
    return [(os.path.join(GEN, 'DateWords.lean'), t)]
