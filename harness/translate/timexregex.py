"""TimexRegex of the working tree -> RTV/Gen/TimexRegex.lean.

The pattern texts of `datatypes_timex_expression/timex_regex.py` (read from the compiled objects in
`TimexRegex.timexRegex`, i.e. what the code would use) are parsed with CPython's own `re._parser` and emitted as
`List Item` for the model's matcher (RTV/Model/TimexRe.lean).  A pattern that is not `^ item* $` with items
literal / named group of n `\\d` / named alternation of literal strings / `(?P<amount>\\d*\\.?\\d+)` followed by a
non-digit non-dot is refused (translator error -> proof problem): the matcher would not be faithful for it.
Also emitted: the raw pattern texts (code points) and the zero digits of the Unicode Nd blocks of the running
interpreter (`\\d`, `int()` and `Decimal()` accept exactly category Nd; each block is checked to be 0..9)."""
import importlib.util
import os
import re
import sys
import unicodedata

from lib.common import GEN, REPO
from .leanfmt import lean_list, HEADER

try:
    import re._parser as sre_parse
    import re._constants as sre_c
except ImportError:  # < 3.11
    import sre_parse
    import sre_constants as sre_c

FIELD = {'year': 'year', 'month': 'month', 'day_of_month': 'dayOfMonth', 'day_of_week': 'dayOfWeek',
         'season': 'season', 'week_of_year': 'weekOfYear', 'weekend': 'weekend', 'week_of_month': 'weekOfMonth',
         'hour': 'hour', 'minute': 'minute', 'second': 'second', 'part_of_day': 'partOfDay', 'amount': 'amount',
         'date_unit': 'dateUnit', 'time_unit': 'timeUnit'}

SRC = os.path.join(REPO, 'Python', 'libraries', 'datatypes-timex-expression', 'datatypes_timex_expression',
                   'timex_regex.py')


def load_tree_patterns():
    spec = importlib.util.spec_from_file_location('_verif_timex_regex', SRC)
    mod = importlib.util.module_from_spec(spec)
    spec.loader.exec_module(mod)
    table = mod.TimexRegex.timexRegex
    out = {}
    for k in ('date', 'time', 'period'):
        out[k] = []
        for p in table[k]:
            if p.flags & ~re.UNICODE:
                raise ValueError('pattern %r compiled with flags %r' % (p.pattern, p.flags))
            out[k].append(p.pattern)
    extra = [k for k in table if k not in out]
    if extra:
        raise ValueError('unexpected pattern families %r' % extra)
    return out


def is_digit_class(op, av):
    return op is sre_c.IN and list(av) == [(sre_c.CATEGORY, sre_c.CATEGORY_DIGIT)]


def lit_seq(seq):
    """a sequence of LITERALs -> str or None"""
    s = ''
    for op, av in seq:
        if op is not sre_c.LITERAL:
            return None
        s += chr(av)
    return s


def is_amount(seq):
    seq = list(seq)
    if len(seq) != 3:
        return False
    (o1, a1), (o2, a2), (o3, a3) = seq
    if not (o1 is sre_c.MAX_REPEAT and o2 is sre_c.MAX_REPEAT and o3 is sre_c.MAX_REPEAT):
        return False
    ok1 = a1[0] == 0 and a1[1] == sre_c.MAXREPEAT and len(a1[2]) == 1 and is_digit_class(*a1[2][0])
    ok2 = a2[0] == 0 and a2[1] == 1 and lit_seq(a2[2]) == '.'
    ok3 = a3[0] == 1 and a3[1] == sre_c.MAXREPEAT and len(a3[2]) == 1 and is_digit_class(*a3[2][0])
    return ok1 and ok2 and ok3


def cps(s):
    return '[' + ', '.join(str(ord(c)) for c in s) + ']'


def translate_pattern(text):
    parsed = sre_parse.parse(text)
    names = {v: k for k, v in parsed.state.groupdict.items()}
    seq = list(parsed)
    if not seq or seq[0] != (sre_c.AT, sre_c.AT_BEGINNING) or seq[-1] != (sre_c.AT, sre_c.AT_END):
        raise ValueError('pattern %r is not anchored ^...$' % text)
    items = []
    body = seq[1:-1]
    for idx, (op, av) in enumerate(body):
        if op is sre_c.LITERAL:
            items.append('.lit %d' % av)
        elif op is sre_c.SUBPATTERN:
            group, add_flags, del_flags, sub = av
            if group not in names or add_flags or del_flags:
                raise ValueError('pattern %r: unnamed or flagged group' % text)
            name = names[group]
            if name not in FIELD:
                raise ValueError('pattern %r: unknown group name %r' % (text, name))
            f = '.' + FIELD[name]
            sub = list(sub)
            if sub and all(is_digit_class(o, a) for o, a in sub):
                items.append('.digits %s %d' % (f, len(sub)))
            elif is_amount(sub):
                if name != 'amount':
                    raise ValueError('pattern %r: amount shape under the name %r' % (text, name))
                nxt = body[idx + 1] if idx + 1 < len(body) else None
                if nxt is None:
                    raise ValueError('pattern %r: amount group at the end' % text)
                items.append('.amount')
                items.append(('CHECK_NEXT', text))
            elif len(sub) == 1 and sub[0][0] is sre_c.BRANCH:
                alts = [lit_seq(a) for a in sub[0][1][1]]
                if any(a is None or a == '' for a in alts):
                    raise ValueError('pattern %r: alternation of non-literals' % text)
                items.append('.alts %s [%s]' % (f, ', '.join(cps(a) for a in alts)))
            elif len(sub) == 1 and sub[0][0] is sre_c.IN and all(o is sre_c.LITERAL for o, _ in sub[0][1]):
                alts = [chr(a) for _, a in sub[0][1]]
                items.append('.alts %s [%s]' % (f, ', '.join(cps(a) for a in alts)))
            elif lit_seq(sub):
                items.append('.alts %s [%s]' % (f, cps(lit_seq(sub))))
            else:
                raise ValueError('pattern %r: group %r has an unsupported shape' % (text, name))
        else:
            raise ValueError('pattern %r: unsupported construct %r' % (text, op))
    # the amount group must be followed by something that starts with neither a digit nor '.'
    out = []
    for i, it in enumerate(items):
        if isinstance(it, tuple):
            nxt = items[i + 1] if i + 1 < len(items) else None
            firsts = None
            if isinstance(nxt, str) and nxt.startswith('.lit '):
                firsts = [int(nxt.split()[1])]
            elif isinstance(nxt, str) and nxt.startswith('.alts '):
                firsts = [int(m) for m in re.findall(r'\[(\d+)', nxt[nxt.index('['):])]
            if not firsts or any(unicodedata.category(chr(c)) == 'Nd' or c == 46 for c in firsts):
                raise ValueError('pattern %r: what follows the amount group may start with a digit or dot' % it[1])
            continue
        out.append(it)
    return out


def nd_zeros():
    zeros = []
    count = 0
    for c in range(0x110000):
        if 0xD800 <= c <= 0xDFFF:
            continue
        ch = chr(c)
        if unicodedata.category(ch) == 'Nd':
            count += 1
            if unicodedata.decimal(ch) == 0:
                zeros.append(c)
    for z in zeros:
        for k in range(10):
            ch = chr(z + k)
            if unicodedata.category(ch) != 'Nd' or unicodedata.decimal(ch) != k or int(ch) != k:
                raise ValueError('Nd block at %x is not 0..9' % z)
    if count != 10 * len(zeros):
        raise ValueError('Nd code points outside the ten-digit blocks')
    return zeros


PKG = os.path.dirname(SRC)


def creator_constants():
    """class-level string constants of TimexCreator, read from the source text with `ast` (the module itself
    cannot be imported without the package)."""
    import ast
    tree = ast.parse(open(os.path.join(PKG, 'timex_creator.py'), encoding='utf-8').read())
    out = {}
    for node in ast.walk(tree):
        if isinstance(node, ast.ClassDef) and node.name == 'TimexCreator':
            for st in node.body:
                tgt = val = None
                if isinstance(st, ast.AnnAssign) and isinstance(st.target, ast.Name):
                    tgt, val = st.target.id, st.value
                elif isinstance(st, ast.Assign) and len(st.targets) == 1 and isinstance(st.targets[0], ast.Name):
                    tgt, val = st.targets[0].id, st.value
                if tgt and isinstance(val, ast.Constant) and isinstance(val.value, str):
                    out[tgt] = val.value
    return out


def days_constants():
    spec = importlib.util.spec_from_file_location('_verif_timex_constants', os.path.join(PKG, 'timex_constants.py'))
    mod = importlib.util.module_from_spec(spec)
    spec.loader.exec_module(mod)
    return mod.Constants.DAYS


# patterns of the last run that the flat matcher cannot express: (family, text, reason)
UNTRANSLATED = []
# an item no string can match: code points end at 0x10FFFF
NEVER = '[.lit 1114112]'


def generate():
    pats = load_tree_patterns()
    del UNTRANSLATED[:]
    text = HEADER % ('timexregex', 'datatypes_timex_expression/timex_regex.py + CPython %s unicodedata' %
                     sys.version.split()[0])
    text += 'import RTV.Model.TimexRe\nset_option maxRecDepth 100000\nnamespace RTV.Gen.TimexRegex\nopen RTV.Timex\n\n'
    for k in ('date', 'time', 'period'):
        rows = []
        for p in pats[k]:
            # A pattern outside the flat shape must not stop the check: it is emitted as a pattern that never matches
            # (so the model keeps following every other pattern), listed in `untranslated`, and `genCfg_ok` fails on
            # it; the property oracles of the check (field grid, corpus, tree grammar) then look for a failing input.
            try:
                rows.append('[' + ', '.join(translate_pattern(p)) + ']')
            except Exception as e:  # noqa
                UNTRANSLATED.append((k, p, '%s: %s' % (type(e).__name__, e)))
                rows.append(NEVER)
        text += '/-- `TimexRegex.timexRegex[%r]` -/\n' % k
        text += 'def %sPatterns : List (List Item) := %s\n\n' % (k, lean_list(rows, per_line=1))
    allp = [p for k in ('date', 'time', 'period') for p in pats[k]]
    text += '/-- the pattern texts as they stand in the working tree (code points), in the order date, time, period -/\n'
    text += 'def patternTexts : List (List Nat) := %s\n\n' % lean_list([cps(p) for p in allp], per_line=1)
    text += '/-- pattern texts the translator could not express as `Item` lists (emitted as never-matching patterns) -/\n'
    text += 'def untranslated : List (List Nat) := %s\n\n' % lean_list([cps(p) for _, p, _ in UNTRANSLATED], per_line=1)
    text += '/-- zero digits of the Unicode Nd blocks of the running interpreter -/\n'
    text += 'def ndZeros : List Nat := %s\n\n' % lean_list([str(z) for z in nd_zeros()], per_line=12)
    cc = creator_constants()
    for name in ('DAYTIME', 'MORNING', 'AFTERNOON', 'EVENING', 'NIGHT', 'MONDAY', 'TUESDAY', 'WEDNESDAY', 'THURSDAY',
                 'FRIDAY', 'SATURDAY', 'SUNDAY'):
        text += '/-- `TimexCreator.%s` = %r -/\ndef creator%s : List Nat := %s\n' % (
            name, cc[name], name.capitalize(), cps(cc[name]))
    days = days_constants()
    for name in ('MONDAY', 'TUESDAY', 'WEDNESDAY', 'THURSDAY', 'FRIDAY', 'SATURDAY', 'SUNDAY'):
        text += '/-- `Constants.DAYS[%r]` -/\ndef days%s : Int := %d\n' % (name, name.capitalize(), days[name])
    text += '\nend RTV.Gen.TimexRegex\n'
    return [(os.path.join(GEN, 'TimexRegex.lean'), text)]
