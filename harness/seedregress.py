#!/usr/bin/env python3
"""seedregress.py [--tier quick|thorough] [ids...]   (default: every directory under /verif/seeded)

Re-runs the stored seeded changes (seeded/<id>/patch.diff) against the CURRENT checks: for each one a scratch worktree of
/repo HEAD under /tmp/seedreg/wt, the patch applied, `harness/vcheck <property> <tier>` of a copy of the committed /verif
(SEEDTEST_COPY, default /tmp/vseedreg) with VERIF_REPO=<worktree>; the patch is undone afterwards. Rewrites the `ran`
entries of seeded/<id>/meta.json (a stored seed whose patch no longer applies to HEAD is marked `stale`)."""
import json, os, re, subprocess, sys, time
VERIF = os.path.dirname(os.path.dirname(os.path.abspath(__file__)))
COPY = os.environ.get('SEEDTEST_COPY', '/tmp/vseedreg')
REV = os.environ.get('SEEDTEST_REV', 'HEAD')
WT = os.environ.get('SEEDREG_WT', '/tmp/seedreg/wt')


def sh(cmd, cwd=None, env=None, timeout=4000):
    p = subprocess.run(cmd, shell=True, cwd=cwd, env=env, stdout=subprocess.PIPE, stderr=subprocess.STDOUT, text=True, timeout=timeout)
    return p.returncode, p.stdout


def main():
    args = sys.argv[1:]
    tier = 'quick'
    if args[:1] == ['--tier']:
        tier = args[1]; args = args[2:]
    ids = args or sorted(os.listdir(os.path.join(VERIF, 'seeded')))
    if not os.path.isdir(WT):
        os.makedirs(os.path.dirname(WT), exist_ok=True)
        sh('git -C /repo worktree prune; git -C /repo worktree add --detach %s HEAD' % WT)
    head = sh('git -C /repo rev-parse HEAD')[1].strip()
    sh('git -C %s checkout -q -- . && git -C %s checkout -q --detach %s' % (WT, WT, head))
    cmd = ('rm -rf COPY.new && mkdir -p COPY.new COPY && git -C VERIF archive REV | tar -x -C COPY.new '
           '&& rsync -a --delete --exclude lean/.lake --exclude lean/RTV/Gen --exclude replays --exclude .cache --exclude .scratch '
           'COPY.new/ COPY/ && rm -rf COPY.new')
    sh(cmd.replace('COPY', COPY).replace('REV', REV).replace('VERIF', VERIF))
    if not os.path.exists(COPY + '/lean/.lake'):
        sh('rsync -a %s/lean/.lake %s/lean/ ; rsync -a %s/lean/RTV/Gen %s/lean/RTV/' % (VERIF, COPY, VERIF, COPY))
    if not os.environ.get('SEEDTEST_SKIP_SETUP'):
        env0 = dict(os.environ); env0['VERIF_REPO'] = WT
        rc, out = sh(COPY + '/harness/setup.sh', env=env0)
        if rc != 0:
            print('setup failed in the copy:', out[-800:]); return 2
    for sid in ids:
        d = os.path.join(VERIF, 'seeded', sid)
        mp = os.path.join(d, 'meta.json')
        if not os.path.exists(mp):
            continue
        meta = json.load(open(mp))
        pid = meta['property']
        checks = [r['check'] for r in meta.get('ran', [])] or [pid]
        if pid not in checks:
            checks.insert(0, pid)
        rc, out = sh('git -C %s apply --check %s/patch.diff' % (WT, d))
        if rc != 0:
            meta['stale'] = 'patch no longer applies to /repo HEAD %s: %s' % (head[:9], out.strip()[-200:])
            json.dump(meta, open(mp, 'w'), indent=1)
            print(sid, 'STALE'); continue
        meta.pop('stale', None)
        sh('git -C %s apply %s/patch.diff' % (WT, d))
        ran = []
        try:
            env = dict(os.environ); env['VERIF_REPO'] = WT
            for cid in checks:
                t0 = time.time()
                rc, out = sh('%s/harness/vcheck %s %s' % (COPY, cid, tier), env=env)
                lines = [l for l in out.splitlines() if l.startswith('VIOLATION') or l.startswith('INFRA')]
                summary = out.strip().splitlines()[-1] if out.strip() else ''
                replays = []
                for l in lines:
                    m = re.search(r'replay=(\S+)', l)
                    if m and os.path.exists(m.group(1)):
                        try:
                            r = json.load(open(m.group(1)))
                            b = r.get('break') or (r.get('breaks') or [{}])[0] or {}
                            replays.append({'signature': b.get('signature'), 'kind': b.get('kind'), 'detail': (b.get('detail') or '')[:300],
                                            'no_failing_input': 'no-failing-input-found' in l,
                                            'no_longer_checks': [x.get('what') for x in r.get('no_longer_checks', [])][:5]})
                        except Exception:
                            pass
                ran.append({'check': cid, 'exit': rc, 'violation_lines': len(lines),
                            'no_failing_input_found': any('no-failing-input-found' in l for l in lines),
                            'summary': summary[:200], 'replays': replays[:5], 'wall_s': round(time.time() - t0, 1), 'tier': tier})
        finally:
            sh('git -C %s checkout -q -- .' % WT)
        meta['ran'] = ran
        meta['at'] = time.strftime('%Y-%m-%dT%H:%M:%SZ', time.gmtime())
        meta['repo_head'] = head[:9]
        meta['verif_rev'] = sh('git -C %s rev-parse --short %s' % (VERIF, REV))[1].strip()
        meta['detected'] = any(r['exit'] == 1 for r in ran)
        meta['detected_with_concrete_input'] = any(r['exit'] == 1 and not r['no_failing_input_found'] for r in ran)
        json.dump(meta, open(mp, 'w'), indent=1)
        print(sid, 'detected' if meta['detected'] else 'MISSED', [(r['check'], r['exit'], r['wall_s']) for r in ran], flush=True)
    return 0


if __name__ == '__main__':
    sys.exit(main())
