#!/venv/bin/python
"""vcheck <Cxx> <quick|thorough> [--replay file]

One skeleton for every property (DESIGN.md 2.3):
  1 translate  regenerate RTV/Gen/*.lean from /repo's working tree
  2 prove      lake build RTV.Props.<Cxx> (+ the model driver)  -> kernel re-checks the property's theorems
  3 audit      forbidden constructs; axioms of every theorem ⊆ {propext, Classical.choice, Quot.sound}
  4 correspond model (Lean driver) vs implementation (working tree) on the same operations + property oracles
  5 verdict    exit 0 / KNOWN-FINDING lines / VIOLATION property=<id> replay=<path> [no-failing-input-found]
  6 evidence   /verif/evidence/<Cxx>.json
Exit 2 = infrastructure failure (no VIOLATION line)."""
import importlib
import json
import os
import sys
import time
import traceback

HERE = os.path.dirname(os.path.abspath(__file__))
sys.path.insert(0, HERE)
from lib import common  # noqa: E402
from lib.common import InfraError  # noqa: E402


class Ctx:
    def __init__(self, prop, tier, seed, replay=None):
        self.prop, self.tier, self.seed, self.replay = prop, tier, seed, replay
        self.thorough = tier == 'thorough'
        self.evaluations = 0
        self.nontrivial = set()
        self.families = {}
        self.samples = []
        self.breaks = []       # broken ties / failed property oracles: dicts
        self.known_hits = {}   # signature -> count
        self.notes = []
        self.extra = {}
        self.known = common.load_known()
        self.all_sigs = []   # uncapped (kind, signature, detail, property_fails); dumped on request (VERIF_DUMP_BREAKS)
        # recorded findings of this property by signature; committed failing sets (findings/sets/<property>/*.json)
        self.known_idx = {}
        for f in self.known.get('findings', []):
            if f.get('property') == prop:
                self.known_idx.setdefault(f.get('signature'), f)
        for old, news in common.load_narrow(prop).items():
            if old in self.known_idx and 'narrow' not in self.known_idx[old]:
                self.known_idx[old] = dict(self.known_idx[old], narrow=list(news))
        self.sets = common.load_sets(prop)
        self.set_of_key = {}   # key -> [signatures whose failing set lists it]
        for sig, st in self.sets.items():
            for k in st['failing']:
                self.set_of_key.setdefault(k, []).append(sig)
        self.set_hits = {}     # signature -> set(keys of its failing set that failed again in this run)
        self.set_stale = {}    # signature -> set(keys of its failing set that were evaluated in this run and PASS)
        self.outside_set = {}  # signature -> number of failing inputs outside its failing set (each one is a break)
        self.known_dump = []   # uncapped (signature as reported, recorded signature, key): dumped with VERIF_DUMP_KNOWN

    def rng(self, *tags):
        return common.rng_for(self.seed, self.prop, *tags)

    def count(self, family, n=1):
        self.families[family] = self.families.get(family, 0) + n
        self.evaluations += n

    def nontriv(self, key):
        self.nontrivial.add(key if isinstance(key, (str, int, tuple)) else json.dumps(key, sort_keys=True, default=str))

    def sample(self, s, cap=12):
        if len(self.samples) < cap:
            self.samples.append(s)

    def match_known(self, signature, fallback=()):
        """The recorded finding that covers `signature`, or None.  `fallback`: older, wider spellings of the same
        signature (input-keyed signatures that did not say WHAT failed): an entry recorded under a fallback spelling
        matches unless it carries a `narrow` list (the new-style signatures observed for it on the unchanged tree) that
        does not contain `signature` — then the input fails in ANOTHER way than the recorded one."""
        f = self.known_idx.get(signature)
        if f is not None:
            return f
        for old in fallback:
            f = self.known_idx.get(old)
            if f is not None and ('narrow' not in f or signature in f['narrow']):
                return f
        return None

    def is_known(self, signature, key=None, fallback=()):
        """Would `report` count this as a recorded finding (signature recorded, and the input inside its failing set
        when it has one)?  For callers that cap their reports per signature: recorded ones must not be capped."""
        f = self.match_known(signature, fallback)
        if f is None:
            return False
        st = self.sets.get(f['signature'])
        return st is None or (key is not None and key in st['failing'])

    def passed(self, key, signature=None):
        """An input passed its oracle: when a failing set (of `signature`, or any) lists it, it is STALE there (listed in
        the evidence, never an alarm)."""
        for sig in self.set_of_key.get(key, ()):
            if signature is None or sig == signature:
                self.set_stale.setdefault(sig, set()).add(key)

    def report(self, kind, signature, detail, failing_input=None, property_fails=None, key=None, fallback=()):
        """kind: 'correspondence' (model and implementation disagree), 'property' (a property oracle fails on
        the implementation's output), 'proof' (a proof obligation no longer checks).
        property_fails: True when `failing_input` is a concrete input on which the property itself fails.
        key: the input's key in the failing set of the signature (default: culture|query[|reference] of failing_input);
        a recorded signature that has a failing set exempts only the inputs of the set.
        fallback: see match_known."""
        f = self.match_known(signature, fallback)
        if f is not None:
            rec = f['signature']
            st = self.sets.get(rec)
            if st is not None and key is None:
                key = common.input_key(failing_input)
            if st is None or key in st['failing']:
                self.known_hits[rec] = self.known_hits.get(rec, 0) + 1
                if st is not None:
                    self.set_hits.setdefault(rec, set()).add(key)
                if len(self.known_dump) < 200000:
                    self.known_dump.append((signature, rec, key if key is not None else common.input_key(failing_input)))
                return
            self.outside_set[rec] = self.outside_set.get(rec, 0) + 1
            detail = 'NOT in the recorded failing set of %r (%s, key %r): %s' % (rec, st['file'], key, detail)
        self.all_sigs.append((kind, signature, detail[:300], bool(property_fails)))
        # separate caps: frequent correspondence breaks must never crowd out concrete property failures
        n_same = sum(1 for b in self.breaks if b['property_fails'] == bool(property_fails))
        if n_same < 200:
            self.breaks.append({'kind': kind, 'signature': signature, 'detail': detail,
                                'failing_input': failing_input, 'property_fails': bool(property_fails)})


def main(argv):
    if len(argv) < 2:
        print(__doc__)
        return 2
    prop = argv[1]
    tier = argv[2] if len(argv) > 2 and not argv[2].startswith('--') else os.environ.get('VERIF_TIER', 'quick')
    replay = None
    if '--replay' in argv:
        replay = argv[argv.index('--replay') + 1]
    seed = common.seed_from_env()
    t0 = time.time()
    try:
        mod = importlib.import_module('corr.' + prop.lower())
    except ImportError as e:
        print('no check module for %s: %s' % (prop, e))
        return 2
    ctx = Ctx(prop, tier, seed, replay)
    try:
        return run_check(mod, ctx, t0)
    except InfraError as e:
        print('INFRA-ERROR %s: %s' % (prop, e))
        return 2
    except Exception:
        traceback.print_exc()
        print('INFRA-ERROR %s: unexpected exception in the harness' % prop)
        return 2


def run_check(mod, ctx, t0):
    prop = ctx.prop
    props_modules = getattr(mod, 'PROPS_MODULES', ['RTV.Props.' + prop])
    level = getattr(mod, 'LEVEL', 'proof')
    obligations = {}
    proof_problems = []

    # 1 translate
    gen = getattr(mod, 'GEN', None)
    if gen is not None:
        # plus every translator whose output the property's modules import (transitively), whatever the list says
        extra = common.gens_imported_by(props_modules)
        gen = None if extra is None else sorted(set(gen) | set(extra))
    changed, terr = common.translate(gen)
    if changed:
        ctx.notes.append('regenerated: ' + ', '.join(changed))
    for e in terr:
        proof_problems.append({'what': 'translator', 'detail': e})

    # 2 prove (kernel re-check of everything the property owns) + driver
    rc, out = common.lake_build(props_modules + ['rtvdriver'])
    build_ok = rc == 0
    if not build_ok:
        errs = [l for l in out.splitlines() if 'error' in l.lower()][:20]
        proof_problems.append({'what': 'lake build ' + ' '.join(props_modules), 'detail': '\n'.join(errs) or out[-3000:]})
        # the driver may still be usable for the search if only a Props module broke
        rc2, out2 = common.lake_build(['rtvdriver'])
        if rc2 != 0 and not os.path.exists(common.DRIVER_EXE):
            raise InfraError('model driver does not build: ' + out2[-2000:])

    # 3 audit
    thms = {}
    if build_ok:
        mods = []
        for m in props_modules:
            common.transitive_local_imports(m, mods)
        hits = common.grep_forbidden([common.module_files(m) for m in mods] + [os.path.join(common.LEAN, 'Driver.lean')])
        for h in hits:
            proof_problems.append({'what': 'forbidden construct', 'detail': h})
        allthms, suspects, _ = common.audit(mods)
        for s in suspects:
            proof_problems.append({'what': 'suspect declaration', 'detail': s})
        for name, axs in allthms.items():
            bad = [a for a in axs if a not in common.ALLOWED_AXIOMS]
            if bad:
                proof_problems.append({'what': 'axioms', 'detail': '%s depends on %s' % (name, bad)})
        thms = {n: a for n, a in allthms.items() if n.split(':')[0] in props_modules}
        required = getattr(mod, 'REQUIRED_THEOREMS', [])
        have = {n.split(':', 1)[1].split('.')[-1] for n in thms}
        for r in required:
            if r not in have:
                proof_problems.append({'what': 'missing theorem', 'detail': r})
        # every public theorem of the Props modules is required BY FULL NAME (harness/required/<Cxx>.txt, generated once
        # from the compiled modules by harness/mkrequired.py and committed): a deleted or renamed theorem is noticed.
        # Names in the module's OPTIONAL_THEOREMS (full `Module:Name`, full name, or last component) may be absent.
        listed = common.load_required(prop)
        if listed is None:
            ctx.notes.append('no harness/required/%s.txt: only REQUIRED_THEOREMS (last name component) is enforced' % prop)
        else:
            optional = set(getattr(mod, 'OPTIONAL_THEOREMS', []))

            def is_optional(full):
                name = full.split(':', 1)[1]
                return full in optional or name in optional or name.split('.')[-1] in optional
            public = {n for n in thms if not n.split(':', 1)[1].startswith('_private.')}
            for r in listed:
                if r not in thms and not is_optional(r):
                    proof_problems.append({'what': 'missing theorem', 'detail': '%s (listed in harness/required/%s.txt: deleted or '
                                           'renamed; if intended, regenerate the list with harness/mkrequired.py %s)' % (r, prop, prop)})
            unlisted = sorted(public - set(listed))
            ctx.extra['required_theorems'] = {'list': 'harness/required/%s.txt' % prop, 'listed': len(listed),
                                              'present': sum(1 for r in listed if r in thms),
                                              'public_theorems_not_in_the_list': unlisted[:60],
                                              'public_theorems_not_in_the_list_count': len(unlisted)}
        # thorough tier: the independent re-checker replays the compiled declarations of the property modules
        if ctx.thorough and props_modules:
            with common.LakeLock():
                rc3, out3 = common.run(['lake', 'env', 'leanchecker'] + list(props_modules), cwd=common.LEAN, timeout=3000)
            ctx.extra['leanchecker'] = 'ok' if rc3 == 0 else 'FAILED'
            if rc3 != 0:
                proof_problems.append({'what': 'leanchecker', 'detail': out3[-1500:]})
    obligations = thms

    # model functions that deliberately have no correspondence operation: `-- no correspondence: <names>: <reason>` lines in
    # the Lean sources the property's modules import; listed in the evidence (audit item 35)
    try:
        ctx.extra['no_correspondence'] = common.no_correspondence_marks(props_modules)
    except Exception as e:
        ctx.notes.append('no-correspondence scan failed: %s' % e)

    # 4 correspondence + property oracles (always run: it is also the search for a failing input)
    mod.correspond(ctx)

    # if a proof obligation broke, give the property a chance to search for a concrete failing input
    if proof_problems and hasattr(mod, 'search'):
        try:
            mod.search(ctx, proof_problems)
        except InfraError:
            raise
        except Exception as e:
            ctx.notes.append('search raised %s: %s' % (type(e).__name__, e))

    if os.environ.get('VERIF_DUMP_BREAKS'):
        with open(os.environ['VERIF_DUMP_BREAKS'], 'w', encoding='utf-8') as f:
            json.dump(ctx.all_sigs, f, ensure_ascii=False, indent=0)
    if os.environ.get('VERIF_DUMP_KNOWN'):
        with open(os.environ['VERIF_DUMP_KNOWN'], 'w', encoding='utf-8') as f:
            json.dump(ctx.known_dump, f, ensure_ascii=False, indent=0)

    # 5 verdict
    for sig, n in sorted(ctx.known_hits.items()):
        what = ctx.known_idx.get(sig, {}).get('what', '')
        print('KNOWN-FINDING: property=%s %s (%s; %d case(s) this run)' % (prop, sig, what, n))
    violations = 0
    exit_code = 0
    concrete = [b for b in ctx.breaks if b['property_fails']]
    other = [b for b in ctx.breaks if not b['property_fails']]
    if concrete:
        # group by signature: one VIOLATION line per distinct signature (max 5)
        seen = []
        for b in concrete:
            if b['signature'] in seen:
                continue
            seen.append(b['signature'])
            if len(seen) > 5:
                break
            path = common.write_replay(prop, {'property': prop, 'tier': ctx.tier, 'seed': ctx.seed,
                                              'break': b, 'proof_problems': proof_problems,
                                              'replay_cmd': 'harness/vcheck %s %s' % (prop, ctx.tier)})
            print('VIOLATION property=%s replay=%s' % (prop, path))
            violations += 1
        exit_code = 1
    elif other or proof_problems:
        path = common.write_replay(prop, {'property': prop, 'tier': ctx.tier, 'seed': ctx.seed,
                                          'no_longer_checks': proof_problems, 'breaks': other[:20],
                                          'note': 'the theorem(s) / correspondence named here no longer check and the '
                                                  'search found no input on which the property itself fails',
                                          'replay_cmd': 'harness/vcheck %s %s' % (prop, ctx.tier)})
        print('VIOLATION property=%s replay=%s no-failing-input-found' % (prop, path))
        violations += 1
        exit_code = 1

    # 6 evidence
    coverage = {
        'obligations': max(len(obligations), 1) if build_ok else max(len(obligations), 1) + len(proof_problems),
        'discharged': len(obligations) if (build_ok and not proof_problems) else max(len(obligations) - len(proof_problems), 0),
        'checker_cmd': 'cd /verif/lean && lake build %s && lake env lean --run Audit.lean <modules>' % ' '.join(props_modules),
        'trusted_base': common.TRUSTED_BASE + getattr(mod, 'TRUSTED_EXTRA', []),
        'theorems': {n: a for n, a in sorted(obligations.items())},
        'evaluations': ctx.evaluations,
        'distinct_nontrivial': len(ctx.nontrivial),
        'rule': getattr(mod, 'RULE', ''),
        'samples': ctx.samples or ['(none)'],
        'families': ctx.families,
        'known_findings_hit': ctx.known_hits,
        # recorded findings with a committed failing set: inputs of the set that failed again / that were evaluated and PASS
        # today (stale: the record is wider than the defect is now) / failing inputs outside the set (each one is a break)
        'failing_sets': {sig: {'file': st['file'], 'size': len(st['failing']),
                               'failed_again': len(ctx.set_hits.get(sig, ())),
                               'stale': sorted(ctx.set_stale.get(sig, ()))[:50],
                               'stale_count': len(ctx.set_stale.get(sig, ())),
                               'outside_set': ctx.outside_set.get(sig, 0)}
                         for sig, st in sorted(ctx.sets.items())},
        'breaks': ctx.breaks[:20],
        'proof_problems': proof_problems,
        'notes': ctx.notes,
        'explanation': getattr(mod, 'EXPLANATION', ''),
    }
    if ctx.thorough:
        # recorded signatures of this property that no input of this run hit (candidates for removal; never an alarm)
        coverage['stale_findings'] = sorted(sig for sig in ctx.known_idx if sig not in ctx.known_hits)
    if common.DRIVER_BAD['count']:
        coverage['driver_bad_arguments'] = common.DRIVER_BAD
        ctx.notes.append('the model driver answered err:BadArg / err:Panic on %d operation line(s) (malformed numeric field)'
                         % common.DRIVER_BAD['count'])
    if common.ERR_OTHER:
        coverage['err_other_types'] = dict(sorted(common.ERR_OTHER.items()))
    coverage.update(ctx.extra)
    if level == 'translation_validation':
        coverage.setdefault('programs', ctx.evaluations)
        coverage.setdefault('disagreements_checked', len(ctx.breaks))
    common.write_evidence(prop, ctx.tier, ctx.seed, level, coverage, time.time() - t0, violations,
                          getattr(mod, 'ASSUMPTIONS', []))
    print('%s %s: theorems=%d evaluations=%d nontrivial=%d breaks=%d known=%d wall=%.1fs' % (
        prop, ctx.tier, len(obligations), ctx.evaluations, len(ctx.nontrivial), len(ctx.breaks),
        sum(ctx.known_hits.values()), time.time() - t0))
    return exit_code


if __name__ == '__main__':
    sys.exit(main(sys.argv))
