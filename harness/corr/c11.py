"""C11 — every resolved date-time value is well formed and agrees with its TIMEX.

The property predicate `wellFormed` lives in Lean (RTV/Model/WellFormed.lean: shapeOK, definiteOK, typeNameOK) and is
evaluated through the compiled driver on every entity the real date-time model returns over
  (i) all Python-supported DateTime Specs inputs of every culture (their own reference date),
 (ii) generated expressions of C06–C10 incl. dates that do not exist, under references spread over 1950..2090.
Unit level: DateTimeFormatUtil.format_date / format_time / format_date_time / luis_date, `_determine_date_time_types`
and `_date_time_resolution` (single date/time/datetime slots) against the Lean model (`formatDate`, `determineType`,
`resolveSingle`) — the functions the theorems of RTV.Props.C11 are about.
Entities whose resolution is None emit no value: counted, not judged (DESIGN.md §4 #16)."""
import datetime

from lib import common, recog, dtpipe, dtcorpus
from lib.common import cps

PROP = 'C11'
LEVEL = 'proof'
PROPS_MODULES = ['RTV.Props.C11']
GEN = ['chartables', 'durationmaps']
REQUIRED_THEOREMS = ['format_date_wellformed', 'format_time_wellformed', 'format_datetime_wellformed', 'min_value_filtered',
                     'assembly_wellformed_date', 'assembly_wellformed_time', 'assembly_wellformed_datetime',
                     'period_wellformed_daterange', 'period_invalid_end_filtered', 'period_modifier_one_end',
                     'definite_timex_value_date', 'type_name_agrees']
RULE = ('every entity of recognize_datetime over all Python-supported DateTime Specs inputs (all cultures, own reference) and '
        'over generated English expressions × references in 1950..2090; non-trivial = distinct (culture, input, reference) '
        'that produced at least one entity with resolution values')
ASSUMPTIONS = ['parsers that build value strings by concatenation (period parsers, CJK parsers, holidays) are not modelled: '
               'for them the Lean predicate evaluated on the real output is the only check',
               'entities with resolution None are counted, not judged']


def _probe_parser():
    m = recog.get_model('DateTime', 'DateTimeModel', 'en-us')
    return m.parser


def _show(line):
    """a protocol line / answer with its code-point fields decoded (never raises)"""
    out = []
    for f in line.split('\t'):
        parts = []
        for g in f.split(';'):
            try:
                parts.append(common.uncps(g) if g and g[0].isdigit() and ' ' in g or g.isdigit() and int(g) > 31 else g)
            except Exception:
                parts.append(g)
        out.append(';'.join(parts))
    return ' | '.join(out)


def unit_level(ctx):
    from recognizers_date_time.date_time.utilities import DateTimeFormatUtil, DateTimeResolutionResult
    from recognizers_date_time.date_time.parsers import DateTimeParseResult
    r = ctx.rng('unit')
    lines, expect = [], []
    dates = [(1, 1, 1), (9999, 12, 31), (2000, 2, 29), (1900, 3, 1), (999, 10, 9)]
    for _ in range(2000 if ctx.thorough else 400):
        y = r.randint(1, 9999)
        m = r.randint(1, 12)
        d = r.randint(1, 28)
        dates.append((y, m, d))
    for (y, m, d) in dates:
        dt = datetime.datetime(y, m, d, (y * 7) % 24, (m * 5) % 60, (d * 2) % 60)
        lines.append('fmtdate\t%d\t%d\t%d' % (y, m, d))
        expect.append(cps(DateTimeFormatUtil.format_date(dt)))
        lines.append('fmtdate\t%d\t%d\t%d' % (y, m, d))
        expect.append(cps(DateTimeFormatUtil.luis_date(y, m, d)))
        lines.append('fmttime\t%d\t%d\t%d' % (dt.hour, dt.minute, dt.second))
        expect.append(cps(DateTimeFormatUtil.format_time(dt)))
        lines.append('fmtdt\t%d\t%d\t%d\t%d\t%d\t%d' % (y, m, d, dt.hour, dt.minute, dt.second))
        expect.append(cps(DateTimeFormatUtil.format_date_time(dt)))
    parser = _probe_parser()
    for t in ('date', 'time', 'datetime', 'daterange', 'duration', 'set', 'timerange', 'datetimerange'):
        for mod in (False, True):
            lines.append('dettype\t%s\t%d' % (cps(t), 1 if mod else 0))
            expect.append(cps(parser._determine_date_time_types(t, mod, False, False)))
    # _date_time_resolution on single slots
    vals = ['2019-05-05', '0001-01-01', '', '2020-02-29', '0001-01-01 00:00:00', '2019-05-05 10:00:00', '10:00:00']
    for t in ('date', 'time', 'datetime'):
        for p in vals:
            for f in vals:
                slot = DateTimeParseResult()
                slot.type = t
                slot.timex_str = 'XXXX-05-05'
                v = DateTimeResolutionResult()
                v.timex = slot.timex_str
                key = {'date': 'date', 'time': 'time', 'datetime': 'dateTime'}[t]
                v.future_resolution = {key: f}
                v.past_resolution = {key: p}
                slot.value = v
                try:
                    res = parser._date_time_resolution(slot, False, False, False)
                    out = ';'.join(cps(x.get('value', '')) for x in res['values'])
                except Exception as e:
                    out = 'err:' + type(e).__name__
                lines.append('ressingle\t%s\t%s\t%s\t%s' % (cps(t), cps(slot.timex_str), cps(p), cps(f)))
                expect.append(out)
    # __add_period_to_resolution through _generate_from_resolution on period slots (incl. modifiers and invalid ends)
    pvals = ['2019-05-05', '2019-05-09', '0001-01-01', '', None, '0001-01-01 00:00:00', '2019-05-05 10:00:00', '10:00:00']
    keys = {'daterange': ('startDate', 'endDate'), 'timerange': ('startTime', 'endTime'),
            'datetimerange': ('startDateTime', 'endDateTime')}
    for t, (ks, ke) in keys.items():
        for mod in ('', 'before', 'after', 'since', 'before-end', 'after-start', 'until', 'approx'):
            for a in pvals:
                for b in pvals:
                    resol = {}
                    if a is not None:
                        resol[ks] = a
                    if b is not None:
                        resol[ke] = b
                    try:
                        out = parser._generate_from_resolution(t, resol, mod)
                        f = lambda k: ('absent' if k not in out else ('null' if out[k] is None else cps(out[k])))
                        exp = f('start') + '\t' + f('end')
                    except Exception as e:
                        exp = 'err:' + type(e).__name__
                    lines.append('addperiod\t%s\t%s\t%s' % (cps(mod), '?' if a is None else cps(a), '?' if b is None else cps(b)))
                    expect.append(exp)
    model = common.driver(lines)
    ctx.count('unit: format/determine/resolution', len(lines))
    for l, a, b in zip(lines, expect, model):
        if a != b:
            ctx.report('correspondence', l.split('\t')[0], '%r: implementation %r, model %r' % (_show(l), _show(a), _show(b)),
                failing_input={'op': l, 'implementation': a, 'model': b}, property_fails=False)


def judge(ctx, jobs, results, family):
    ents, meta = [], []
    none_res = 0
    for j, res in zip(jobs, results):
        ctx.count(family)
        if isinstance(res, str):
            ctx.extra['dropped_queries'] = ctx.extra.get('dropped_queries', 0) + 1
            continue
        for e in res:
            if e['values'] is None:
                none_res += 1
                continue
            ents.append(e)
            meta.append(j)
    ctx.extra['entities_with_resolution_none'] = ctx.extra.get('entities_with_resolution_none', 0) + none_res
    verdicts = dtcorpus.evaluate_wf(ents, with_sentinel=True)
    for j, e, (tn_ok, vs) in zip(meta, ents, verdicts):
        ctx.nontriv((j[0], j[1], str(j[2])))
        problems = []
        if not tn_ok:
            problems.append('type-name')
        for v, (shape, definite, _triple, sentinel) in zip(e['values'], vs):
            if not shape:
                problems.append('shape')
            if not definite:
                problems.append('definite')
            if not sentinel:
                problems.append('sentinel')
        for kind in sorted(set(problems)):
            sig = '%s:%s' % (kind, dtcorpus.input_key(j[0], j[1]))
            ctx.report('property', sig, '%s %r (reference %s): entity %r type %s values %r violates %s' % (
                j[0], j[1], j[2], e['text'], e['type_name'], e['values'], kind),
                failing_input={'culture': j[0], 'query': j[1], 'reference': str(j[2]), 'entity': e, 'violates': kind},
                property_fails=True)
    return len(ents)


def correspond(ctx):
    common.setup_repo_imports()
    import recognizers_date_time
    common.assert_tree_modules(recognizers_date_time)
    unit_level(ctx)
    jobs = dtcorpus.specs_jobs()
    if ctx.thorough:
        # the Specs inputs again under other references (a third of them per extra reference, rotating)
        extra = []
        for i, (c, q, r) in enumerate(jobs):
            extra.append((c, q, dtcorpus.EXTRA_REFS[i % len(dtcorpus.EXTRA_REFS)]))
        jobs = jobs + extra
    res = dtpipe.run(jobs)
    n1 = judge(ctx, jobs, res, 'specs input')
    gj = dtcorpus.generated_jobs(ctx.rng('gen'), ctx.thorough)
    gres = dtpipe.run(gj)
    n2 = judge(ctx, gj, gres, 'generated expression')
    ctx.extra['entities_judged'] = n1 + n2
    for j, r in list(zip(gj, gres))[:3]:
        if not isinstance(r, str) and r:
            ctx.sample({'culture': j[0], 'query': j[1], 'reference': str(j[2]), 'entities': r[:2]})
