"""C11 — every resolved date-time value is well formed and agrees with its TIMEX.

The property predicate `wellFormed` lives in Lean (RTV/Model/WellFormed.lean: shapeOK, definiteOK, typeNameOK; + sentinelOK,
which `judge` demands as well) and is evaluated through the compiled driver on every entity the real date-time model returns over
  (i) all Python-supported DateTime Specs inputs of every culture (their own reference date),
 (ii) generated expressions of C06–C10 incl. dates that do not exist, under references spread over 1950..2090.
Unit level: DateTimeFormatUtil.format_date / format_time / format_date_time / luis_date, `_determine_date_time_types`
and `_date_time_resolution` (single date/time/datetime slots) against the Lean model (`formatDate`, `determineType`,
`resolveSingle`), and `set_parse_result` on constructed slots of every kind x modifier string x flag against
`RTV.WF.resolveSlot` / `slotTypeName` (RTV/Model/Assemble.lean) — the functions the theorems of RTV.Props.C11 are about.
Every query also records whether `DateTimeModel.parse` swallowed an exception (evidence `swallowed_exceptions`; reported as
a correspondence-level observation for the generated families).
Entities whose resolution is None emit no value: counted, not judged (DESIGN.md §4 #16)."""
import datetime

from lib import common, recog, dtpipe, dtcorpus
from lib.common import cps

PROP = 'C11'
LEVEL = 'proof'
PROPS_MODULES = ['RTV.Props.C11', 'RTV.Props.C11Holiday', 'RTV.Props.C11Range']
GEN = ['chartables', 'durationmaps', 'holiday']
REQUIRED_THEOREMS = ['format_date_wellformed', 'format_time_wellformed', 'format_datetime_wellformed', 'min_value_filtered',
                     'assembly_wellformed_date', 'assembly_wellformed_time', 'assembly_wellformed_datetime',
                     'period_wellformed_daterange', 'period_invalid_end_filtered', 'period_slot_not_resolved', 'period_modifier_one_end',
                     'period_before_invalid_start_emitted', 'period_after_invalid_end_emitted', 'period_since_invalid_start_emitted',
                     'before_nonexistent_start_witness',
                     'definite_timex_value_date', 'definite_timex_value_modifier', 'definite_value_mismatch_detected',
                     'definite_duration_value', 'type_name_agrees', 'type_name_table',
                     'holiday_values_wellformed', 'holiday_definite_agrees', 'holiday_values_sentinel_free',
                     'holiday_fn_never_raises', 'holiday_nth_weekday', 'holiday_last_weekday', 'holiday_tables_sane',
                     'holiday_unknown_functions', 'holiday_get_day_shape',
                     'week_period_range_definite', 'periodOf_week', 'week_monday_year_slip_detected']
RULE = ('every entity of recognize_datetime over all Python-supported DateTime Specs inputs (all cultures, own reference) and '
        'over generated English expressions × references in 1950..2090; non-trivial = distinct (culture, input, reference) '
        'that produced at least one entity with resolution values')
ASSUMPTIONS = ['parsers that build value strings by concatenation (period parsers, CJK parsers) are not modelled: '
               'for them the Lean predicate evaluated on the real output is the only check',
               'holidays: BaseHolidayParser._match2date is modelled from the holiday key on (the regex match and '
               'holiday_names lookup are inputs); the function tables are translated from the source text each run; '
               'functions the translator cannot classify (Spanish Easter) are compared nowhere; ChineseHolidayParser is not modelled',
               'entities with resolution None are counted, not judged']


def _probe_parser():
    m = recog.get_model('DateTime', 'DateTimeModel', 'en-us')
    return m.parser


def _show(line):
    """a protocol line / answer with its code-point fields decoded (never raises)"""
    out = []
    for f in line.split('\t'):
        parts = []
        for g in f.split(';'):
            try:
                parts.append(common.uncps(g) if g and g[0].isdigit() and ' ' in g or g.isdigit() and int(g) > 31 else g)
            except Exception:
                parts.append(g)
        out.append(';'.join(parts))
    return ' | '.join(out)


def unit_level(ctx):
    from recognizers_date_time.date_time.utilities import DateTimeFormatUtil, DateTimeResolutionResult
    from recognizers_date_time.date_time.parsers import DateTimeParseResult
    r = ctx.rng('unit')
    lines, expect = [], []
    dates = [(1, 1, 1), (9999, 12, 31), (2000, 2, 29), (1900, 3, 1), (999, 10, 9)]
    for _ in range(2000 if ctx.thorough else 400):
        y = r.randint(1, 9999)
        m = r.randint(1, 12)
        d = r.randint(1, 28)
        dates.append((y, m, d))
    for (y, m, d) in dates:
        dt = datetime.datetime(y, m, d, (y * 7) % 24, (m * 5) % 60, (d * 2) % 60)
        lines.append('fmtdate\t%d\t%d\t%d' % (y, m, d))
        expect.append(cps(DateTimeFormatUtil.format_date(dt)))
        lines.append('fmtdate\t%d\t%d\t%d' % (y, m, d))
        expect.append(cps(DateTimeFormatUtil.luis_date(y, m, d)))
        lines.append('fmttime\t%d\t%d\t%d' % (dt.hour, dt.minute, dt.second))
        expect.append(cps(DateTimeFormatUtil.format_time(dt)))
        lines.append('fmtdt\t%d\t%d\t%d\t%d\t%d\t%d' % (y, m, d, dt.hour, dt.minute, dt.second))
        expect.append(cps(DateTimeFormatUtil.format_date_time(dt)))
    parser = _probe_parser()
    for t in ('date', 'time', 'datetime', 'daterange', 'duration', 'set', 'timerange', 'datetimerange'):
        for mod in (False, True):
            lines.append('dettype\t%s\t%d' % (cps(t), 1 if mod else 0))
            expect.append(cps(parser._determine_date_time_types(t, mod, False, False)))
    # _date_time_resolution on single slots
    vals = ['2019-05-05', '0001-01-01', '', '2020-02-29', '0001-01-01 00:00:00', '2019-05-05 10:00:00', '10:00:00']
    for t in ('date', 'time', 'datetime'):
        for p in vals:
            for f in vals:
                slot = DateTimeParseResult()
                slot.type = t
                slot.timex_str = 'XXXX-05-05'
                v = DateTimeResolutionResult()
                v.timex = slot.timex_str
                key = {'date': 'date', 'time': 'time', 'datetime': 'dateTime'}[t]
                v.future_resolution = {key: f}
                v.past_resolution = {key: p}
                slot.value = v
                try:
                    res = parser._date_time_resolution(slot, False, False, False)
                    out = ';'.join(cps(x.get('value', '')) for x in res['values'])
                except Exception as e:
                    out = 'err:' + type(e).__name__
                lines.append('ressingle\t%s\t%s\t%s\t%s' % (cps(t), cps(slot.timex_str), cps(p), cps(f)))
                expect.append(out)
    # __add_period_to_resolution through _generate_from_resolution on period slots (incl. modifiers and invalid ends)
    pvals = ['2019-05-05', '2019-05-09', '0001-01-01', '', None, '0001-01-01 00:00:00', '2019-05-05 10:00:00', '10:00:00']
    keys = {'daterange': ('startDate', 'endDate'), 'timerange': ('startTime', 'endTime'),
            'datetimerange': ('startDateTime', 'endDateTime')}
    for t, (ks, ke) in keys.items():
        for mod in ('', 'before', 'after', 'since', 'before-end', 'after-start', 'until', 'approx'):
            for a in pvals:
                for b in pvals:
                    resol = {}
                    if a is not None:
                        resol[ks] = a
                    if b is not None:
                        resol[ke] = b
                    try:
                        out = parser._generate_from_resolution(t, resol, mod)
                        f = lambda k: ('absent' if k not in out else ('null' if out[k] is None else cps(out[k])))
                        exp = f('start') + '\t' + f('end')
                    except Exception as e:
                        exp = 'err:' + type(e).__name__
                    lines.append('addperiod\t%s\t%s\t%s' % (cps(mod), '?' if a is None else cps(a), '?' if b is None else cps(b)))
                    expect.append(exp)
                    if not exp.startswith('err:'):
                        # RTV.WF.periodValue (the value a period slot contributes; theorems of Props/C11, Lemmas/Periods): the
                        # same real call, read as the model's Value (a key written with None = no start / end)
                        f2 = lambda k: cps(out[k]) if out.get(k) is not None else 'absent'
                        lines.append('periodvalue\t%s\t%s\t%s\t%s\t%s' % (cps(t), cps('(X,Y,PZ)'), cps(mod), '?' if a is None else cps(a),
                                                                          '?' if b is None else cps(b)))
                        expect.append('none' if ('start' not in out and 'end' not in out) else
                                      '~'.join([cps(t), cps('(X,Y,PZ)'), f2('start'), f2('end')]))
    n_before = len(lines)
    _assemble_cases(ctx, parser, r, lines, expect)
    ctx.count('unit: set_parse_result (every slot kind x modifier x flags) vs RTV.WF.resolveSlot', len(lines) - n_before)
    model = common.driver(lines)
    ctx.count('unit: format/determine/resolution', n_before)
    for l, a, b in zip(lines, expect, model):
        if a != b:
            ctx.report('correspondence', l.split('\t')[0], '%r: implementation %r, model %r' % (_show(l), _show(a), _show(b)),
                failing_input={'op': l, 'implementation': a, 'model': b}, property_fails=False)



_SINGLE_KEY = {'date': 'date', 'time': 'time', 'datetime': 'dateTime'}
_PERIOD_KEYS = {'daterange': ('startDate', 'endDate'), 'timerange': ('startTime', 'endTime'),
                'datetimerange': ('startDateTime', 'endDateTime')}
_MODS = ['', 'before', 'after', 'since', 'until', 'approx', 'before-end', 'after-start', 'before-approx', 'start', 'end',
         'since-approx', 'less', 'more', 'befor', 'untilx', 'after-end', 'before-start']


def _assemble_cases(ctx, parser, r, lines, expect):
    """`BaseMergedParser.set_parse_result` (→ `_date_time_resolution`, `_generate_from_resolution`, the two `__add_*` helpers,
    `_determine_date_time_types` twice) on constructed slots of EVERY kind, every modifier string and flag, against
    `RTV.WF.resolveSlot` / `slotTypeName` — the functions `type_name_agrees`, `definite_timex_value_date`,
    `period_invalid_end_filtered` and the `before` / `after` / `since` sentinel witnesses of RTV.Props.C11 are about."""
    from recognizers_date_time.date_time.utilities import DateTimeResolutionResult
    from recognizers_date_time.date_time.parsers import DateTimeParseResult

    def fld(x):
        return '?' if x is None else cps(x)

    def call(t, timex, mod, flags, past, future):
        """past / future: (single, start, end, duration), None = key missing"""
        slot = DateTimeParseResult()
        slot.type = t
        slot.timex_str = timex
        v = DateTimeResolutionResult()
        v.timex = timex
        v.mod = mod
        dicts = []
        for (single, a, b, dur) in (past, future):
            d = {}
            if single is not None and t in _SINGLE_KEY:
                d[_SINGLE_KEY[t]] = single
            if t in _PERIOD_KEYS:
                if a is not None:
                    d[_PERIOD_KEYS[t][0]] = a
                if b is not None:
                    d[_PERIOD_KEYS[t][1]] = b
            if dur is not None:
                d['duration'] = dur
            dicts.append(d)
        v.past_resolution, v.future_resolution = dicts
        slot.value = v
        try:
            out = parser.set_parse_result(slot, *flags)
            f = lambda d, k: ('absent' if k not in d else ('null' if d[k] is None else cps(d[k])))
            vals = ['~'.join([cps(d.get('type', '')), cps(d.get('timex', '') or ''), f(d, 'value'), f(d, 'start'), f(d, 'end')])
                    for d in out.value['values']]
            exp = cps(out.type) + '\t' + ';'.join(vals)
        except Exception as e:
            exp = 'err:' + type(e).__name__
        lines.append('assemble\t%s\t%s\t%s\t%d\t%s\t%s' % (cps(t), cps(timex), cps(mod), 1 if any(flags) else 0,
                                                         '\t'.join(fld(x) for x in past), '\t'.join(fld(x) for x in future)))
        expect.append(exp)

    flagsets = [(False, False, False), (True, False, False), (False, True, False), (False, False, True)]
    singles = [None, '', '0001-01-01', '0001-01-01 00:00:00', '2019-05-05', '2019-05-06', '10:00:00', '2019-05-05 10:00:00']
    ends = [None, '', '0001-01-01', '0001-01-01 00:00:00', '2019-05-05', '2019-05-09', '10:00:00']
    k = 0
    for t in ('date', 'time', 'datetime'):
        for mod in _MODS:
            for p in singles:
                for f in singles:
                    k += 1
                    if not ctx.thorough and p is not None and f is not None and r.random() < 0.5:
                        continue
                    call(t, '2019-05-05' if k % 3 else '', mod, flagsets[k % 4], (p, None, None, None), (f, None, None, None))
    for t in ('daterange', 'timerange', 'datetimerange'):
        for mod in _MODS:
            for a in ends:
                for b in ends:
                    k += 1
                    # future: the same pair, the swapped pair (same sorted values, other dict), another pair
                    for fut in ((a, b), (b, a), (a, '2019-05-10')):
                        if not ctx.thorough and fut != (a, b) and r.random() < 0.6:
                            continue
                        call(t, '(2019-05-05,2019-05-09,P4D)', mod, flagsets[(k + len(mod)) % 4], (None, a, b, None), (None, fut[0], fut[1], None))
    for t in ('duration', 'set', 'datetimepoint', ''):
        for mod in ('', 'less', 'more', 'before'):
            for p in (None, '3600', '', '-259200'):
                for f in (None, '3600', '7200'):
                    k += 1
                    call(t, 'PT1H', mod, flagsets[k % 4], (None, None, None, p), (None, None, None, f))


def _holiday_entity_values(merged, res):
    """the `values` the merged parser gives a holiday entity: BaseHolidayParser.parse's wrapping of the `_match2date` result
    (format_date of both values, slot type `date`) followed by the real `_date_time_resolution`; in the form of `hol.values`"""
    from recognizers_date_time.date_time.utilities import DateTimeFormatUtil, DateTimeResolutionResult
    from recognizers_date_time.date_time.parsers import DateTimeParseResult
    try:
        v = DateTimeResolutionResult()
        v.success, v.timex = True, res.timex
        v.future_value, v.past_value = res.future_value, res.past_value
        v.future_resolution = {'date': DateTimeFormatUtil.format_date(res.future_value)}
        v.past_resolution = {'date': DateTimeFormatUtil.format_date(res.past_value)}
        slot = DateTimeParseResult()
        slot.type, slot.timex_str, slot.value = 'date', res.timex, v
        out = merged._date_time_resolution(slot, False, False, False)
        return ';'.join('~'.join([cps(x.get('type', '')), cps(x.get('timex', '') or ''),
                                  cps(x['value']) if x.get('value') is not None else 'absent']) for x in out['values'])
    except Exception as e:
        return 'err:' + type(e).__name__


class _FakeMatch:
    """what `_match2date` reads from the regex match: the three named groups"""
    def __init__(self, holiday, year, order):
        self.g = {'holiday': holiday, 'year': year, 'order': order}

    def group(self, name):
        return self.g.get(name)


def holiday_level(ctx):
    """BaseHolidayParserConfiguration.get_day, every holiday date function of 7 cultures, and BaseHolidayParser._match2date
    against RTV.Holiday (tables regenerated from the source text by translate/holiday.py)."""
    from translate import holiday as hgen
    from recognizers_date_time.date_time.base_holiday import BaseHolidayParserConfiguration
    r = ctx.rng('holiday')
    lines, expect, meta = [], [], []
    wf_ents, wf_meta = [], []
    from recognizers_date_time.date_time.utilities import DateTimeFormatUtil
    # --- get_day
    years = [1, 2, 4, 100, 400, 1582, 1899, 1900, 1970, 2000, 2016, 2017, 2018, 2019, 2020, 2038, 2099, 2100, 9998, 9999]
    years += [r.randint(1, 9999) for _ in range(400 if ctx.thorough else 12)]
    for y in years:
        for m in range(1, 13):
            for w in (-1, 0, 1, 2, 3, 4):
                for dow in range(1, 8):
                    try:
                        e = str(BaseHolidayParserConfiguration.get_day(y, m, w, dow))
                    except IndexError:
                        e = 'err:IndexError'
                    lines.append('hol.getday\t%d\t%d\t%d\t%d' % (y, m, w, dow))
                    expect.append(e)
                    meta.append(('get_day', None))
    ctx.count('unit: holiday get_day', len(lines))
    # --- every function of every culture
    fyears = [1, 2, 1900, 2000, 2016, 2019, 2020, 2023, 2024, 9999] + [r.randint(1, 9999) for _ in range(30)]
    if ctx.thorough:
        fyears = list(range(1, 10000))
    cfgs = {}
    merged_of = {}
    unknown = 0
    for cul, _pkg in hgen.CULTURES:
        m = recog.get_model('DateTime', 'DateTimeModel', cul)
        cfg = m.parser.config.holiday_parser.config
        cfgs[cul] = (m.parser.config.holiday_parser, cfg)
        merged_of[cul] = m.parser
        for key, func in cfg.holiday_func_dictionary.items():
            ys = fyears if not ctx.thorough else fyears[::1]
            for y in ys:
                try:
                    d = func(y)
                    e = '%d-%d-%d' % (d.year, d.month, d.day)
                except Exception:
                    e = 'err:raises'
                lines.append('hol.fn\t%s\t%s\t%d' % (cps(cul), cps(key), y))
                expect.append(e)
                meta.append(('fn', (cul, key, y)))
            ctx.count('unit: holiday function × years', len(ys))
    # --- _match2date through a stand-in match object
    import datetime as _dt
    orders = {'en-us': ['next', 'last', 'this', 'upcoming'], 'es-es': ['próximo', 'pasado', 'este', 'otro'],
              'fr-fr': ['prochain', 'dernier', 'ce', 'autre'], 'pt-br': ['próximo', 'passado', 'este', 'outro'],
              'it-it': ['prossimo', 'scorso', 'questo', 'altro'], 'de-de': ['nächsten', 'letzten', 'diesen', 'anderen'],
              'nl-nl': ['volgende', 'vorige', 'deze', 'andere']}
    for cul, (parser, cfg) in cfgs.items():
        names = cfg.holiday_names
        keys = [k for k in names if names[k]]
        for key in keys:
            spelling = names[key][0]
            sanit = cfg.sanitize_holiday_token(spelling.lower())
            exp_key = next(iter([k for k, vs in names.items() if sanit in vs]), None)
            func = cfg.holiday_func_dictionary.get(exp_key) if exp_key else None
            base_years = [2016, 2019, 2020]
            refs = []
            for y in base_years:
                try:
                    hd = func(y) if func else _dt.datetime(y, 6, 15)
                    if hd.year < 2:
                        hd = _dt.datetime(y, 6, 15)
                except Exception:
                    hd = _dt.datetime(y, 6, 15)
                refs += [hd, hd.replace(hour=14, minute=30), hd - _dt.timedelta(days=1), hd + _dt.timedelta(days=1)]
            refs += [_dt.datetime(1, 1, 1), _dt.datetime(1, 12, 31, 8), _dt.datetime(9999, 1, 1), _dt.datetime(9999, 12, 31, 23, 59, 59)]
            variants = [(None, None)] + [(str(y), None) for y in (2018, 2020, 1, 9999)] + [(None, o) for o in orders[cul]]
            for (ys, od) in variants:
                for ref in (refs if ys is None else refs[:2]):
                    try:
                        res = parser._match2date(_FakeMatch(spelling, ys, od), ref)
                        if not res.success:
                            e = 'none'
                        else:
                            fv, pv = res.future_value, res.past_value
                            e = 'ok %s\t%d-%d-%d\t%d-%d-%d' % (cps(res.timex), fv.year, fv.month, fv.day, pv.year, pv.month, pv.day)
                        if res.success and ref.year >= 3:
                            # the property's own predicates on what the real parser computed (values as parse() formats
                            # them; the merged parser drops a value that starts with the minimum date)
                            vals = []
                            for dv in (res.past_value, res.future_value):
                                sv = DateTimeFormatUtil.format_date(dv)
                                if not sv.startswith('0001-01-01') and {'type': 'date', 'timex': res.timex, 'value': sv} not in vals:
                                    vals.append({'type': 'date', 'timex': res.timex, 'value': sv})
                            if vals:
                                wf_ents.append({'type_name': 'datetimeV2.date', 'values': vals})
                                wf_meta.append((cul, spelling, ys, od, str(ref)))
                        if res.success:
                            # RTV.Holiday.holidayValues (what the merged parser emits for the holiday entity; theorems of
                            # Props/C11Holiday) against the real parse wrapping + _date_time_resolution on this very result
                            hv = _holiday_entity_values(merged_of[cul], res)
                            if hv is not None:
                                lines.append('hol.values\t%s\t%d\t%d\t%d\t%d\t%d\t%d' % (
                                    cps(res.timex), fv.year, fv.month, fv.day, pv.year, pv.month, pv.day))
                                expect.append(hv)
                                meta.append(('values', (cul, spelling, ys, od, str(ref))))
                    except Exception:
                        e = 'raises'
                    sw = '?' if not od else str(cfg.get_swift_year(od))
                    lines.append('hol.m2d\t%s\t%s\t%s\t%s\t%d\t%d\t%d\t%d' % (
                        cps(cul), cps(exp_key) if exp_key else '?', ys if ys else '?', sw, ref.year, ref.month, ref.day,
                        ref.hour * 3600 + ref.minute * 60 + ref.second))
                    expect.append(e)
                    meta.append(('m2d', (cul, spelling, ys, od, str(ref))))
                    ctx.count('unit: holiday _match2date')
    for info, e, (tn_ok, vs) in zip(wf_meta, wf_ents, dtcorpus.evaluate_wf(wf_ents, with_sentinel=True)):
        ctx.count('unit: holiday values judged by the Lean predicates')
        bad = sorted({n for bits in vs for n, ok in zip(('shape', 'definite', 'triple', 'sentinel'), bits) if not ok and n != 'triple'})
        if bad or not tn_ok:
            ctx.report('property', 'holiday-value:%s:%s' % (info[0], info[1]),
                       '%s holiday %r (year %s, order %s, reference %s): values %r violate %s' % (
                           info[0], info[1], info[2], info[3], info[4], e['values'], ','.join(bad) or 'type-name'),
                       failing_input={'culture': info[0], 'holiday': info[1], 'year': info[2], 'order': info[3],
                                      'reference': info[4], 'values': e['values'], 'call': 'BaseHolidayParser._match2date'},
                       property_fails=True)
    model = common.driver(lines)
    for l, a, b, (kind, info) in zip(lines, expect, model, meta):
        if b == 'unknown' or (kind == 'm2d' and False):
            unknown += 1
            continue
        if kind == 'm2d' and info[1] is not None and b in ('raises', 'none') and a == b:
            continue
        if a != b:
            # an unknown function inside _match2date: the model answers `raises`; skip when the table says unknown
            if kind == 'm2d':
                cul = info[0]
                cfg = cfgs[cul][1]
                sanit = cfg.sanitize_holiday_token(info[1].lower())
                k = next(iter([k for k, vs in cfg.holiday_names.items() if sanit in vs]), None)
                if k is not None and common.driver(['hol.fn\t%s\t%s\t2019' % (cps(cul), cps(k))])[0] == 'unknown':
                    unknown += 1
                    continue
            ctx.report('correspondence', 'holiday-' + kind, '%s: implementation %s, model %s (%r)' % (_show(l), _show(a), _show(b), info),
                       failing_input={'op': l, 'implementation': a, 'model': b, 'case': info}, property_fails=False)
        else:
            if kind == 'm2d' and a.startswith('ok'):
                ctx.nontriv(('holiday', info))
    ctx.extra['holiday_unknown_function_cases_skipped'] = unknown


def modifier_jobs(thorough):
    """C11-own generated family: before / after / since / until in front of points and RANGES — incl. ranges one of whose ends
    does not exist (the `before` branch of `__add_period_to_resolution` writes the start whatever it is: theorem
    `period_before_invalid_start_emitted`), definite points (the written end must be the TIMEX point), signed and decimal
    durations."""
    import hashlib
    exprs = ['before February 30 to March 2', 'after February 27 to February 30', 'since February 30 to March 2',
             'before from 2019-02-30 to 2019-03-02', 'after from 2019-02-27 to 2019-02-30', 'until February 30 to March 2',
             'before between February 30 and March 2', 'before June 31 to July 2', 'after April 29 to April 31',
             'before 2019-05-05', 'after 2019-05-05', 'since 2019-05-05', 'until 2019-05-05', 'before May 5 2019 3pm',
             'after 3pm', 'before 15:30', 'since 2019-05-05 10:00', 'after 2019-05-05 23:59:59', 'before 2019-02-30',
             'after February 30', 'before the 31st', 'until June 31', 'on or before 2020-02-29', '2012 or later',
             '3 pm or later', 'before next week', 'after this month', 'before end of next month', 'since last year',
             '-3 days', '- 3 days', '1.5 hours', '0.7 seconds', '2.5 weeks', '1.1 hours', '3.3 minutes', 'half an hour',
             'more than 3 days', 'less than 1.1 hours', '90 minutes', '36 hours', '0 days', '1e3 seconds', '5000000 years',
             '3 hours 20 minutes', 'an hour and a half', 'two and a half days', '1 hour 1 minute 1 second']
    refs = [datetime.datetime(2019, 2, 15, 0, 0, 0), datetime.datetime(2016, 11, 7, 0, 0, 0)]
    if thorough:
        refs += [datetime.datetime(2020, 2, 29, 12, 0, 0), datetime.datetime(1950, 1, 1, 0, 0, 0), datetime.datetime(2090, 10, 31, 6, 0, 0)]
    return [('en-us', e, r) for e in exprs for r in refs]


def _swallowed_key(j):
    """the signature says WHAT (culture, exception type) and on which text; the reference is part of the failing-set key
    (`common.input_key`: culture|query|reference), not of the signature: 'the 31st' raises under every reference whose
    neighbouring month has no 31st"""
    import hashlib
    return hashlib.sha1(j[1].encode('utf-8')).hexdigest()[:10]


def judge(ctx, jobs, results, family, strict_periods=False, swallowed=None, report_swallowed=False):
    ents, meta = [], []
    none_res = 0
    if swallowed is not None:
        for j, sw in zip(jobs, swallowed):
            if not sw:
                continue
            ctx.count('query on which DateTimeModel.parse swallowed an exception (%s)' % family)
            if report_swallowed:
                # an observation about the model's error handling, not a failure of the property: the entity the extractor
                # found is silently lost (the property's oracle has nothing to judge)
                ctx.report('correspondence', 'swallowed-exception:%s:%s:%s' % (j[0], sw[1], _swallowed_key(j)),
                           '%s %r (reference %s): DateTimeModel.parse swallowed %s: %s raised by the merged %s — the caller gets the '
                           'entities found before it (often none) and no sign of the failure' % (j[0], j[1], j[2], sw[1], sw[2], 'extractor' if sw[0] == 'extract' else 'parser'),
                           failing_input={'culture': j[0], 'query': j[1], 'reference': str(j[2]), 'stage': sw[0],
                                          'exception': '%s: %s' % (sw[1], sw[2])}, property_fails=False)
    for j, res in zip(jobs, results):
        ctx.count(family)
        if isinstance(res, str):
            ctx.extra['dropped_queries'] = ctx.extra.get('dropped_queries', 0) + 1
            continue
        for e in res:
            if e['values'] is None:
                none_res += 1
                continue
            ents.append(e)
            meta.append(j)
    ctx.extra['entities_with_resolution_none'] = ctx.extra.get('entities_with_resolution_none', 0) + none_res
    verdicts = dtcorpus.evaluate_wf(ents, with_sentinel=True)
    rdefs = dtcorpus.evaluate_rdef(ents, strict=strict_periods)
    for j, e, (tn_ok, vs), rd in zip(meta, ents, verdicts, rdefs):
        ctx.nontriv((j[0], j[1], str(j[2])))
        problems = []
        if not tn_ok:
            problems.append('type-name')
        for v, (shape, definite, _triple, sentinel) in zip(e['values'], vs):
            if not shape:
                problems.append('shape')
            if not definite:
                problems.append('definite')
            if not sentinel:
                problems.append('sentinel')
        if not all(rd):
            problems.append('range-definite')
        for kind in sorted(set(problems)):
            # input + reference + WHAT failed (the entity and its values); entries recorded under the old key (query hash only)
            # match as a fallback, narrowed by findings/sets/C11/narrow.json to what was observed on the unchanged tree
            sig = '%s:%s' % (kind, dtcorpus.input_key2(j[0], j[1], j[2], [e['start'], e['end'], e['type_name'], e['values']]))
            ctx.report('property', sig, '%s %r (reference %s): entity %r type %s values %r violates %s' % (
                j[0], j[1], j[2], e['text'], e['type_name'], e['values'], kind),
                failing_input={'culture': j[0], 'query': j[1], 'reference': str(j[2]), 'entity': e, 'violates': kind},
                property_fails=True, fallback=('%s:%s' % (kind, dtcorpus.input_key(j[0], j[1])),))
    return len(ents)


def correspond(ctx):
    common.setup_repo_imports()
    import recognizers_date_time
    common.assert_tree_modules(recognizers_date_time)
    unit_level(ctx)
    holiday_level(ctx)
    jobs = dtcorpus.specs_jobs()
    if ctx.thorough:
        # the Specs inputs again under other references (a third of them per extra reference, rotating)
        extra = []
        for i, (c, q, r) in enumerate(jobs):
            extra.append((c, q, dtcorpus.EXTRA_REFS[i % len(dtcorpus.EXTRA_REFS)]))
        jobs = jobs + extra
    res = dtpipe.run(jobs)
    n1 = judge(ctx, jobs, res, 'specs input', swallowed=list(dtpipe.LAST_SWALLOWED))
    gj = dtcorpus.generated_jobs(ctx.rng('gen'), ctx.thorough)
    gres = dtpipe.run(gj)
    n2 = judge(ctx, gj, gres, 'generated expression', swallowed=list(dtpipe.LAST_SWALLOWED), report_swallowed=True)
    pj = dtcorpus.period_boundary_jobs(ctx.thorough)
    pres = dtpipe.run(pj)
    n3 = judge(ctx, pj, pres, 'period expression at a year/month turn', strict_periods=True, swallowed=list(dtpipe.LAST_SWALLOWED))
    mj = modifier_jobs(ctx.thorough)
    mres = dtpipe.run(mj)
    n4 = judge(ctx, mj, mres, 'modifier / duration expression', swallowed=list(dtpipe.LAST_SWALLOWED), report_swallowed=True)
    ctx.extra['entities_judged'] = n1 + n2 + n3 + n4
    # every query of this run on which the model's `except Exception: pass` hid an exception (by exception type and culture)
    ctx.extra['swallowed_exceptions'] = dtpipe.swallowed_summary()
    for j, r in list(zip(gj, gres))[:3]:
        if not isinstance(r, str) and r:
            ctx.sample({'culture': j[0], 'query': j[1], 'reference': str(j[2]), 'entities': r[:2]})
