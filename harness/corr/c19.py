"""C19 — the Python port agrees with the cross-platform Specs wherever it claims support.

Exhaustive corpus replay: the repository's own spec runner (Python/tests/test_runner_*.py, runner.py — model /
extractor / parser / merged-parser levels, options from file names, NotSupported markers) is run against the WORKING
TREE (PYTHONPATH = shims + /repo/Python/libraries/*, never site-packages) on 16 processes; every failing or erroring
case is a concrete failing input.  No theorem can stand for 'the whole implementation on 15,000 literal cases'
(DESIGN.md §3 C19); the Lean model takes part only through the other properties' correspondence runs, whose
first-run corpus is this same Specs corpus.

The replay (b) demands exactly what the repository's runner demands (per recogniser: count, TypeName, Text, the
Resolution keys its test module compares; Start / End only where that module compares them).  For the families the
model covers end to end (a: lib/c19model.py) the comparison is the property's own — every field the Specs state."""
import os
import re
import shutil
import subprocess
import sys
import xml.etree.ElementTree as ET

from lib import common, specs, c19model

PROP = 'C19'
LEVEL = 'other'
PROPS_MODULES = [c19model.PROPS_MODULE]
GEN = list(c19model.GEN)
REQUIRED_THEOREMS = list(c19model.THEOREMS)
RULE = ('every case of Specs/**/*.json that the repository runner collects for Python and does not mark '
        'NotSupported/NotSupportedByDesign (exhaustive); distinct = distinct pytest node ids that ran')
EXPLANATION = ('exhaustive replay of the Python-supported Specs corpus through the repository\'s own runner against the '
               'working tree; not a proof: the subject is the entire un-modelled implementation on a literal corpus')
ASSUMPTIONS = ['datedelta / grapheme are shims (harness/shims); spec cases whose result depends on datedelta corner '
               'semantics are judged under the shim']


def correspond(ctx):
    # (a) the model as kernel-checked intermediary for the spec families it covers (IP, GUID, boolean, hashtag, mention,
    #     e-mail, URL): Lean proves model = spec (RTV.Props.C19) in EVERY field the Specs state (offsets where given,
    #     every Resolution key — more than the repository's runner compares), this correspondence gives
    #     implementation = model on the same inputs and fields, and implementation against spec field by field
    c19model.model_cases(ctx)
    # (b) everything: exhaustive replay through the repository's own runner
    scratch = os.path.join(common.VERIF, '.scratch', 'c19-%d' % os.getpid())
    os.makedirs(scratch, exist_ok=True)
    junit = os.path.join(scratch, 'junit.xml')
    env = common.child_env()
    env['PYTHONWARNINGS'] = 'ignore'
    cmd = ['/venv/bin/python', '-m', 'pytest', '-n', '16', 'tests', '-q', '-p', 'no:cacheprovider',
           '--timeout=600', '--junitxml=' + junit, '-o', 'junit_family=xunit1']
    try:
        p = subprocess.run(cmd, cwd=os.path.join(common.REPO, 'Python'), env=env, stdout=subprocess.PIPE,
                           stderr=subprocess.STDOUT, text=True, timeout=3000)
        tail = p.stdout[-1500:]
        if not os.path.exists(junit):
            raise common.InfraError('spec runner produced no junit file: ' + tail)
        root = ET.parse(junit).getroot()
        passed = failed = skipped = errors = 0
        per_fn = {}
        for tc in root.iter('testcase'):
            name = tc.get('name', '')
            fn = name.split('[')[0]
            node = '%s::%s' % (tc.get('classname', ''), name)
            kinds = [c.tag for c in tc]
            if 'skipped' in kinds:
                skipped += 1
                continue
            if 'failure' in kinds or 'error' in kinds:
                el = next(c for c in tc if c.tag in ('failure', 'error'))
                if 'failure' in kinds:
                    failed += 1
                else:
                    errors += 1
                msg = (el.get('message') or '') + '\n' + (el.text or '')
                ctx.report('property', 'spec:' + node[:300], 'spec case fails: %s' % msg[:600],
                           failing_input={'pytest_node': node, 'message': msg[:3000],
                                          'replay': 'cd /repo/Python && PYTHONPATH=<shims:libraries> pytest "%s"' % node},
                           property_fails=True)
                continue
            passed += 1
            per_fn[fn] = per_fn.get(fn, 0) + 1
            ctx.nontriv(node)
        # collection errors show up as testcases with <error>; a run that silently collects fewer cases than the corpus
        # holds is a broken tie, not a pass
        supported = sum(1 for c in specs.iter_cases() if c['supported'] and c['recognizer'] != 'Timex')
        ran_spec = sum(n for f, n in per_fn.items() if f.startswith('test_') and not f.startswith('test_initialization'))
        ctx.count('spec case (passed)', passed)
        ctx.count('spec case (failed)', failed + errors)
        ctx.extra.update({'passed': passed, 'failed': failed, 'errors': errors, 'skipped_not_supported': skipped,
                          'supported_cases_in_corpus': supported, 'per_test_function': per_fn, 'exhaustive': True})
        if passed + failed + errors < supported:
            ctx.report('correspondence', 'runner-collected-fewer-cases',
                       'runner executed %d cases but the corpus holds %d Python-supported cases' % (
                           passed + failed + errors, supported), failing_input=None, property_fails=False)
        ctx.sample({'runner_tail': tail.strip().splitlines()[-1] if tail.strip() else ''})
        for f in sorted(per_fn)[:6]:
            ctx.sample({'test_function': f, 'cases_passed': per_fn[f]})
    finally:
        shutil.rmtree(scratch, ignore_errors=True)
