"""C14 — TIMEX strings survive parsing and formatting unchanged; from_date / from_date_time / from_time are canonical.

Tie: unit correspondence of RTV.Model.Timex (Lean driver, running the patterns regenerated from the tree) against
the WORKING TREE's `datatypes_timex_expression` (never site-packages): `Timex(s)` field values, `.types`,
`.timex_value()`, `from_date*`; plus the property's own predicates (independent of the model) evaluated on the
implementation: fields(parse(format(parse s))) = fields(parse s), format idempotent, canonical strings fixed,
`from_date*` = the ISO rendering."""
import datetime
import itertools
import json
import os
import re

from lib import common, timexcorr as tc
from lib.common import cps

PROP = 'C14'
LEVEL = 'proof'
PROPS_MODULES = ['RTV.Props.C14']
GEN = ['timexregex', 'timexenglish']
REQUIRED_THEOREMS = ['genCfg_ok', 'parse_format_fields', 'format_idempotent', 'canonical_fixed', 'tree_roundtrip',
                     # the guards are exact (audit item 17); Canonical is a grammar and equals the image of format
                     'canonical_iff_image', 'inRange_roundTrips', 'dt_guard_necessary', 'noncombinable_witnesses',
                     'out_of_range_format_empty', 'inRange_d_exact', 'inRange_exact',
                     'from_date_canonical', 'from_date_time_canonical', 'from_time_canonical', 'format_parse',
                     'duration_int_format', 'duration_examples', 'repaired_roundtrips', 'tiny_amount_not_stable',
                     'parse_dur', 'format_dur', 'duration_int_roundtrip', 
                     'parse_dur_frac', 'format_dur_dec', 'duration_frac_roundtrip', 'parse_dur_exponent', 'tiny_amount_general',
                     # functions of the package outside the parse/format property (characterisation only)
                     'genEng_facts', 'convert_time_12h', 'english_date_suffix', 'to_string_week_not_implemented',
                     'set_to_string_always_raises', 'convert_date_keyerror', 'creator_yesterday', 'infer_date_forms',
                     'infer_time_forms']
RULE = ('every TimexRegex pattern x boundary years (0001/0999/1000/1999/2000/9999 + seeded) x all months / boundary '
        'days / weeks 00-54 / weekdays 0-9 / hours 00-25 / minutes, seconds 00,01,30,59,60; durations with integer '
        'and fractional amounts (0, .5, 1.50, 0010, 1E-7 form); date x time and date x part-of-day combinations; '
        '(start,end,duration) ranges; strings generated from the tree\'s own pattern texts; noise (trailing newline, '
        'non-ASCII digits, truncated / mutated strings); from_date / from_date_time / from_time on a 0001..9999 grid. '
        'non-trivial = distinct string whose Timex has at least one field set')
ASSUMPTIONS = ['Unicode Nd table and re/Decimal behaviour of the running CPython (digit table regenerated into Gen)',
               'Decimal results with more than 28 significant digits are outside the model (never generated)',
               'property oracles apply to in-range fields: year 0001-9999, month 01-12, day 01-31, weekday 1-7, '
               'week 01-53, week-of-month 1-5, hour 00-24, minute/second 00-59, amount > 0 unless stated; the accepted '
               'out-of-range strings that format to the empty string (0000, XXXX-00, XXXX-WXX-0: Python truthiness of 0) '
               'are counted as observations (evidence key accepted_out_of_range_format_empty), not reported',
               'a year / month / season / week / week-of-month form followed by a time (2020-05T05, SUTMO) is accepted by the '
               'datatype but is not a date+time combination: outside the quantifier; the strings on which the time is '
               'dropped are counted (evidence key noncombinable_time_dropped), not reported']
TRUSTED_EXTRA = ['harness/translate/timexregex.py (re._parser parse of the pattern texts -> Item lists)']

YEARS = ['0001', '0999', '1000', '1999', '2000', '2020', '9999']
SEASONS = ['SP', 'SU', 'FA', 'WI']
PODS = ['DT', 'NI', 'MO', 'AF', 'EV']
INT_AMOUNTS = ['1', '2', '7', '10', '36', '99', '100', '1000', '0010', '007', '123456789']
FRAC_AMOUNTS = ['0.5', '.5', '1.5', '1.50', '2.25', '10.0', '0.25', '3.125', '00.5', '0.10']
# date forms that do NOT combine with a time (Lean: ¬ Combinable), in-range instances
NONCOMBINABLE = [('year', ['2020']), ('yearmonth', ['2020-05', '2020-12']), ('season', ['SU', 'WI']),
                 ('yearseason', ['2020-SU']), ('week', ['2020-W05', '2020-W53']), ('weekend', ['2020-W05-WE']),
                 ('month', ['XXXX-05', 'XXXX-12']), ('monthweek', ['XXXX-05-W02']),
                 ('monthweekday', ['XXXX-05-WXX-2-3', 'XXXX-12-WXX-5-7'])]


def dd(n, w=2):
    return str(n).rjust(w, '0')


def grammar(ctx):
    """-> list of (family, string, in_range, tag). `in_range` strings are subject to the property oracles."""
    r = ctx.rng('grammar')
    years = YEARS + [dd(r.randint(1, 9999), 4) for _ in range(12 if ctx.thorough else 4)]
    out = []
    months_all = [dd(m) for m in range(0, 14)] + ['99']
    days_all = [dd(d) for d in (0, 1, 2, 9, 10, 15, 28, 29, 30, 31, 32, 99)]
    weeks_all = [dd(w) for w in (0, 1, 2, 9, 10, 26, 52, 53, 54, 99)]
    hours_all = [dd(h) for h in list(range(0, 26)) + [99]]
    ms_all = [dd(x) for x in (0, 1, 9, 10, 30, 59, 60, 99)]

    def inr(**kw):
        ok = True
        for k, v in kw.items():
            v = int(v)
            lo, hi = {'y': (1, 9999), 'm': (1, 12), 'd': (1, 31), 'w': (1, 53), 'dow': (1, 7), 'wom': (1, 5),
                      'h': (0, 24), 'mi': (0, 59), 's': (0, 59)}[k]
            ok = ok and lo <= v <= hi
        return ok

    dates = []      # (string, in_range) for combination with times
    for y in years + ['0000']:
        for m in months_all:
            for d in days_all:
                s = '%s-%s-%s' % (y, m, d)
                out.append(('date', s, inr(y=y, m=m, d=d), None))
        out.append(('year', y, inr(y=y), None))
        for m in months_all:
            out.append(('yearmonth', '%s-%s' % (y, m), inr(y=y, m=m), None))
        for se in SEASONS:
            out.append(('yearseason', '%s-%s' % (y, se), inr(y=y), None))
        for w in weeks_all:
            out.append(('week', '%s-W%s' % (y, w), inr(y=y, w=w), None))
            out.append(('weekend', '%s-W%s-WE' % (y, w), inr(y=y, w=w), None))
    for m in months_all:
        for d in days_all:
            out.append(('openyear', 'XXXX-%s-%s' % (m, d), inr(m=m, d=d), None))
        out.append(('month', 'XXXX-%s' % m, inr(m=m), None))
        for w in [dd(x) for x in (0, 1, 2, 3, 4, 5, 6, 10, 53, 99)]:
            out.append(('monthweek', 'XXXX-%s-W%s' % (m, w), inr(m=m, wom=w), None))
        for w in range(10):
            for d in range(10):
                out.append(('monthweekday', 'XXXX-%s-WXX-%d-%d' % (m, w, d), inr(m=m, wom=w, dow=d), None))
    for d in range(10):
        out.append(('weekday', 'XXXX-WXX-%d' % d, inr(dow=d), None))
    for se in SEASONS:
        out.append(('season', se, True, None))
    times = []
    for h in hours_all:
        times.append(('T%s' % h, inr(h=h)))
        for mi in ms_all:
            times.append(('T%s:%s' % (h, mi), inr(h=h, mi=mi)))
    for h in ('00', '05', '12', '23', '24', '25'):
        for mi in ms_all:
            for s in ms_all:
                times.append(('T%s:%s:%s' % (h, mi, s), inr(h=h, mi=mi, s=s)))
    for t, ok in times:
        out.append(('time', t, ok, None))
    for p in PODS:
        out.append(('partofday', 'T' + p, True, None))
    out.append(('present', 'PRESENT_REF', True, None))
    # durations
    for unit, pre in [('Y', 'P'), ('M', 'P'), ('W', 'P'), ('D', 'P'), ('H', 'PT'), ('M', 'PT'), ('S', 'PT')]:
        for a in INT_AMOUNTS:
            out.append(('duration-int', '%s%s%s' % (pre, a, unit), True, None))
        for a in FRAC_AMOUNTS:
            out.append(('duration-frac', '%s%s%s' % (pre, a, unit), True, None))
        for a in ('0', '00', '0.0', '.0', '0.00'):
            out.append(('duration-zero', '%s%s%s' % (pre, a, unit), True, 'zero'))
        for a in ('0.0000001', '.00000005', '0.00000012'):
            out.append(('duration-tiny', '%s%s%s' % (pre, a, unit), True, 'tiny'))
        for _ in range(6 if ctx.thorough else 2):
            a = str(r.randint(1, 10 ** r.randint(1, 12)))
            out.append(('duration-int', '%s%s%s' % (pre, a, unit), True, None))
            a = '%d.%s' % (r.randint(0, 999), str(r.randint(1, 10 ** r.randint(1, 5))))
            out.append(('duration-frac', '%s%s%s' % (pre, a, unit), True, None))
    # date x time, date x part of day
    base = [('2020-02-29', True), ('0001-01-01', True), ('9999-12-31', True), ('XXXX-05-06', True),
            ('XXXX-WXX-3', True), ('XXXX-WXX-7', True), ('2020-13-01', False), ('XXXX-WXX-0', False),
            ('1999-12-31', True), ('XXXX-12-25', True)]
    tsel = times if ctx.thorough else [t for i, t in enumerate(times) if i % 7 == 0 or t[0] in ('T00', 'T24', 'T05:30', 'T23:59:59')]
    for d, ok in base:
        for t, ok2 in tsel:
            out.append(('datetime', d + t, ok and ok2, None))
        for p in PODS:
            out.append(('datepartofday', d + 'T' + p, ok, None))
    # the other nine date forms + a time of day / part of day: ACCEPTED by the datatype (extract_date_time applies the 'date'
    # patterns to the part before 'T' and the 'time' patterns to the rest and assigns the fields of both), but a year /
    # month / season / week / week-of-month followed by 'T..' is not a "date+time combination": OUTSIDE the property's
    # quantifier, like year 0000.  Correspondence only + an evidence counter (Lean: dt_guard_necessary /
    # noncombinable_witnesses say what the code does there: timex_value() drops the time).
    y2 = dd(r.randint(1, 9999), 4)
    for form, ds in NONCOMBINABLE:
        for d in ds:
            for yy in ('2020', y2):
                for t in ('T05', 'T05:30', 'T05:30:15', 'TMO', 'T00'):
                    out.append(('noncombinable+time', d.replace('2020', yy) + t, False, 'noncomb:' + form))
    # out-of-range date fields + a time (year 0000, month 00, weekday 0): correspondence only
    for d in ('0000', 'XXXX-00', 'XXXX-WXX-0', '0000-05', 'XXXX-00-W02'):
        for t in ('T05', 'T05:30', 'T05:30:15', 'TMO'):
            out.append(('other+time', d + t, False, None))
    # ranges (start,end,duration): the middle part is ignored by the parser
    starts = ['2020-01-01', '2020-02-28', '2020-12-31', '2019-02-28', '0001-01-01', '9999-12-01', 'XXXX-03-31',
              'XXXX-WXX-3', 'XXXX-WXX-6', '2020-01-31', '2020-11-15', '2020-01-01T05', '2020-12-31T23',
              'XXXX-WXX-5T22:10', 'T08', 'T23:30', 'T08:20:10', 'XXXX-02-28T10']
    durs = ['P1D', 'P4D', 'P30D', 'P366D', 'P1W', 'P2W', 'P1M', 'P3M', 'P1Y', 'P10Y', 'P1.5Y', 'P0.5D', 'P1.0M', 'PT1H',
            'PT4H', 'PT30H', 'PT20M', 'PT45M', 'PT55M', 'PT90M', 'PT30S', 'P0D', 'PT0H']
    for a in starts:
        for c in durs:
            out.append(('range', '(%s,%s,%s)' % (a, a, c), False, None))
    for _ in range(400 if ctx.thorough else 60):
        y, m, d = r.randint(1, 9998), r.randint(1, 12), r.randint(1, 28)
        n = r.choice([1, 2, 7, 30, 365, 1000])
        e = datetime.date(y, m, d) + datetime.timedelta(days=n)
        out.append(('range-consistent', '(%04d-%02d-%02d,%04d-%02d-%02d,P%dD)' % (y, m, d, e.year, e.month, e.day, n),
                    True, None))
    return out


def noise(ctx):
    r = ctx.rng('noise')
    good = ['2020-01-01', 'XXXX-WXX-3', 'XXXX-05-06', '2020', '2020-05', 'SU', '2020-W05', '2020-W05-WE', 'XXXX-05',
            'XXXX-05-W02', 'XXXX-05-WXX-2-3', 'T05', 'T05:30', 'T05:30:15', 'TMO', 'P1D', 'PT1.5H', 'PRESENT_REF',
            '2020-01-01T05:30', '(2020-01-01,2020-01-05,P4D)', '(T08,T12,PT4H)']
    out = ['', '(', ')', '()', '(,,)', '(,)', '(a,b,c,d)', 'P', 'PT', 'P1', 'PT1', 'P1T', 'T', 'TT', 'X', 'XXXX', 'XXXX-',
           'XXXX-WXX-', 'P1.D', 'P.D', 'P1..5D', 'P1.5.D', 'P-1D', 'P+1D', 'P1e3D', 'P１D', 'PRESENT_REF\n', 'PRESENT',
           '2020-1-1', '20200101', 'T5', 'T05:3', 'T05:30:1', 't05', '2020-01-01t05', ' 2020', '2020 ', '2020\n\n',
           '\n2020', '(2020-01-01,x,P1D)\n', '(2020-01-01,x,P1D', '2020-01-01,x,P1D)', '(T08,T12,PT4H)x',
           '(2020-01-01,x,y,P1D)', '(2020-01-01,,P1D)', '(,x,P1D)', '(2020-01-01,x,)', '(P1D,x,2020-01-01)',
           '(PRESENT_REF,x,P1D)', 'PRESENT_REFT05', '2020-W05-W', 'WE', 'WXX-3', 'XXXX-WXX-3-4', 'XXXX-WXX-33',
           '２０２０', '٢٠٢٠-٠١-٠١', 'T٠٥', 'P٣D', 'P٣.٥D', 'P1.٥D', '2020-0１-01', '१९९९', 'P𝟓D', 'XXXX-WXX-٣',
           '2020-01-01T05T06', 'T05T', '2020TMOT05', 'P1YT', 'PT1Y', 'P1H', 'PT1D', 'P1S', 'PTMO']
    for g in good:
        out += [g + '\n', g + ' ', ' ' + g, g.lower(), g + g, g[:-1], g[1:]]
    alphabet = '0123456789-:.TPXWESUFAIMONDVYH(),\n ٣'
    for _ in range(4000 if ctx.thorough else 700):
        g = list(r.choice(good))
        for _ in range(r.randint(1, 2)):
            k = r.random()
            i = r.randint(0, len(g))
            if k < 0.4 and g:
                g[min(i, len(g) - 1)] = r.choice(alphabet)
            elif k < 0.7:
                g.insert(i, r.choice(alphabet))
            elif g:
                del g[min(i, len(g) - 1)]
        out.append(''.join(g))
    return [('noise', s, False, None) for s in out]


# ---------------------------------------------------------------- strings from the tree's own patterns

def tree_grammar(ctx, n_per):
    """Strings generated from the pattern texts that stand in the working tree now (follows an edit of
    timex_regex.py).  In-range judgement by group name."""
    from translate import timexregex as tr
    try:
        import re._parser as sre_parse
        import re._constants as sre_c
    except ImportError:
        import sre_parse
        import sre_constants as sre_c
    pats = tr.load_tree_patterns()
    r = ctx.rng('tree-grammar')

    def gen(seq, pick):
        s = ''
        for op, av in seq:
            if op is sre_c.LITERAL:
                s += chr(av)
            elif op is sre_c.AT:
                pass
            elif op is sre_c.IN:
                opts = []
                for o, a in av:
                    if o is sre_c.CATEGORY and a is sre_c.CATEGORY_DIGIT:
                        opts += list(pick('digit'))
                    elif o is sre_c.LITERAL:
                        opts.append(chr(a))
                    elif o is sre_c.RANGE:
                        opts += [chr(a[0]), chr(a[1])]
                s += r.choice(opts or ['?'])
            elif op is sre_c.SUBPATTERN:
                s += gen(av[3], pick)
            elif op is sre_c.BRANCH:
                s += gen(r.choice(av[1]), pick)
            elif op in (sre_c.MAX_REPEAT, sre_c.MIN_REPEAT):
                lo, hi, sub = av
                k = r.randint(lo, min(hi, lo + 3))
                for _ in range(k):
                    s += gen(sub, pick)
            elif op is sre_c.NOT_LITERAL:
                s += 'z'
            elif op is sre_c.ANY:
                s += r.choice('0aT-')
            else:
                s += ''
        return s

    rng_of = {'year': (1, 9999), 'month': (1, 12), 'day_of_month': (1, 31), 'day_of_week': (1, 7),
              'week_of_year': (1, 53), 'week_of_month': (1, 5), 'hour': (0, 24), 'minute': (0, 59), 'second': (0, 59)}
    out = []
    for fam in ('date', 'time', 'period'):
        for text in pats[fam]:
            parsed = list(sre_parse.parse(text))
            cre = re.compile(text)
            for i in range(n_per):
                lowbias = i % 3 == 0
                s = gen(parsed, lambda what: '0123' if lowbias else '0123456789')
                m = cre.match(s)
                ok = m is not None
                if m:
                    for k, v in m.groupdict().items():
                        if k in rng_of and v is not None and v.isdigit():
                            lo, hi = rng_of[k]
                            ok = ok and lo <= int(v) <= hi
                        if k == 'amount' and v is not None:
                            try:
                                ok = ok and float(v) > 0
                            except ValueError:
                                ok = False
                tag = None
                if m and 'week_of_month' in m.groupdict() and 'day_of_week' not in m.groupdict():
                    tag = 'monthweek'
                if m and 'amount' in m.groupdict():
                    tag = 'amount'
                out.append(('tree:' + fam, s, ok, tag))
    return out


# ---------------------------------------------------------------- regex-independent direction: field grids

def field_grid(ctx):
    """-> list of (kind, kwargs, expected canonical string).  Built from field VALUES through the constructor, so it does
    not depend on what the patterns of the tree accept now: a canonical string the formatter emits and the parser no
    longer reads is a property failure with that string."""
    r = ctx.rng('field-grid')
    out = []
    years = [1, 999, 1000, 1999, 2000, 2020, 9999] + [r.randint(1, 9999) for _ in range(6 if ctx.thorough else 2)]
    months = list(range(1, 13))
    days = [1, 2, 9, 10, 15, 28, 29, 30, 31]
    times = [(h, m, s) for h in (0, 1, 9, 10, 12, 23, 24) for m in (0, 1, 30, 59) for s in (0, 1, 30, 59)]
    if ctx.thorough:
        times = [(h, m, s) for h in range(25) for m in (0, 1, 9, 10, 30, 59) for s in (0, 1, 9, 10, 30, 59)]

    def T(h, m, s):
        return (('hour', h), ('minute', m), ('second', s))

    for y in years:
        for m in months:
            for d in days:
                out.append(('date', (('year', y), ('month', m), ('day_of_month', d)), '%04d-%02d-%02d' % (y, m, d)))
            out.append(('yearmonth', (('year', y), ('month', m)), '%04d-%02d' % (y, m)))
        out.append(('year', (('year', y),), '%04d' % y))
        for se in SEASONS:
            out.append(('yearseason', (('year', y), ('season', se)), '%04d-%s' % (y, se)))
        for w in range(1, 54):
            out.append(('week', (('year', y), ('week_of_year', w)), '%04d-W%02d' % (y, w)))
            out.append(('weekend', (('year', y), ('week_of_year', w), ('weekend', True)), '%04d-W%02d-WE' % (y, w)))
    for m in months:
        for d in days:
            out.append(('openyear', (('month', m), ('day_of_month', d)), 'XXXX-%02d-%02d' % (m, d)))
        out.append(('month', (('month', m),), 'XXXX-%02d' % m))
        for w in range(1, 6):
            out.append(('monthweek', (('month', m), ('week_of_month', w)), 'XXXX-%02d-W%02d' % (m, w)))
            for dow in range(1, 8):
                out.append(('monthweekday', (('month', m), ('week_of_month', w), ('day_of_week', dow)),
                            'XXXX-%02d-WXX-%d-%d' % (m, w, dow)))
    for dow in range(1, 8):
        out.append(('weekday', (('day_of_week', dow),), 'XXXX-WXX-%d' % dow))
    for se in SEASONS:
        out.append(('season', (('season', se),), se))
    for (h, m, s) in times:
        out.append(('time', T(h, m, s), iso_time(h, m, s)))
    for p in PODS:
        out.append(('partofday', (('part_of_day', p),), 'T' + p))
    out.append(('present', (('now', True),), 'PRESENT_REF'))
    for name, pre, u in [('years', 'P', 'Y'), ('months', 'P', 'M'), ('weeks', 'P', 'W'), ('days', 'P', 'D'),
                         ('hours', 'PT', 'H'), ('minutes', 'PT', 'M'), ('seconds', 'PT', 'S')]:
        for a in ['0', '1', '2', '7', '10', '36', '99', '100', '1000', '123456789', '0.5', '1.5', '1.50', '2.25', '10.0',
                  '0.25', '3.125', '0.10', '0.000001', '0.0000001']:
            out.append(('duration', ((name, 'D:' + a),), '%s%s%s' % (pre, a, u)))
    # minute = 0 with second != 0 (and the other zero patterns) always, alone (above) and attached to a date (here)
    tsel = times if ctx.thorough else times[::5] + [(0, 0, 0), (24, 0, 0), (23, 59, 59), (5, 30, 0), (14, 0, 5), (0, 0, 1),
                                                    (23, 0, 59), (14, 5, 0), (10, 0, 30)]
    for (h, m, s) in tsel:
        out.append(('datetime', (('year', 2020), ('month', 2), ('day_of_month', 29)) + T(h, m, s), '2020-02-29' + iso_time(h, m, s)))
        out.append(('datetime', (('year', 1), ('month', 1), ('day_of_month', 1)) + T(h, m, s), '0001-01-01' + iso_time(h, m, s)))
        out.append(('datetime', (('month', 12), ('day_of_month', 25)) + T(h, m, s), 'XXXX-12-25' + iso_time(h, m, s)))
        out.append(('datetime', (('day_of_week', 1 + (h + m + s) % 7),) + T(h, m, s), 'XXXX-WXX-%d' % (1 + (h + m + s) % 7) + iso_time(h, m, s)))
    for p in PODS:
        out.append(('datepartofday', (('year', 2020), ('month', 12), ('day_of_month', 31), ('part_of_day', p)), '2020-12-31T' + p))
        out.append(('datepartofday', (('month', 5), ('day_of_month', 6), ('part_of_day', p)), 'XXXX-05-06T' + p))
        out.append(('datepartofday', (('day_of_week', 3), ('part_of_day', p)), 'XXXX-WXX-3T' + p))
    return out


def check_width_order(ctx):
    """`fixed_format_number(n, size)` at both widths for the same n in ONE process, both orders (a width-less memo would
    print '0012-12-25' as '12-12-25' or 'XXXX-12' as 'XXXX-0012', depending on which came first).  Numbers 61..98 are not
    formatted by the rest of the run, so each sequence meets a fresh n; small n (1..31) are added for the mixed case."""
    seqs = []
    for n in list(range(61, 99)) + [1, 7, 12, 25, 31]:
        w4 = ((('year', n),), '%04d' % n)
        w2a = ((('month', n),), 'XXXX-%02d' % n)
        w2b = ((('hour', n), ('minute', 0), ('second', 0)), 'T%02d' % n)
        mixed = ((('year', n), ('month', n), ('day_of_month', n)), '%04d-%02d-%02d' % (n, n, n))
        order = [w4, w2a, mixed, w2b, w4] if n % 2 else [w2a, w4, w2b, mixed, w2a]
        seqs.append(order)
    res = tc.run_ops([('ctorseq', tuple(kw for kw, _ in seq)) for seq in seqs], chunk=3)
    for seq, rt in zip(seqs, res):
        ctx.count('ctor:width-order')
        exp = [e for _, e in seq]
        if rt != exp:
            tc.report(ctx, 'property', 'ctor-format-width-order',
                      'formatting %s one after the other in one process gives %r, expected %r' % ([dict(k) for k, _ in seq], rt, exp),
                      failing_input={'op': 'Timex(**fields).timex_value() for each field set, in this order, one process',
                                     'fields_in_order': [dict(k) for k, _ in seq], 'observed': rt, 'expected': exp},
                      property_fails=True)


def check_field_grid(ctx):
    check_width_order(ctx)
    grid = field_grid(ctx)
    res = tc.run_ops([('ctor', kw) for _, kw, _ in grid])
    for (kind, kw, exp), rt in zip(grid, res):
        ctx.count('ctor:' + kind)
        ctx.nontriv(('ctor', kw))
        bad = sig = None
        tiny = kind == 'duration' and isinstance(rt, tuple) and 'E' in rt[0]
        if isinstance(rt, str):
            bad, sig = 'Timex(%s).timex_value() raises or hangs: %s' % (dict(kw), rt), 'ctor-format-' + kind
        else:
            v, f1, f2, v2 = rt
            if v != exp and not tiny:
                bad, sig = 'Timex(%s).timex_value() is %r, expected the canonical %r' % (dict(kw), v, exp), 'ctor-format-' + kind
            elif f1 != f2:
                bad = 'the canonical string %r that the formatter emits for %s is not read back: Timex(%r) has %s, expected %s' % (
                    v, dict(kw), v, f2, f1)
                sig = 'tiny-amount-scientific' if tiny else 'canonical-not-parsed-' + kind
            elif v2 != v:
                bad, sig = 'format not idempotent: fields %s -> %r -> %r' % (dict(kw), v, v2), 'canonical-not-stable-' + kind
        if bad:
            tc.report(ctx, 'property', sig, bad,
                      failing_input={'op': 'Timex(**fields).timex_value() -> Timex(text)', 'fields': dict(kw), 'kind': kind,
                                     'string': rt[0] if isinstance(rt, tuple) else None, 'expected_text': exp,
                                     'observed': rt}, property_fails=True)
    ctx.sample({'op': 'ctor', 'fields': dict(grid[len(grid) // 2][1]), 'result': res[len(grid) // 2]})


CORPUS = os.path.join(common.VERIF, 'corpus', 'C14-canonical.jsonl')


def check_corpus(ctx):
    """Committed canonical strings per kind with the field values they must parse to (independent of the patterns that
    stand in the tree now)."""
    rows = [json.loads(l) for l in open(CORPUS, encoding='utf-8') if l.strip()]
    res = tc.run_ops([('roundtrip', r['string']) for r in rows])
    for r, rt in zip(rows, res):
        ctx.count('corpus:' + r['kind'])
        s = r['string']
        bad = None
        if isinstance(rt, str):
            bad = 'Timex(%r) raises or hangs: %s' % (s, rt)
        elif rt[1] != r['fields']:
            bad = 'canonical string %r is no longer read: Timex(%r) has fields %s, expected %s' % (s, s, rt[1], r['fields'])
        elif rt[0] != s:
            bad = 'canonical string %r does not come back identical: timex_value() is %r' % (s, rt[0])
        if bad:
            tc.report(ctx, 'property', 'canonical-corpus-' + r['kind'], bad,
                      failing_input={'op': 'Timex(s).timex_value() on a committed canonical string', 'string': s,
                                     'kind': r['kind'], 'expected_fields': r['fields'], 'observed': rt}, property_fails=True)


# ---------------------------------------------------------------- package functions OUTSIDE the C14 property

def check_convert(ctx):
    """`Timex.to_string`, `Timex.to_natural_language(reference)`, `convert_timex_set_to_string`, `TimexCreator.*` — not part
    of the parse/format property (nor of C15): unit correspondence of RTV.Model.TimexConvert only, a disagreement is a
    correspondence break without a property verdict.  (What these functions compute, including their oddities — 'May2020',
    '11st', NotImplementedError for every ISO week, KeyError in convert_date for days >= 10 — is characterised by the
    theorems of the section "outside the property" of Props/C14.lean.)"""
    r = ctx.rng('convert')
    strs = ['', 'garbage', 'PRESENT_REF', 'XXXX-WXX-0', 'XXXX-WXX-8', 'XXXX-13-01', 'XXXX-00-01', '2020-02-30', 'T24', 'T99',
            '(2020-01-01,x,P4D)', '(T08,T12,PT4H)', '(2020-01-01T05,x,PT2H)', 'P1.5Y', 'P0W', 'P1D', 'PT1H', 'PT1M', 'PT1S',
            'P1W', 'P1M', 'P1Y', 'P2D', 'P10Y', '2020-W05', '2020-W05-WE', 'XXXX-05-W02', 'XXXX-05-W05', 'XXXX-05-W00',
            'XXXX-05-WXX-2-3', '0000', '0000-05', 'XXXX-WXX-3TEV', 'XXXX-05-06TNI']
    for y in ('2019', '2020', '2021', '0001', '9999'):
        strs += [y, y + '-SU', y + '-WI', y + '-W01', y + '-W53-WE']
        for m in (1, 2, 5, 12):
            strs.append('%s-%02d' % (y, m))
            for d in (1, 2, 3, 4, 9, 10, 11, 12, 13, 21, 22, 23, 28, 31):
                strs.append('%s-%02d-%02d' % (y, m, d))
    for m in range(0, 14):
        strs.append('XXXX-%02d' % m)
        for d in (1, 2, 3, 11, 12, 13, 20, 21, 30, 31):
            strs.append('XXXX-%02d-%02d' % (m, d))
    for w in range(0, 10):
        strs.append('XXXX-WXX-%d' % w)
    for se in SEASONS:
        strs.append(se)
    times = ['T%02d' % h for h in range(0, 25)] + ['T%02d:%02d' % (h, m) for h in (0, 1, 11, 12, 13, 23) for m in (0, 5, 30, 59)] + \
            ['T%02d:%02d:%02d' % (h, m, sec) for h in (0, 12, 17) for m in (0, 7) for sec in (0, 5, 59)]
    strs += times + ['T' + p for p in PODS]
    for dpart in ('2020-01-15', '2020-01-05', 'XXXX-05-06', 'XXXX-WXX-3', '2020-01-14', '2020-01-16', '2020-01-20'):
        strs += [dpart + t for t in times[::6]] + [dpart + 'T' + p for p in PODS]
    strs = list(dict.fromkeys(strs))
    ops = [('tostr', x) for x in strs] + [('settostr', x) for x in strs[:40]]
    refs = [(2020, 1, 15, 0), (2020, 1, 15, 36000), (2020, 1, 14, 0), (2020, 1, 16, 0), (2020, 1, 13, 0), (2020, 1, 19, 0),
            (2020, 1, 20, 0), (2020, 1, 8, 3600), (2020, 1, 22, 0), (2019, 12, 30, 0), (2021, 1, 1, 0), (2020, 12, 31, 86399),
            (2019, 6, 1, 0), (2021, 2, 1, 0), (2020, 2, 3, 0), (9999, 12, 31, 0), (1, 1, 3, 0)]
    sel = strs if ctx.thorough else [x for i, x in enumerate(strs) if i % 3 == 0 or x.startswith('2020-01') or x.startswith('2020-W')]
    for ref in refs:
        ops += [('torel', x) + ref for x in sel]
    days = [(2020, 1, 15), (2020, 1, 13), (2020, 1, 19), (2020, 12, 31), (2021, 1, 1), (2020, 2, 29), (1, 1, 1), (1, 1, 9),
            (9999, 12, 31), (9999, 12, 20)] + [(r.randint(1900, 2100), r.randint(1, 12), r.randint(1, 28)) for _ in range(60)]
    for name in ('yesterday', 'week_from_today', 'week_back_today', 'this_week', 'next_week', 'last_week'):
        ops += [('creator', name) + dt for dt in days]
    ops += [('creator', 'next_weeks_from_today') + dt + (n,) for dt in days[:20] for n in (0, 1, 2, 10)]
    impl = tc.run_ops(ops)
    model = tc.drive([tc.line_of(o) for o in ops])
    for o, a, b in zip(ops, impl, model):
        ctx.count('outside-property:' + o[0])
        if a.startswith('S') and len(a) > 1:
            ctx.nontriv(('conv',) + tuple(map(str, o)))
        if b == 'unmodelled':
            ctx.extra['unmodelled_answers_convert'] = ctx.extra.get('unmodelled_answers_convert', 0) + 1
        elif a != b:
            tc.report(ctx, 'correspondence', 'convert-' + o[0],
                      '%r: implementation %s ; model %s (function outside the C14 property: no property verdict)' % (
                          o, common.uncps(a[1:]) if a.startswith('S') else a, common.uncps(b[1:]) if b.startswith('S') else b),
                      failing_input={'op': o[0], 'args': o[1:], 'implementation': a, 'model': b})
    ctx.sample({'op': ops[5], 'implementation': impl[5]})


def classify(fam, s, tag, v):
    """stable signature of a failed round trip"""
    if fam == 'monthweek' or tag == 'monthweek' or re.match(r'^XXXX-\d\d-W\d\d$', s):
        return 'week-of-month-reformat'
    m = re.match(r'^PT?(\d*\.?\d+)[YMWDHS]$', s)
    if m:
        try:
            val = float(m.group(1))
        except ValueError:
            val = None
        if val == 0:
            return 'zero-amount-empty'
        if isinstance(v, str) and 'E' in v.replace('PRESENT_REF', ''):
            return 'tiny-amount-scientific'
    return 'roundtrip-' + fam.split(':')[0]


def iso_time(h, m, s):
    if m == 0 and s == 0:
        return 'T%02d' % h
    if s == 0:
        return 'T%02d:%02d' % (h, m)
    return 'T%02d:%02d:%02d' % (h, m, s)


def correspond(ctx):
    try:
        _correspond(ctx)
    finally:
        tc.close_pool()


def _correspond(ctx):
    from translate import timexregex as _tr
    for fam, text, why in _tr.UNTRANSLATED:
        ctx.notes.append('pattern not expressible by the flat matcher (model runs a never-matching pattern instead): %s %r (%s)' % (fam, text, why))
    check_field_grid(ctx)
    check_corpus(ctx)
    check_convert(ctx)
    cases = grammar(ctx) + noise(ctx) + tree_grammar(ctx, 400 if ctx.thorough else 60)
    # distinct strings, first family wins
    seen = {}
    for fam, s, ok, tag in cases:
        if s not in seen:
            seen[s] = (fam, s, ok, tag)
    cases = list(seen.values())
    ops = [('parse', s) for _, s, _, _ in cases]
    lines = [tc.line_of(o) for o in ops]
    impl = tc.run_ops(ops)
    model = tc.drive(lines)
    rts = tc.run_ops([('roundtrip', s) for _, s, _, _ in cases])
    unmod = 0
    for (fam, s, ok, tag), a, b, rt in zip(cases, impl, model, rts):
        ctx.count('parse:' + fam.split(':')[0] + ('' if not fam.startswith('tree') else '(tree-grammar)'))
        if not a.startswith('F|N|N|N|N|N|N|N|N|N|N|N|N|N|F|N|N|N ##'):
            ctx.nontriv(s)
        # ---- the property's own predicates on the implementation (in-range strings only)
        bad = None
        if ok:
            if isinstance(rt, str):
                bad = 'parse/format raises or hangs: %s' % rt
            else:
                v, f1, f2, v2 = rt
                if f1 != f2:
                    bad = 'fields change: Timex(%r) has %s, its timex_value %r re-parses to %s' % (s, f1, v, f2)
                elif v2 != v:
                    bad = 'format not idempotent: %r -> %r -> %r' % (s, v, v2)
        if tag and tag.startswith('noncomb:') and not isinstance(rt, str) and rt[1] != rt[2]:
            # accepted, the time half is dropped by timex_value() (Lean: dt_guard_necessary): observation
            ctx.count('observation:noncombinable-time-dropped:' + tag.split(':', 1)[1])
            obs = ctx.extra.setdefault('noncombinable_time_dropped', [])
            if len(obs) < 40:
                obs.append(s)
        if not ok and not isinstance(rt, str) and rt[0] == '' and rt[1] != rt[2] and fam != 'noise':
            # accepted (some field set), formats to '' : out-of-range observation (Lean: out_of_range_format_empty)
            ctx.count('observation:accepted-out-of-range-formats-empty')
            obs = ctx.extra.setdefault('accepted_out_of_range_format_empty', [])
            if len(obs) < 40:
                obs.append(s)
        if 'unmodelled' in b:
            unmod += 1
        elif a != b:
            tc.report(ctx, 'correspondence', 'timex-parse-format',
                       'Timex(%r): implementation %s ; model %s ; property predicate: %s' % (s, a, b, bad or 'holds / n.a.'),
                       failing_input={'op': 'Timex(s): fields ## types ## timex_value()', 'string': s, 'family': fam,
                                      'implementation': a, 'model': b, 'property': bad},
                       property_fails=bad is not None)
            continue
        if bad:
            v = rt[0] if not isinstance(rt, str) else None
            sig = classify(fam, s, tag, v)
            tc.report(ctx, 'property', sig, bad,
                       failing_input={'op': 'Timex(s).timex_value() round trip', 'string': s, 'family': fam,
                                      'observed': rt if isinstance(rt, str) else {'timex_value': rt[0], 'fields': rt[1],
                                                                                   'fields_after': rt[2], 'timex_value_after': rt[3]},
                                      'expected': 'Timex(timex_value) has the same field values and formats to the same string'},
                       property_fails=True)
    ctx.extra['unmodelled_answers'] = unmod
    for i in (0, len(cases) // 3, len(cases) // 2, -1):
        ctx.sample({'string': cases[i][1], 'family': cases[i][0], 'implementation': impl[i]})

    # ---------------- from_date / from_date_time / from_time
    r = ctx.rng('from')
    dates = []
    for y in [1, 2, 99, 100, 999, 1000, 1582, 1899, 1900, 1999, 2000, 2001, 2020, 2024, 2100, 9998, 9999] + \
            [r.randint(1, 9999) for _ in range(300 if ctx.thorough else 30)]:
        for m in range(1, 13):
            last = (datetime.date(y + (m == 12), m % 12 + 1, 1) - datetime.timedelta(days=1)).day if (y, m) != (9999, 12) else 31
            for d in sorted({1, 2, 9, 10, 28, last}):
                dates.append((y, m, d))
    if ctx.thorough:
        o = datetime.date(1950, 1, 1).toordinal()
        while o <= datetime.date(2090, 12, 31).toordinal():
            dt = datetime.date.fromordinal(o)
            dates.append((dt.year, dt.month, dt.day))
            o += 1
    ops, exp = [], []
    for (y, m, d) in dates:
        ops.append(('fromdate', y, m, d))
        exp.append('%04d-%02d-%02d' % (y, m, d))
    hms = [(h, mi, s) for h in (0, 1, 9, 10, 12, 23) for mi in (0, 1, 30, 59) for s in (0, 1, 30, 59)]
    if ctx.thorough:
        hms = [(h, mi, s) for h in range(24) for mi in range(60) for s in (0, 1, 29, 59)] + \
              [(h, mi, s) for h in (0, 23) for mi in (0, 59) for s in range(60)]
    for (h, mi, s) in hms:
        ops.append(('fromtime', h, mi, s))
        exp.append(iso_time(h, mi, s))
    dsel = dates if not ctx.thorough else dates[::7]
    for i, (y, m, d) in enumerate(dsel):
        for (h, mi, s) in (hms[i % len(hms)], hms[(i * 7 + 3) % len(hms)]):
            ops.append(('fromdt', y, m, d, h, mi, s))
            exp.append('%04d-%02d-%02d' % (y, m, d) + iso_time(h, mi, s))
    for (y, m, d) in [(12, 12, 25), (1, 1, 1), (99, 9, 9), (2020, 2, 29), (9999, 12, 31)]:
        for (h, mi, sec) in [(14, 0, 5), (0, 0, 1), (23, 0, 59), (14, 5, 0), (12, 12, 12)]:
            ops.append(('fromdt', y, m, d, h, mi, sec))
            exp.append('%04d-%02d-%02d' % (y, m, d) + iso_time(h, mi, sec))
    lines = [tc.line_of(o) for o in ops]
    impl = tc.run_ops(ops)
    model = tc.drive(lines)
    for o, e, a, b in zip(ops, exp, impl, model):
        ctx.count(o[0])
        ctx.nontriv(o)
        got = a.split(' ## ')[-1]
        bad = None if got == 'S' + cps(e) else 'timex_value is %r, expected %r' % (common.uncps(got[1:]) if got.startswith('S') else got, e)
        if a != b:
            tc.report(ctx, 'correspondence', o[0], '%r: implementation %s ; model %s ; property: %s' % (o, a, b, bad or 'holds'),
                       failing_input={'op': 'Timex.%s' % o[0], 'args': o[1:], 'implementation': a, 'model': b,
                                      'expected': e}, property_fails=bad is not None)
        elif bad:
            tc.report(ctx, 'property', o[0] + '-not-canonical', '%r: %s' % (o, bad),
                       failing_input={'op': 'Timex.%s' % o[0], 'args': o[1:], 'observed': a, 'expected': e},
                       property_fails=True)
    ctx.sample({'op': ops[-1], 'implementation': impl[-1]})


def search(ctx, proof_problems):
    """A proof obligation broke (typically genCfg_ok after an edit of timex_regex.py / constants): the
    correspondence above already ran the property predicates over strings generated from the tree's patterns;
    widen that sample."""
    try:
        cases = tree_grammar(ctx, 3000)
        rts = tc.run_ops([('roundtrip', s) for _, s, _, _ in cases])
        for (fam, s, ok, tag), rt in zip(cases, rts):
            if not ok:
                continue
            ctx.count('search:' + fam)
            bad = None
            if isinstance(rt, str):
                bad = 'parse/format raises or hangs: %s' % rt
            elif rt[1] != rt[2]:
                bad = 'fields change: Timex(%r) has %s, its timex_value %r re-parses to %s' % (s, rt[1], rt[0], rt[2])
            elif rt[3] != rt[0]:
                bad = 'format not idempotent: %r -> %r -> %r' % (s, rt[0], rt[3])
            if bad:
                tc.report(ctx, 'property', classify(fam, s, tag, None if isinstance(rt, str) else rt[0]), bad,
                           failing_input={'op': 'Timex(s).timex_value() round trip', 'string': s, 'family': fam,
                                          'observed': rt}, property_fails=True)
    finally:
        tc.close_pool()
