"""C16 — dictionary matching finds exactly the listed phrases at token boundaries.

Tie: unit correspondence of RTV.Model.Match (Lean driver) against the working tree's SimpleTokenizer,
NumberWithUnitTokenizer and StringMatcher; plus the property predicates evaluated directly on the
implementation's output (used to decide whether a disagreement is a property violation)."""
import itertools

from lib import common
from lib.common import cps

PROP = 'C16'
LEVEL = 'proof'
PROPS_MODULES = ['RTV.Props.C16']
GEN = ['chartables']
REQUIRED_THEOREMS = ['tokenizeSimple_slices', 'tokenizeSimple_ordered_disjoint', 'tokenizeSimple_covers',
                     'tokenizeNWU_slices', 'tokenizeNWU_ordered_disjoint', 'tokenizeNWU_covers', 'cov_unique',
                     'trieFind_spec', 'trieFind_len_pos', 'matcherFind_offsets', 'matcherRun_offsets',
                     # the plain statements about find's results (no spanOf / sliceInt / Option in the statement)
                     'matcherRun_defined', 'matcherRun_results_plain', 'matcherRun_mem_iff', 'matcherSimple_plain',
                     'matcherNWU_plain', 'matcherSimple_mem_iff', 'matcherNWU_mem_iff']
RULE = ('tokenizers: every string over {a,1,$,comma,CJK,space} up to length L (quick 5, thorough 7) + seeded strings '
        'over a wider pool (Hangul, kana, Arabic-Indic digit, NBSP, tab, U+0130); matcher: exhaustive tiny '
        'dictionaries/queries + seeded dictionaries (<=30 phrases) and queries (<=40 chars), list and dict init forms; '
        'non-trivial = distinct case with at least one token / one match')
ASSUMPTIONS = ['str.isspace/isdigit/isalpha tables exported from the running CPython (RTV/Gen/CharTables.lean)',
               'AcAutomaton strategy is not modelled (TrieTree is the default and the one all recognisers use)']

SMALL = ['a', '1', '$', ',', '中', ' ']
WIDE = SMALL + ['b', 'Z', '9', '-', '.', '가', 'あ', '٤', ' ', '\t', 'İ', 'ß', '%', '１']


def tok_line(kind, s):
    return 'tok\t%s\t%s' % (kind, cps(s))


def fmt_tokens(toks):
    return ';'.join('%d:%d:%s' % (t.start, t.length, cps(t.text)) for t in toks)


def match_line(kind, dict_pairs, q):
    parts = ['match', kind, str(len(dict_pairs))]
    for p, i in dict_pairs:
        parts += [cps(p), cps(i)]
    parts.append(cps(q))
    return '\t'.join(parts)


def fmt_matches(rs):
    return ';'.join('%d:%d:%s:%s' % (r.start, r.length, cps(r.text), '|'.join(cps(i) for i in r.canonical_values))
                    for r in rs)


def token_property(s, toks):
    """The property's own statement about a token list (independent of the model)."""
    pos = 0
    covered = set()
    for t in toks:
        if t.length <= 0 or t.start < pos or t.start + t.length > len(s):
            return 'token out of order / overlapping / out of bounds'
        if t.text != s[t.start:t.start + t.length]:
            return 'token text is not the slice of the input'
        covered.update(range(t.start, t.start + t.length))
        pos = t.start + t.length
    for i, c in enumerate(s):
        if (not c.isspace()) != (i in covered):
            return 'position %d: non-space coverage wrong' % i
    return None


def plain_result_property(q, results):
    """What `matcherRun_results_plain` states, demanded of the real MatchResult objects without looking at any token:
    in bounds, length >= 1, text == query[start:start+length] (hence non-empty), end == start + length."""
    for r in results:
        if not (isinstance(r.start, int) and isinstance(r.length, int)) or isinstance(r.start, bool):
            return 'start/length are not ints: %r, %r' % (r.start, r.length)
        if r.start < 0 or r.length < 1 or r.start + r.length > len(q):
            return 'result (%d, %d) out of bounds of a query of length %d' % (r.start, r.length, len(q))
        if r.text != q[r.start:r.start + r.length]:
            return 'result text %r is not query[%d:%d] = %r' % (r.text, r.start, r.start + r.length,
                                                                q[r.start:r.start + r.length])
        if r.end != r.start + r.length:
            return 'result end %r != start + length' % (r.end,)
    return None


def matcher_property(tokenizer, dict_pairs, q, results):
    """Exactly the occurrences of inserted phrases at token boundaries, right offsets/length/text/ids."""
    plain = plain_result_property(q, results)
    if plain:
        return plain
    toks = tokenizer.tokenize(q)
    texts = [t.text for t in toks]
    phrases = [([t.text for t in tokenizer.tokenize(p)], i) for p, i in dict_pairs]
    expected = []
    for i in range(len(texts)):
        for ln in range(1, len(texts) - i + 1):
            ids = [pid for ptoks, pid in phrases if ptoks == texts[i:i + ln]]
            if ids and any(ids):
                start = toks[i].start
                end = toks[i + ln - 1].start + toks[i + ln - 1].length
                expected.append((start, end - start, q[start:end], ids))
    got = [(r.start, r.length, r.text, list(r.canonical_values)) for r in results]
    if got != expected:
        return 'expected %r got %r' % (expected[:4], got[:4])
    return None


def correspond(ctx):
    common.setup_repo_imports()
    import recognizers_text
    from recognizers_text.matcher.simple_tokenizer import SimpleTokenizer
    from recognizers_text.matcher.number_with_unit_tokenizer import NumberWithUnitTokenizer
    from recognizers_text.matcher.string_matcher import StringMatcher
    from recognizers_text.matcher.match_strategy import MatchStrategy
    common.assert_tree_modules(recognizers_text)
    tks = {'simple': SimpleTokenizer(), 'nwu': NumberWithUnitTokenizer()}

    # ---------------- tokenizers
    L = 7 if ctx.thorough else 5
    strings = ['']
    for n in range(1, L + 1):
        strings += [''.join(p) for p in itertools.product(SMALL, repeat=n)]
    r = ctx.rng('tok')
    for _ in range(40000 if ctx.thorough else 6000):
        n = r.randint(1, 40)
        strings.append(''.join(r.choice(WIDE) for _ in range(n)))
    lines, impl, meta = [], [], []
    for s in strings:
        for kind, tk in tks.items():
            toks = tk.tokenize(s)
            lines.append(tok_line(kind, s))
            impl.append(fmt_tokens(toks))
            meta.append((kind, s, toks))
    model = common.driver(lines)
    ctx.count('tokenize', len(lines))
    for (kind, s, toks), a, b in zip(meta, impl, model):
        if toks:
            ctx.nontriv(('tok', kind, s))
        if a != b:
            bad = token_property(s, toks)
            ctx.report('correspondence', 'tokenize-%s' % kind,
                       'tokenize(%r): implementation %s, model %s; property predicate: %s' % (s, a, b, bad or 'holds'),
                       failing_input={'op': 'tokenize', 'tokenizer': kind, 'string': s, 'implementation': a, 'model': b,
                                      'property': bad}, property_fails=bad is not None)
        else:
            bad = token_property(s, toks)
            if bad:
                ctx.report('property', 'tokenize-%s-property' % kind, 'tokenize(%r): %s' % (s, bad),
                           failing_input={'op': 'tokenize', 'tokenizer': kind, 'string': s, 'tokens': a},
                           property_fails=True)
    ctx.sample({'op': lines[len(lines) // 2], 'implementation': impl[len(impl) // 2]})

    # ---------------- matcher
    cases = []
    tiny = ['a', '1', '$', ' ', '中']
    words = [''.join(p) for n in (1, 2, 3) for p in itertools.product(tiny, repeat=n)]
    queries = [''.join(p) for n in range(0, (5 if ctx.thorough else 4) + 1) for p in itertools.product(tiny, repeat=n)]
    r = ctx.rng('match')
    # exhaustive-ish: each single phrase against every tiny query
    for w in words:
        for q in (queries if ctx.thorough else r.sample(queries, 60)):
            cases.append(([(w, 'I' + w.strip())], q, 'list'))
    for _ in range(60000 if ctx.thorough else 8000):
        np_ = r.choice([1, 2, 3, 5, 10, 30])
        pool = WIDE if r.random() < 0.4 else SMALL + ['b']
        dict_pairs = []
        for k in range(np_):
            w = ''.join(r.choice(pool) for _ in range(r.randint(1, 6)))
            ident = r.choice(['', 'X', 'id%d' % k, w])
            dict_pairs.append((w, ident))
        # queries built from the phrases plus filler, so that matches are frequent
        parts = []
        for _ in range(r.randint(0, 6)):
            if r.random() < 0.6:
                parts.append(r.choice(dict_pairs)[0])
            else:
                parts.append(''.join(r.choice(pool) for _ in range(r.randint(1, 4))))
            if r.random() < 0.7:
                parts.append(' ')
        q = ''.join(parts)[:40]
        cases.append((dict_pairs, q, r.choice(['list', 'dict', 'values'])))
    lines, impl, meta = [], [], []
    for dict_pairs, q, form in cases:
        kind = 'nwu' if (len(q) + len(dict_pairs)) % 2 else 'simple'
        sm = StringMatcher(MatchStrategy.TrieTree, tks[kind])
        if form == 'dict':
            d = {}
            for p, i in dict_pairs:
                d.setdefault(i, []).append(p)
            sm.init(d)
            eff = [(p, i) for i in d for p in d[i]]
        elif form == 'values':
            vals = [p for p, _ in dict_pairs]
            sm.init(vals)
            eff = [(p, str(p)) for p in vals]
        else:
            sm.init([p for p, _ in dict_pairs], [i for _, i in dict_pairs])
            eff = dict_pairs
        try:
            res = sm.find(q)
            out = fmt_matches(res)
        except IndexError:
            res, out = None, 'err:IndexError'
        lines.append(match_line(kind, eff, q))
        impl.append(out)
        meta.append((kind, eff, q, res))
    model = common.driver(lines)
    ctx.count('matcher', len(lines))
    for (kind, eff, q, res), a, b in zip(meta, impl, model):
        if res:
            ctx.nontriv(('m', kind, tuple(eff), q))
        bad = 'raises IndexError' if res is None else matcher_property(tks[kind], eff, q, res)
        empty_phrase = any(not tks[kind].tokenize(p) and i for p, i in eff)
        fi = {'op': 'StringMatcher.init+find', 'tokenizer': kind, 'dictionary': eff, 'query': q,
              'implementation': a, 'model': b, 'property': bad}
        if a != b:
            ctx.report('correspondence', 'matcher', 'find(%r) with %r: implementation %s, model %s; property: %s' % (
                q, eff[:3], a, b, bad or 'holds'), failing_input=fi, property_fails=bad is not None)
        elif bad:
            sig = 'empty-phrase' if empty_phrase else 'matcher-property'
            ctx.report('property', sig, 'find(%r) with %r: %s' % (q, eff[:3], bad), failing_input=fi,
                       property_fails=True)
    # ---------------- the second match strategy (MatchStrategy.AcAutomaton): same property, judged by the same oracle.
    # On the pinned tree the port cannot even be constructed (AaNode never initialises Node's fields) — recorded finding
    # `acautomaton-unusable`; should it ever be repaired, every probe below is judged by matcher_property like the trie.
    ac_cases = [c for c in cases if c[2] == 'list' and c[0]][:: max(1, len(cases) // (4000 if ctx.thorough else 400))]
    n_ac = 0
    for dict_pairs, q, form in ac_cases:
        kind = 'nwu' if (len(q) + len(dict_pairs)) % 2 else 'simple'
        fi = {'op': 'StringMatcher(AcAutomaton).init+find', 'tokenizer': kind, 'dictionary': dict_pairs, 'query': q}
        try:
            sm = StringMatcher(MatchStrategy.AcAutomaton, tks[kind])
            sm.init([p for p, _ in dict_pairs], [i for _, i in dict_pairs])
            res = list(sm.find(q))
        except Exception as e:
            ctx.report('property', 'acautomaton-unusable', 'StringMatcher(MatchStrategy.AcAutomaton).init(%r) / find(%r) raises %s: %s'
                       % ([p for p, _ in dict_pairs][:3], q, type(e).__name__, str(e)[:80]), failing_input=fi, property_fails=True)
            n_ac += 1
            continue
        n_ac += 1
        bad = matcher_property(tks[kind], dict_pairs, q, res)
        if bad:
            fi['property'] = bad
            ctx.report('property', 'acautomaton-property', 'AcAutomaton find(%r) with %r: %s' % (q, dict_pairs[:3], bad),
                       failing_input=fi, property_fails=True)
    ctx.count('matcher-acautomaton', n_ac)
    ctx.sample({'op': lines[-1], 'implementation': impl[-1]})
    ctx.extra['exhaustive_tokenizer_length'] = L
