"""C02 — recognition is a pure function of (query, culture, options, reference date).

Ties between RTV.Model.Conc / RTV.Model.Factory (Lean driver) and the working tree:
  unit      * precision paths: `_get_digital_value` and the CJK fraction division evaluated under
              localcontext(prec = 9, 15, 28) on one thread, against the model's `effectivePrec` + `Dec.div`; the run
              decides which variant the tree follows for the fraction path (decorated = the code since the fix
              "number parsing runs under decimal precision 15 on every thread"; undecorated = before it, reported
              as a regression with the witness 三分之一 on a non-importing thread)
            * controlled interleavings: real threads running the real ModelFactory.get_model on a cache dict whose
              get / __setitem__ wait for a scheduler, so that a seeded schedule of dict operations is executed
              exactly; outputs (constructor key + allocation serial per thread) against `runSched`
  pipeline  a pool of (recognize_* function, query, culture, options, reference) tuples (Specs inputs + fraction
            witnesses) evaluated (a) sequentially cold in a fresh process = the canonical answers, (a') a sample as
            true single calls in their own processes, (b) warm twice in the checking process, (c) in seeded
            permutations, cold (fresh process) and warm, (d) on 1..16 threads sharing the cache, cold (fresh processes) and warm,
            (e) on a fresh thread — every answer must be the canonical JSON of (a)."""
import decimal
import json
import os
import subprocess
import sys
import threading
from concurrent.futures import ThreadPoolExecutor

from lib import common, factory, specs, c02worker, hiddenstatecorr
from lib.common import cps

PROP = 'C02'
LEVEL = 'proof'
PROPS_MODULES = ['RTV.Props.C02', 'RTV.Props.C02State']
GEN = ['factory', 'chartables', 'hiddenstate']
REQUIRED_THEOREMS = ['cache_transparent', 'recognition_pure_same_prec', 'recognition_pure', 'interleave_cache',
                     'interleave_cache_finished', 'double_construction_possible', 'decorated_prec_indep',
                     'digit_value_prec_indep', 'undecorated_prec_dependent', 'decorated_one_third',
                     'recognition_depends_on_thread_precision',
                     'class_state_inventory', 'module_state_inventory', 'memo_inventory', 'mutation_inventory',
                     'settings_inventory', 'frame_pure_modulo']
RULE = ('pool: seeded sample of the Specs model inputs (number / ordinal / percentage all cultures, age / currency / '
        'dimension / temperature, phone / ip / url / email / guid / mention / hashtag, boolean, ~150 date-time with '
        'their reference dates, date-time options 0 and 2) + fraction witnesses; disciplines a, a\', b, c, d (cold 3,16 / '
        'warm 1,2,4,8 threads quick; cold 2,5,16 / warm 1,3,4,8 thorough; on a seeded subset containing the witnesses), e; controlled interleavings: seeded schedules of 2-4 threads x 1-3 '
        'requests over a small key space of cheap models, every schedule run to completion; '
        'non-trivial = distinct pool tuple with at least one entity / distinct schedule with a cache miss race')
ASSUMPTIONS = ['dict.get / dict.__setitem__ on the shared cache are atomic (GIL) and everything between them is '
               'thread-local: the granularity of `interleave_cache`',
               'a model object is not mutated after construction (monitored: warm / permuted / threaded answers are '
               'compared with cold ones; a model that cached per-call state would show up there)',
               'preemption inside the regex engine, garbage collection and interpreter shutdown are not modelled; the '
               'free-running thread runs (discipline d, e) are validation, not proof',
               'Decimal arithmetic: RTV.Model.Dec (agent-num) mirrors _pydecimal; only Decimal(1)/Decimal(3) and the '
               'precision selection are used here',
               'the importing thread is the main thread (packages imported before worker threads start)']

FRACTIONS = [('recognize_number', 'one third', 'en-us'), ('recognize_number', '三分之一', 'zh-cn'),
             ('recognize_number', 'two thirds', 'en-us'), ('recognize_number', 'a hundred and five sevenths', 'en-us'),
             ('recognize_number', 'three and one seventh', 'en-us'),
             ('recognize_number', 'un tercio', 'es-es'), ('recognize_number', 'um terço', 'pt-br'),
             ('recognize_number', '三分の一', 'ja-jp'), ('recognize_number', '七分之二', 'zh-cn'),
             ('recognize_percentage', '百分之三十三', 'zh-cn'), ('recognize_number', 'ein drittel', 'de-de'),
             ('recognize_number', 'one sixth of the cake and 1/3', 'en-us'), ('recognize_number', '1/7', 'en-us'),
             # precision stress: amounts whose exact value needs more than 15 significant digits, on every path that
             # does Decimal arithmetic outside the digit parser (compound currency sums, percentages, units)
             ('recognize_currency', '12345678901234 dollars and 45 cents', 'en-us'),
             ('recognize_currency', '99999999999999 dollars and 99 cents', 'en-us'),
             ('recognize_currency', '1234567890123456 euros and 5 cents', 'en-us'),
             ('recognize_currency', '12345678901234.5 dollars', 'en-us'),
             ('recognize_number', '12345678901234567.891', 'en-us'), ('recognize_number', '0.12345678901234567', 'en-us'),
             ('recognize_number', '1234567890123456789', 'en-us'), ('recognize_percentage', '12345678901234567.5%', 'en-us'),
             ('recognize_dimension', '12345678901234567.5 km', 'en-us'), ('recognize_temperature', '1234567890123456.75 degrees', 'en-us'),
             ('recognize_number', '1234567890123456,789', 'fr-fr'), ('recognize_number', '12345678901234567', 'zh-cn'),
             ('recognize_number', 'three and 12345678901234567 eighteenths', 'en-us'),
             # numerically equal values reached through different parser paths (int / Decimal / float results, words vs
             # digits): a memo keyed by the value alone would make the answer depend on which spelling came first
             ('recognize_number', '一千万亿', 'zh-cn'), ('recognize_number', '1000000000000000', 'zh-cn'),
             ('recognize_number', '千兆', 'ja-jp'), ('recognize_number', '1000000000000000', 'ja-jp'),
             ('recognize_number', '一万', 'zh-cn'), ('recognize_number', '10000', 'zh-cn'), ('recognize_number', '10000.0', 'zh-cn'),
             ('recognize_number', 'one quadrillion', 'en-us'), ('recognize_number', '1000000000000000', 'en-us'),
             ('recognize_number', '1000000000000000.0', 'en-us'), ('recognize_number', '1e15', 'en-us'),
             ('recognize_number', 'two', 'en-us'), ('recognize_number', '2', 'en-us'), ('recognize_number', '2.0', 'en-us'),
             ('recognize_number', 'one million', 'en-us'), ('recognize_number', '1,000,000', 'en-us'), ('recognize_number', '1000000.00', 'en-us'),
             ('recognize_number', 'un millón', 'es-es'), ('recognize_number', '1.000.000', 'es-es'), ('recognize_number', '1000000,0', 'es-es'),
             ('recognize_percentage', '一百%', 'zh-cn'), ('recognize_percentage', '100%', 'zh-cn'), ('recognize_percentage', '100.0%', 'zh-cn')]

SPEC_FN = {('Number', 'Number'): 'recognize_number', ('Number', 'Ordinal'): 'recognize_ordinal',
           ('Number', 'Percent'): 'recognize_percentage',
           ('NumberWithUnit', 'Age'): 'recognize_age', ('NumberWithUnit', 'Currency'): 'recognize_currency',
           ('NumberWithUnit', 'Dimension'): 'recognize_dimension', ('NumberWithUnit', 'Temperature'): 'recognize_temperature',
           ('DateTime', 'DateTime'): 'recognize_datetime',
           ('Sequence', 'PhoneNumber'): 'recognize_phone_number', ('Sequence', 'IpAddress'): 'recognize_ip_address',
           ('Sequence', 'Mention'): 'recognize_mention', ('Sequence', 'Hashtag'): 'recognize_hashtag',
           ('Sequence', 'Email'): 'recognize_email', ('Sequence', 'URL'): 'recognize_url',
           ('Sequence', 'GUID'): 'recognize_guid', ('Choice', 'Boolean'): 'recognize_boolean'}
QUOTA_QUICK = {'recognize_number': 450, 'recognize_ordinal': 100, 'recognize_percentage': 150, 'recognize_age': 50,
               'recognize_currency': 60, 'recognize_dimension': 80, 'recognize_temperature': 60,
               'recognize_datetime': 150, 'recognize_phone_number': 150, 'recognize_ip_address': 50,
               'recognize_mention': 11, 'recognize_hashtag': 9, 'recognize_email': 17, 'recognize_url': 50,
               'recognize_guid': 16, 'recognize_boolean': 16}
DT_CULTURES_QUICK = ('en-us', 'zh-cn')
# model construction dominates a cold process (about a minute for all cultures): the quick pool keeps to these
CULTURES_QUICK = ('en-us', 'zh-cn', 'es-es', 'de-de', 'ja-jp', 'pt-br')
NWU_CULTURES_QUICK = ('en-us', 'zh-cn', 'es-es')
NWU_FNS = ('recognize_age', 'recognize_currency', 'recognize_dimension', 'recognize_temperature')


def build_pool(ctx):
    r = ctx.rng('pool')
    by_fn = {}
    for rec, model, culture, query, ref in specs.model_inputs():
        fn = SPEC_FN.get((rec, model))
        if fn is None or not query:
            continue
        if not ctx.thorough and culture not in CULTURES_QUICK:
            continue
        if not ctx.thorough and rec == 'NumberWithUnit' and culture not in NWU_CULTURES_QUICK:
            continue
        if fn == 'recognize_datetime':
            if ref is None or (not ctx.thorough and culture not in DT_CULTURES_QUICK):
                continue
        by_fn.setdefault(fn, []).append((fn, query, culture, 0, ref.isoformat() if ref else None))
    pool = []
    for fn in sorted(by_fn):
        items = sorted(by_fn[fn], key=lambda t: (t[2], t[1], t[4] or ''))
        k = QUOTA_QUICK[fn] * (2 if ctx.thorough else 1)
        pool += r.sample(items, min(k, len(items)))
    # date-time with another option value (another cache key, another model object)
    dts = [t for t in pool if t[0] == 'recognize_datetime' and t[2] == 'en-us']
    pool += [(t[0], t[1], t[2], 2, t[4]) for t in dts[:20]]
    pool += [(fn, q, c, 0, None) for fn, q, c in FRACTIONS]
    # regional / upper-case culture strings (routing is part of the call)
    extra = []
    for t in r.sample([t for t in pool if t[0] == 'recognize_number'], 40):
        c = t[2]
        alt = {'en-us': 'en-GB', 'pt-br': 'pt-PT', 'zh-cn': 'zh-TW', 'de-de': 'DE-at'}.get(c, c.upper())
        extra.append((t[0], t[1], alt, 0, None))
    pool += extra
    r.shuffle(pool)
    return [list(t) for t in pool]


def child(job, timeout=1500):
    p = subprocess.run([sys.executable, '-W', 'ignore', '-m', 'lib.c02worker'], env=common.child_env(),
                       input=json.dumps(job, ensure_ascii=False), stdout=subprocess.PIPE, stderr=subprocess.PIPE,
                       text=True, timeout=timeout, cwd=os.path.join(common.VERIF, 'harness'))
    if p.returncode != 0:
        raise common.InfraError('C02 worker failed: ' + p.stderr[-1500:])
    return json.loads(p.stdout)


# ---------------------------------------------------------------- unit: precision paths

def unit_precision(ctx):
    """-> True when the tree's fraction path depends on the ambient precision (the variant as found)"""
    from recognizers_number import recognize_number
    from recognizers_number.number.parsers import BaseNumberParser
    from recognizers_number.number.english.parsers import EnglishNumberParserConfiguration
    # Decimal division at the three precisions against RTV.Model.Dec
    lines, impl = [], []
    pairs = [(1, 3), (2, 3), (1, 7), (22, 7), (1, 6), (100, 3), (5, 8), (1, 1), (0, 5), (123456789012345678, 7)]
    for p in (9, 15, 28):
        for a, b in pairs:
            with decimal.localcontext() as c:
                c.prec = p
                d = decimal.Decimal(a) / decimal.Decimal(b)
            sign, digits, exp = d.as_tuple()
            impl.append('%d %d %d' % (sign, int(''.join(map(str, digits))), exp))
            lines.append('n.dec\tdiv\t%d\t0\t%d\t0\t0\t%d\t0' % (p, a, b))
    model = common.driver(lines)
    ctx.count('decimal_division', len(lines))
    for l, a, b in zip(lines, impl, model):
        if a != b:
            ctx.report('correspondence', 'decimal-division', '%s: implementation %s, model %s' % (l, a, b),
                       failing_input={'op': l, 'implementation': a, 'model': b})
    # decorated path: _get_digital_value under three ambient precisions gives one value
    parser = BaseNumberParser(EnglishNumberParserConfiguration())
    vals = []
    for p in (9, 15, 28):
        with decimal.localcontext() as c:
            c.prec = p
            vals.append(str(parser._get_digital_value('1,234.567890123456789012345', 1)))
    eff = common.driver(['fprec\td\t%d' % p for p in (9, 15, 28)])
    ctx.count('precision_paths', 6)
    if len(set(vals)) != 1 or set(eff) != {'15'}:
        ctx.report('correspondence', 'decorated-path', '_get_digital_value under ambient precision 9/15/28: %r; model '
                   'effective precisions %r' % (vals, eff), failing_input={'values': vals, 'model': eff})
    # fraction path: 三分之一 under three ambient precisions
    got = []
    for p in (9, 15, 28):
        with decimal.localcontext() as c:
            c.prec = p
            res = recognize_number('三分之一', 'zh-cn')
            got.append(res[0].resolution['value'] if res else None)
    dependent = len(set(got)) > 1
    path = 'u' if dependent else 'd'
    eff = common.driver(['fprec\t%s\t%d' % (path, p) for p in (9, 15, 28)])
    want = []
    for e in eff:
        q = common.driver(['n.dec\tdiv\t%s\t0\t1\t0\t0\t3\t0' % e])[0].split(' ')
        s = common.driver(['n.decstr\t%s\t%s\t%s' % tuple(q)])[0]
        want.append(common.uncps(s))
    ctx.extra['fraction_path_variant'] = 'undecorated: ambient precision (the code before the fix: REGRESSION)' \
        if dependent else 'decorated: precision 15 on every thread (the code since the fix)'
    ctx.extra['fraction_values_under_prec_9_15_28'] = got
    if got != want:
        ctx.report('correspondence', 'fraction-path', 'recognize_number(三分之一) under ambient precision 9/15/28: '
                   'implementation %r, model (%s path) %r' % (got, path, want),
                   failing_input={'query': '三分之一', 'culture': 'zh-cn', 'implementation': got, 'model': want})
    # RTV.Conc.runUnder / parseVia (the wrappers the purity theorems are stated with) against the REAL `@precision(prec=15)`
    # decorator of recognizers_number.number.utilities around a probe, and an undecorated probe, under three ambient
    # precisions; RTV.Conc.threadPrec against real threads: the importing (main) thread of a fresh interpreter and a thread
    # started afterwards (audit item 35: these model functions had no correspondence op)
    from recognizers_number.number import utilities as NU
    common.assert_tree_modules(NU)
    probe_d = NU.precision(prec=15)(lambda: decimal.getcontext().prec)
    probe_u = lambda: decimal.getcontext().prec
    lines, impl = [], []
    for p in (9, 15, 28):
        with decimal.localcontext() as c:
            c.prec = p
            for op in ('frununder', 'fparsevia'):
                lines += ['%s\td\t%d' % (op, p), '%s\tu\t%d' % (op, p)]
                impl += [str(probe_d()), str(probe_u())]
    code = ('import sys, decimal, threading\n'
            'import recognizers_number, recognizers_number.number.parsers, recognizers_number.number.cjk_parsers\n'
            'out = []\n'
            't = threading.Thread(target=lambda: out.append(decimal.getcontext().prec)); t.start(); t.join()\n'
            'print(decimal.getcontext().prec, out[0])\n')
    rc, txt = common.run(['/venv/bin/python', '-c', code], env=common.child_env(), timeout=600)
    try:
        main_prec, thread_prec = txt.strip().splitlines()[-1].split()
    except Exception:
        raise common.InfraError('thread-precision probe failed: rc=%s %s' % (rc, txt[-500:]))
    lines += ['fthreadprec\t1', 'fthreadprec\t0']
    impl += [main_prec, thread_prec]
    model = common.driver(lines)
    ctx.count('precision_wrappers_and_threads', len(lines))
    for l, a, b in zip(lines, impl, model):
        if a != b:
            ctx.report('correspondence', 'precision-' + l.split('\t')[0], '%s: implementation %s, model %s' % (
                l.replace('\t', ' '), a, b), failing_input={'op': l, 'implementation': a, 'model': b})
    return dependent


# ---------------------------------------------------------------- unit: controlled interleavings

class Controller:
    def __init__(self, n):
        self.go = [threading.Semaphore(0) for _ in range(n)]
        self.back = threading.Semaphore(0)
        self.done = [False] * n
        self.idx = {}

    def wait_turn(self):
        i = self.idx[threading.get_ident()]
        self.back.release()
        self.go[i].acquire()


class ScheduledDict(dict):
    def __init__(self, ctl):
        dict.__init__(self)
        self.ctl = ctl

    def get(self, k, d=None):
        self.ctl.wait_turn()
        return dict.get(self, k, d)

    def __setitem__(self, k, v):
        self.ctl.wait_turn()
        dict.__setitem__(self, k, v)


def unit_interleavings(ctx, st):
    MF = st['ModelFactory']
    r = ctx.rng('sched')
    kinds = [3, 4, 1]
    insts = {k: st['tagged'][k](lazy_initialization=False) for k in kinds}
    keyspace = []
    for k in kinds:
        regs = st['regs'][k]
        types = sorted({t for t, _ in regs})[:3]
        for t in types:
            for c in ['en-us', 'zh-cn', 'ko-kr', None]:
                keyspace.append((k, t, c))
    # warm the regex caches of the cheap constructors once (outside the schedules)
    original = MF._ModelFactory__cache
    lines, observed, meta = [], [], []
    nsched = 400 if ctx.thorough else 120
    try:
        for s in range(nsched):
            n = r.choice([2, 2, 3, 4])
            hot = r.sample(keyspace, 2)
            reqs = []
            for i in range(n):
                rl = []
                for _ in range(r.randint(1, 3)):
                    k, t, c = r.choice(hot) if r.random() < 0.8 else r.choice(keyspace)
                    rl.append((k, t, c, r.random() < 0.5, 0))
                reqs.append(rl)
            sched = [r.randrange(n) for _ in range(r.randint(0, 14))]
            ctl = Controller(n)
            MF._ModelFactory__cache = ScheduledDict(ctl)
            base = next(st['counter']) + 1
            outs = [[] for _ in range(n)]

            def body(i):
                ctl.idx[threading.get_ident()] = i
                for (k, t, c, fb, o) in reqs[i]:
                    try:
                        x = insts[k].model_factory.get_model(t, c, fb, o)
                    except Exception as e:  # noqa
                        x = e
                    outs[i].append(x)
                ctl.done[i] = True
                ctl.back.release()
            ths = [threading.Thread(target=body, args=(i,)) for i in range(n)]
            for t in ths:
                t.start()
                ctl.back.acquire()          # parked at its first dict operation (or finished)
            full = []
            pending = list(sched)
            while not all(ctl.done):
                i = pending.pop(0) if pending else min(j for j in range(n) if not ctl.done[j])
                full.append(i)
                if ctl.done[i]:
                    continue
                ctl.go[i].release()
                ctl.back.acquire()
            for t in ths:
                t.join()
            line = '\t'.join(['fconc', '1', ' '.join(map(str, full)) or '-'] +
                             [','.join(factory.op_field(('F', k, t, c, fb, o)) for (k, t, c, fb, o) in rl) for rl in reqs])
            obs = []
            for i in range(n):
                o = []
                for x in outs[i]:
                    sx = factory.show_out(x)
                    if sx.startswith('m:') and 'untagged' not in sx:
                        head, serial = sx.rsplit(':', 1)
                        sx = '%s:%d' % (head, int(serial) - base)
                    o.append(sx)
                obs.append(';'.join(o))
            lines.append(line)
            observed.append('/'.join(obs) + '#' + ' '.join('0' for _ in range(n)))
            serials = [x._verif_serial for i in range(n) for x in outs[i] if hasattr(x, '_verif_serial')]
            tags = {}
            for i in range(n):
                for x in outs[i]:
                    if hasattr(x, '_verif_tag'):
                        tags.setdefault(x._verif_tag, set()).add(x._verif_serial)
            race = any(len(v) > 1 for v in tags.values())
            meta.append((reqs, full, race))
            if race:
                ctx.nontriv(('race', s))
            # property oracle on the real outputs: each answer is the request's own (cold) answer
            for i in range(n):
                for (k, t, c, fb, o), x in zip(reqs[i], outs[i]):
                    regs = st['regs'][k]
                    if c is not None and (t, c) in regs:
                        want = (k, t, c, o)
                    elif fb and (t, 'en-us') in regs:
                        want = (k, t, 'en-us', o)
                    else:
                        want = 'ValueError'
                    got = getattr(x, '_verif_tag', None) or type(x).__name__
                    if got != want:
                        ctx.report('property', 'interleaving-foreign-model',
                                   'schedule %r, thread %d, request %r: got %r, its own constructor gives %r' % (
                                       full, i, (k, t, c, fb, o), got, want),
                                   failing_input={'requests': reqs, 'schedule': full, 'thread': i, 'observed': repr(got),
                                                  'expected': repr(want)}, property_fails=True)
    finally:
        MF._ModelFactory__cache = original
    model = common.driver(lines)
    ctx.count('controlled_interleavings', len(lines))
    ctx.extra['interleavings_with_double_construction'] = sum(1 for m in meta if m[2])
    for l, a, b, m in zip(lines, observed, model, meta):
        if a != b:
            ctx.report('correspondence', 'interleaving', 'schedule %r over %r: implementation %s, model %s' % (
                m[1], m[0], a, b), failing_input={'op': l, 'implementation': a, 'model': b})
    if lines:
        ctx.sample({'op': lines[0][:300], 'implementation': observed[0][:300]})


# ---------------------------------------------------------------- pipeline

def correspond(ctx):
    with factory.BalancedReports(ctx):
        _correspond(ctx)
        hiddenstatecorr.correspond(ctx, build_pool(ctx))   # inventory of hidden state: run-time cross-check + history search


def search(ctx, proof_problems):
    hiddenstatecorr.search(ctx, proof_problems, build_pool(ctx))


def _correspond(ctx):
    st = factory.load()
    dependent = unit_precision(ctx)
    unit_interleavings(ctx, st)

    pool = build_pool(ctx)
    n = len(pool)
    ctx.extra['pool_size'] = n
    seed = ctx.seed
    r = ctx.rng('perm')
    perm = list(range(n))
    r.shuffle(perm)
    cold_threads = [2, 5, 16] if ctx.thorough else [3, 16]
    warm_threads = [1, 3, 4, 8] if ctx.thorough else [1, 2, 4, 8]
    single_idx = r.sample(range(n), 48 if ctx.thorough else 16)
    jobs = {'a_seq_cold': {'pool': pool, 'mode': 'seq'},
            'c_perm_cold': {'pool': pool, 'mode': 'seq', 'order': perm},
            'e_fresh_thread_cold': {'pool': pool, 'mode': 'fresh_thread'}}
    # threaded evaluation costs about three times the sequential one (GIL hand-over): the thread disciplines run
    # on a seeded subset that always contains the fraction witnesses and every function
    nsub = 700 if ctx.thorough else 400
    frac = [i for i in range(n) if (pool[i][0], pool[i][1], pool[i][2]) in set(FRACTIONS)]
    rest = [i for i in range(n) if i not in set(frac)]
    sub = sorted(frac + r.sample(rest, min(nsub, len(rest))))
    subpool = [pool[i] for i in sub]
    job_index = {}
    for k in cold_threads:
        # many threads constructing many models at once spend minutes handing the GIL over: the 8+ thread cold runs
        # keep to the cultures of the quick tier (about 25 models built concurrently)
        idx = sub if k < 8 else [i for i in sub if pool[i][2].lower() in CULTURES_QUICK and
                                 (not pool[i][0] in NWU_FNS or pool[i][2].lower() in NWU_CULTURES_QUICK) and
                                 (pool[i][0] != 'recognize_datetime' or pool[i][2].lower() in DT_CULTURES_QUICK)]
        job_index['d_threads_%d_cold' % k] = idx
        jobs['d_threads_%d_cold' % k] = {'pool': [pool[i] for i in idx], 'mode': 'threads', 'threads': k,
                                         'seed': seed * 100 + k, 'copies': 1}
    for i in single_idx:
        jobs['a1_single_%d' % i] = {'pool': [pool[i]], 'mode': 'seq'}
    results = {}
    with ThreadPoolExecutor(max_workers=12) as ex:
        futs = {name: ex.submit(child, job) for name, job in jobs.items()}
        # meanwhile, in this process: (b) warm twice, (c) permuted warm, (d) threads on the warm cache, (e) fresh thread
        inproc = {}
        import time as _t
        tm = {}
        t0 = _t.time()
        inproc['b_first'] = c02worker.run_job({'pool': pool, 'mode': 'seq'})
        tm['b_first'] = round(_t.time() - t0, 1)
        inproc['b_warm'] = c02worker.run_job({'pool': pool, 'mode': 'seq'})
        perm2 = list(range(n))
        ctx.rng('perm2').shuffle(perm2)
        inproc['c_perm_warm'] = c02worker.run_job({'pool': pool, 'mode': 'seq', 'order': perm2})
        inproc['e_fresh_thread_warm'] = c02worker.run_job({'pool': pool, 'mode': 'fresh_thread'})
        for k in warm_threads:
            inproc['d_threads_%d_warm' % k] = c02worker.run_job(
                {'pool': subpool, 'mode': 'threads', 'threads': k, 'seed': seed * 100 + 50 + k, 'copies': 1})
        tm['inproc_total'] = round(_t.time() - t0, 1)
        for name, f in futs.items():
            results[name] = f.result()
        tm['with_children'] = round(_t.time() - t0, 1)
        ctx.extra['timings_s'] = tm
    results.update(inproc)
    canon = {i: results['a_seq_cold']['answers'][str(i)][0][1] for i in range(n)}
    for i in range(n):
        if canon[i] != '[]' and not canon[i].startswith('EXC'):
            ctx.nontriv(('pool', i))
    exc = [i for i in range(n) if canon[i].startswith('EXC')]
    if exc:
        ctx.extra['pool_tuples_raising'] = [(pool[i], canon[i]) for i in exc[:5]]
    ctx.extra['worker_wall_s'] = {name: res.get('wall_s') for name, res in results.items()
                                  if not name.startswith('a1_')}
    ctx.extra['precisions'] = {name: (res.get('importing_thread_prec'), res.get('worker_thread_prec'))
                               for name, res in results.items() if not name.startswith('a1_')}
    # which differences does "this thread runs at precision 28 instead of 15" explain? re-run the differing tuples
    # on a fresh thread whose context precision is set to 15
    diffs = {}
    evaluations = 0
    for name, res in results.items():
        for key, lst in res['answers'].items():
            i = single_idx_of(name, key, job_index.get(name, sub))
            for where, val in lst:
                evaluations += 1
                if val != canon[i]:
                    diffs.setdefault(i, []).append((name, where, val))
    prec_explained, other = {}, {}
    if diffs:
        idx = sorted(diffs)
        rerun = c02worker.run_job({'pool': [pool[i] for i in idx], 'mode': 'prec_thread', 'prec': 15})
        solo = c02worker.run_job({'pool': [pool[i] for i in idx], 'mode': 'fresh_thread'})
        for j, i in enumerate(idx):
            fixed = rerun['answers'][str(j)][0][1] == canon[i]
            alone = solo['answers'][str(j)][0][1]      # the tuple alone on a fresh thread, nothing concurrent
            for name, where, val in diffs[i]:
                # explained by the thread's precision only if the deviation is exactly what the tuple gives alone
                # on a non-importing thread and precision 15 on such a thread restores the canonical answer
                if where != 'main' and fixed and val == alone:
                    prec_explained.setdefault(i, []).append((name, where, val))
                else:
                    other.setdefault(i, []).append((name, where, val))
    ctx.count('pipeline_evaluations', evaluations)
    ctx.extra['disciplines'] = sorted(n_ for n_ in results if not n_.startswith('a1_')) + ['a1_single x%d' % len(single_idx)]
    for i, lst in sorted(other.items())[:10]:
        name, where, val = lst[0]
        ctx.report('property', 'history-or-thread-dependent-result',
                   '%r: canonical (sequential, cold, fresh process) %s; under %s (%s) %s' % (
                       pool[i], canon[i][:300], name, where, val[:300]),
                   failing_input={'tuple': pool[i], 'canonical': canon[i], 'discipline': name, 'where': where,
                                  'observed': val, 'all': [(a, b) for a, b, _ in lst[:6]]}, property_fails=True)
    if prec_explained:
        witness = [j for j in prec_explained if (pool[j][1], pool[j][2]) == ('三分之一', 'zh-cn')]
        i = witness[0] if witness else sorted(prec_explained, key=lambda j: (len(pool[j][1]), pool[j][1]))[0]
        name, where, val = prec_explained[i][0]
        ctx.report('property', 'decimal-precision-thread-dependent',
                   'REGRESSION to the repaired defect (number parsing outside @precision(15)): '
                   '%d pool tuples answer differently on a thread other than the importing one (ambient Decimal '
                   'precision %r instead of %r); setting the precision to 15 on that thread restores the canonical '
                   'answer. e.g. %s(%r, %r): main thread %s; %s/%s %s' % (
                       len(prec_explained), results[name].get('worker_thread_prec'),
                       results['a_seq_cold'].get('importing_thread_prec'), pool[i][0], pool[i][1], pool[i][2],
                       canon[i][:200], name, where, val[:200]),
                   failing_input={'call': '%s(%r, %r)' % (pool[i][0], pool[i][1], pool[i][2]),
                                  'on_importing_thread': canon[i], 'on_other_thread': val, 'discipline': name,
                                  'tuples_affected': [pool[j][:3] for j in sorted(prec_explained)[:12]]},
                   property_fails=True)
    elif dependent:
        ctx.report('correspondence', 'fraction-path-dependent-but-threads-agree',
                   'the fraction path depends on the ambient precision under localcontext but no thread run differed',
                   failing_input=None)
    ctx.extra['tuples_precision_dependent'] = len(prec_explained)
    ctx.sample({'tuple': pool[0], 'canonical': canon[0][:300]})


def single_idx_of(name, key, sub=None):
    if name.startswith('a1_single_'):
        return int(name[len('a1_single_'):])
    if name.startswith('d_threads_'):
        return sub[int(key)]
    return int(key)
