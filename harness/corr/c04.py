"""C04 — spelled-out cardinals and ordinals resolve to the integer they denote.

Ties (every run):
  unit      RTV.Num.getIntValue vs BaseNumberParser.__get_int_value on the token lists of English numerals and on
            seeded token lists over each culture's own map keys (8 cultures); resolveComposite vs
            resolve_composite_number (3 implementations); English normalize_token_set; the CJK integer walk vs
            CJKNumberParser.get_int_value; textResolution vs _text_number_parse + format;
            tokenisation tie: text_number_regex applied to the generator's surface string yields the generator's
            token list (the regex itself is outside the model).
  pipeline  recognize_number / recognize_ordinal on English numerals produced by the Lean function
            `RTV.Num.pieces` (printed by the driver): n < 10^4 (quick: stride + boundaries, thorough: all), every
            10^k, 10^k ± 1, seeded values below 10^15, x 8 spelling variants x cardinal/ordinal, alone and in a
            carrier sentence: one entity, whole span, value = n.  Other cultures: generators of harness/corr/numerals.py
            over the ranges they are trusted for."""
from lib import common
from lib.common import cps, uncps
from corr import numlib, numerals, numkeys
from lib import numcjkcorr
from lib import numbigcorr
from lib import numordcorr

PROP = 'C04'
LEVEL = 'proof'
PROPS_MODULES = ['RTV.Props.C04', 'RTV.Props.C04Cjk', 'RTV.Props.C04Big', 'RTV.Props.C04Big2', 'RTV.Props.C04Text',
                 'RTV.Props.C04TextEu']
GEN = ['nummaps', 'chartables', 'numcjk', 'numfrac', 'regexes', 'numalts']
REQUIRED_THEOREMS = ['english_value', 'english_cardinal', 'english_ordinal', 'english_sub1000', 'spell_words_in_maps',
                     'spanish_sub1000', 'portuguese_sub1000', 'german_sub1000', 'dutch_sub1000',
                     'french_sub1000_partial', 'french_plural_cents_witness', 'italian_sub1000_partial',
                     'italian_accented_tre_witness', 'cjk_int_zh', 'cjk_int_ja_partial', 'cjk_ja_bare_unit_witness',
                     'cjk_round_div10', 'round_map_consistent', 'round_map_consistent_de_partial', 'german_milliard_witness',
                     'spanish_sub1e6', 'portuguese_sub1e6', 'german_sub1e6', 'dutch_sub1e6',
                     'cjk_walk_zh', 'cjk_walk_ja_partial', 'cjk_ordinal_is_cardinal', 'cjk_sign_restores', 'cjk_fraction_value',
                     'cjk_double_value', 'cjk_percent_scaled', 'cjk_parse_zh', 'cjk_cheng_zhe', 'cjk_point_single_digit',
                     'cjk_ja_percent_never_parses', 'cjk_digit_by_digit_witness',
                     'spanish_cardinal', 'german_cardinal', 'dutch_cardinal', 'portuguese_cardinal_partial',
                     'portuguese_e_mil_witness', 'scale_words_in_maps',
                     'french_cardinal_partial', 'french_un_million_witness', 'french_cents_millions_witness',
                     'italian_cardinal_partial', 'italian_tre_milioni_witness', 'scale_words_in_maps_fr_it',
                     'german_ordinal_sub1000', 'german_ordinal_sub1e6', 'dutch_ordinal_sub1000', 'portuguese_ordinal_sub1000', 'french_ordinal_sub1000',
                     'spanish_ordinal_sub1000_partial', 'spanish_decimoseptimo_witness', 'italian_ordinal_sub1000_partial',
                     'italian_ordinal_witness',
                     # RTV.Props.C04Text / C04TextEu: the tokeniser inside the statement (en, es, fr, de; samples)
                     'alts_are_pattern', 'spell_ignores_hyphen', 'english_tokens_sample', 'english_text_sample',
                     'es_tokens_sample', 'fr_tokens_sample', 'de_tokens_sample', 'es_ord_tokens_sample', 'fr_ord_tokens_sample',
                     'de_ord_tokens_sample', 'spanish_text_sample', 'german_text_sample', 'french_text_sample_partial',
                     'german_ord_text_sample', 'french_ord_text_sample', 'spanish_ord_text_sample_partial',
                     'french_cents_lost_by_tokeniser', 'german_ordinal_ending_lost_by_tokeniser',
                     'spanish_decimoseptimo_not_tokenised']
RULE = ('unit: __get_int_value on every English numeral of the pipeline set + seeded token lists over each '
        "culture's map keys; pipeline: English n<10^4 (quick: every 7th + boundaries; thorough: all), 10^k, 10^k±1, "
        'seeded n<10^15, x 8 variants x cardinal/ordinal x alone/carrier; es fr pt de it nl zh ja: generator output '
        'for n<2000 (quick: stride), 10^k±1 and seeded values in the generator range; non-trivial = distinct '
        '(culture, query) with at least one entity')
ASSUMPTIONS = ['text_number_regex tokenisation: modelled (RTV.NumFrac.textTokens, alternation = the real pattern text: alts_are_pattern) for en-us, es-es, fr-fr, de-de and inside the statements on SAMPLES of numerals (Props/C04Text*); for every other numeral and for pt-br, it-it, nl-nl the specification token lists are tied to the REAL tokeniser by the harness on every run (tokenise-<culture>); the extractor regexes are outside the model (pipeline)',
               'values inside __get_int_value are modelled as naturals: exact while every intermediate value has at most 15 digits',
               'numeral generators of the non-English cultures are hand-written from the grammar (harness/corr/numerals.py)']

CARRIER = {'en-us': 'there were %s of them', 'es-es': 'había %s allí', 'fr-fr': 'il y avait %s ici',
           'pt-br': 'havia %s aqui', 'de-de': 'es gab %s dort', 'it-it': 'erano %s qui', 'nl-nl': 'er waren %s daar',
           'zh-cn': '这里有 %s 。', 'ja-jp': 'ここに %s あります'}
ORD_CARRIER = 'she finished %s overall'
VARIANTS = [(a, f, h) for a in (0, 1) for f in (0, 1) for h in (0, 1)]


def english_numbers(ctx):
    r = ctx.rng('en-n')
    ns = set(range(0, 10000) if ctx.thorough else list(range(0, 130)) + list(range(130, 10000, 7)))
    for k in range(1, 15):
        ns.update([10 ** k - 1, 10 ** k, 10 ** k + 1])
    ns.update([100, 101, 110, 111, 119, 120, 999, 1000, 1001, 1100, 1101, 10 ** 15 - 1, 123456789012345, 100000000000001,
               1000001, 1001000, 1000100, 20000, 21000, 100100, 1010101, 900000000000000, 999000000000000])
    for _ in range(5000 if ctx.thorough else 700):
        k = r.randint(4, 15)
        n = r.randint(10 ** (k - 1), 10 ** k - 1)
        if r.random() < 0.4:        # zero out random groups
            g = [n // 10 ** (3 * i) % 1000 for i in range(5)]
            g = [x if r.random() < 0.6 else 0 for x in g]
            n = sum(x * 10 ** (3 * i) for i, x in enumerate(g))
        ns.add(n)
    return sorted(x for x in ns if 0 <= x < 10 ** 15)


def spell_all(ns, ordinal):
    lines = []
    keys = []
    for n in ns:
        if ordinal and n == 0:
            continue
        for v in VARIANTS:
            lines.append('n.spell\t%d\t%d\t%d\t%d\t%d' % ((n,) + v + (1 if ordinal else 0,)))
            keys.append((n, v))
    out = common.driver(lines)
    res = {}
    for k, o in zip(keys, out):
        text, toks = o.split('|')
        res[k] = (uncps(text), [uncps(t) for t in toks.split(';')])
    return res


_variant = []


def variant():
    """Which modelled variant of `__get_int_value` the working tree follows (DESIGN 2.5): 1 = the end-word scan
    reaches index 0 and an empty slice counts once (findings/num/int-value-leading-round.diff), 0 = the code as
    first found. Probe: ['thousand', 'hundred'] is 1100 under the repaired code and 100000 under the old one."""
    if not _variant:
        parser = numlib.models('en-us')['number'].parser
        v = int(parser._BaseNumberParser__get_int_value(['thousand', 'hundred']))
        _variant.append(1 if v == 1100 else 0)
    return _variant[0]


def giv_impl(parser, toks):
    try:
        v = parser._BaseNumberParser__get_int_value(list(toks))
        return str(int(v)) if v == int(v) else 'frac:' + str(v), v
    except Exception as e:
        return numlib.err_kind(e), None


def unit_english(ctx, spelled):
    parser = numlib.models('en-us')['number'].parser
    lines, impl, meta = [], [], []
    seen = set()
    for (n, v, ordinal), (text, toks) in spelled.items():
        key = tuple(toks)
        if key in seen:
            continue
        seen.add(key)
        # tokenisation tie
        got = [m.group().lower() for m in parser.text_number_regex.finditer(text)]
        if got != toks:
            ctx.report('correspondence', 'tokenise-en', 'text_number_regex on %r: %r, generator tokens %r' % (text, got, toks),
                       failing_input={'text': text, 'implementation': got, 'model': toks})
        lines.append('n.giv\t%s\t%d\t%s' % (cps('en-us'), variant(), '\t'.join(cps(t) for t in toks)))
        a, _ = giv_impl(parser, toks)
        impl.append(a)
        meta.append((n, toks))
    model = [numlib.canon_model_err(m) for m in common.driver(lines)]
    ctx.count('int-value-en-numerals', len(lines))
    for (n, toks), a, b in zip(meta, impl, model):
        ctx.nontriv(('giv', tuple(toks)))
        if a != b:
            ctx.report('correspondence', 'int-value', '__get_int_value(%r): implementation %s, model %s' % (toks, a, b),
                       failing_input={'culture': 'en-us', 'tokens': toks, 'implementation': a, 'model': b, 'denotes': n},
                       property_fails=(a != str(n)))
        elif a != str(n):
            ctx.report('property', 'en-us:int-value', '__get_int_value(%r) = %s, the numeral denotes %d' % (toks, a, n),
                       failing_input={'culture': 'en-us', 'tokens': toks, 'implementation': a, 'denotes': n},
                       property_fails=True)


WORD_CULTURES = ['en-us', 'es-es', 'fr-fr', 'pt-br', 'de-de', 'it-it', 'nl-nl']


def unit_tokens(ctx):
    """seeded token lists over each culture's own keys: the algorithm, not the numerals"""
    r = ctx.rng('toks')
    lines, impl, meta = [], [], []
    rl, ri = [], []
    for cu in WORD_CULTURES:
        parser = numlib.models(cu)['number'].parser
        cfg = parser.config
        card = [k for k, v in cfg.cardinal_number_map.items() if isinstance(v, int)]
        ords = list(cfg.ordinal_number_map.keys())
        rnd = [k for k in cfg.round_number_map.keys()]
        small_card = [k for k in card if cfg.cardinal_number_map[k] < 100] or card
        seps = list(cfg.written_integer_separator_texts) + [cfg.word_separator_token, '-', ' -', '7', '42', 'xyz', '٣']
        for _ in range(6000 if ctx.thorough else 1200):
            n = r.choice([1, 1, 2, 2, 3, 3, 4, 5, 6, 8])
            toks = []
            for _ in range(n):
                x = r.random()
                pool = small_card if x < 0.45 else rnd if x < 0.7 else ords if x < 0.8 else seps if x < 0.93 else card
                toks.append(r.choice(pool))
            a, v = giv_impl(parser, toks)
            if v is not None and abs(v) >= 10 ** 15:
                ctx.count('int-value-skipped-over-15-digits')
                continue
            lines.append('n.giv\t%s\t%d\t%s' % (cps(cu), variant(), '\t'.join(cps(t) for t in toks)))
            impl.append(a)
            meta.append((cu, toks))
        # resolve_composite_number
        for _ in range(2500 if ctx.thorough else 500):
            k = r.choice([1, 2, 2, 3])
            parts = [r.choice(card + ords[:20]) for _ in range(k)]
            s = r.choice(['', '-', '-']) .join(parts) if r.random() < 0.5 else ''.join(parts)
            if r.random() < 0.15:
                s = s[:-1] + 'q'
            rl.append('n.rcn\t%s\t%s' % (cps(cu), cps(s)))
            ri.append(str(cfg.resolve_composite_number(s)))
    model = [numlib.canon_model_err(m) for m in common.driver(lines)]
    ctx.count('int-value-seeded-tokens', len(lines))
    for (cu, toks), a, b in zip(meta, impl, model):
        if not a.startswith('err'):
            ctx.nontriv(('givs', cu, tuple(toks)))
        if a != b:
            ctx.report('correspondence', 'int-value', '__get_int_value(%r) [%s]: implementation %s, model %s' % (toks, cu, a, b),
                       failing_input={'culture': cu, 'tokens': toks, 'implementation': a, 'model': b})
    model = common.driver(rl)
    ctx.count('resolve-composite', len(rl))
    for l, a, b in zip(rl, ri, model):
        if a != b:
            ctx.report('correspondence', 'resolve-composite', '%r: implementation %s, model %s' % (
                [uncps(x) for x in l.split('\t')[1:]], a, b), failing_input={'op': l, 'implementation': a, 'model': b})
    # English normalize_token_set
    cfg = numlib.models('en-us')['number'].parser.config
    pool = ['twenty', 'one', '-', 'fifth', 'twenty-fifth', 'thirty-two', 'a-b-c', 'half', 'and', 'three', 'hundredths', 'x-']
    nl_, ni = [], []
    for _ in range(1500 if ctx.thorough else 400):
        toks = [r.choice(pool) for _ in range(r.randint(0, 6))]
        nl_.append('n.nts' + ''.join('\t' + cps(t) for t in toks))
        ni.append(';'.join(cps(t) for t in cfg.normalize_token_set(list(toks), None)))
    model = common.driver(nl_)
    ctx.count('normalize-token-set', len(nl_))
    for l, a, b in zip(nl_, ni, model):
        if a != b:
            ctx.report('correspondence', 'normalize-token-set', '%r: implementation %r, model %r' % (l, a, b),
                       failing_input={'op': l, 'implementation': a, 'model': b})


def unit_cjk(ctx):
    r = ctx.rng('cjk')
    lines, impl = [], []
    for cu, w, gen in (('zh-cn', 'zh', numerals.zh), ('ja-jp', 'ja', numerals.ja)):
        parser = numlib.models(cu)['number'].parser
        cfg = parser.config
        chars = [k for k, v in cfg.zero_to_nine_map.items() if isinstance(v, int)] + list(cfg.round_number_map_char.keys())
        strs = [gen(n) for n in list(range(0, 300)) + [r.randint(0, 10 ** 11) for _ in range(800)]]
        # the Lean specification below 10000 (the generator the theorems cjk_int_* are about)
        spec_ns = list(range(0, 10000)) if ctx.thorough else list(range(0, 1200)) + list(range(1200, 10000, 11))
        spec = [uncps(x) for x in common.driver(['n.spellcjk\t%s\t%d' % (w, n) for n in spec_ns])]
        for n, sp in zip(spec_ns, spec):
            if sp != gen(n):
                ctx.report('correspondence', 'cjk-generators', '%s numeral of %d: specification %r, harness generator %r' % (
                    cu, n, sp, gen(n)), failing_input={'culture': cu, 'n': n, 'model': sp, 'implementation': gen(n)})
        strs += spec
        for _ in range(4000 if ctx.thorough else 1000):
            strs.append(''.join(r.choice(chars) for _ in range(r.randint(1, 7))))
        import regex as _re
        for s in strs:
            if (_re.search(cfg.dozen_regex, s) or _re.search(cfg.pair_regex, s)
                    or _re.search(cfg.negative_number_sign_regex, parser.replace_unit(s))):
                continue
            try:
                v = parser.get_int_value(s)
            except Exception as e:
                continue
            s = parser.replace_unit(s)
            if v != int(v) or abs(v) >= 2 ** 53:
                continue
            lines.append('n.cjk\t%s\t%s' % (w, cps(s)))
            impl.append(str(int(v)))
    model = common.driver(lines)
    ctx.count('cjk-int-value', len(lines))
    for l, a, b in zip(lines, impl, model):
        ctx.nontriv(l)
        if a != b:
            ctx.report('correspondence', 'cjk-int-value', 'get_int_value(%r) [%s]: implementation %s, model %s' % (
                uncps(l.split('\t')[2]), l.split('\t')[1], a, b), failing_input={'op': l, 'implementation': a, 'model': b})


def judge(res, text, offset, n, g_mark):
    if isinstance(res, str):
        return 'raises', res
    if len(res) == 0:
        return 'no-entity', 'nothing recognised'
    if len(res) > 1:
        return 'split', 'recognised as %d entities: %r' % (len(res), [(t, v) for _, _, t, v, _ in res])
    st, en, t, v, _ = res[0]
    # C04 asks for a single entity for the numeral: its text is the numeral; surrounding white space inside the
    # span is C01's subject, not judged here
    if t.strip().lower() != text.strip().lower() or st > offset or en < offset + len(text) - 1:
        return 'span', 'span [%d,%d] text %r, numeral %r at [%d,%d]' % (st, en, t, text, offset, offset + len(text) - 1)
    if v != str(n):
        return 'value', 'value %r, the numeral denotes %d' % (v, n)
    return None, ''


import re as _stdre


_JD, _JD2, _JR = '一二三四五六七八九', '二三四五六七八九', '十百千万億'
_FR_CENT_COMPOUND = _stdre.compile(r'^cent (vingt|trente|quarante|cinquante|soixante|quatre-vingt)(-| et )(?!dix( |$))')


def ja_shape(text):
    """Which of the three recorded ja-jp defects a numeral with 万 / 億 can hit (audit item 5: the recorded `man` / `oku`
    signatures used to exempt EVERY numeral with 万 / 億).  Read off the numeral's text only:
    round-run   the text is a sequence of chunks <digits><round characters>; JapaneseNumericWithUnit's NotSingleRegex
                takes one or two round characters in the first chunk and at most one in the later ones — a later chunk
                with two (二百|二十万, 一万四千|百) or a first chunk with three is not extracted (no-entity / span);
    bare-after  a round character directly after a LARGER one, the digit in front of the run being 2..9 (二万千, 五百十,
                二十万千): CJKNumberParser.get_int_value reuses that digit for the bare unit (value);
    gap-scale   <百|千><digit><万|億> (八百三万): the digit is read one unit below the round character in front (830万; value).
    '' = none of them: such a numeral is demanded like any other (class `man-plain` / `oku-plain`, recorded nowhere)."""
    ch = [c for c in _stdre.findall('[%s]*[%s]*' % (_JD, _JR), text) if c]
    ks = [len([x for x in c if x in _JR]) for c in ch]
    out = []
    if text[:1] in _JD and ks and (ks[0] > 2 or any(k >= 2 for k in ks[1:])):
        out.append('round-run')
    for m in _stdre.finditer('[%s]([%s]{2,})' % (_JD2, _JR), text):
        run = [_JR.index(x) for x in m.group(1)]
        if any(a > b for a, b in zip(run, run[1:])):
            out.append('bare-after')
            break
    if _stdre.search('[百千][%s][万億]' % _JD, text):
        out.append('gap-scale')
    return out


def word_class(cu, text, in_sentence=True, bad=None):
    """The word class a recorded finding is keyed by (so that a different defect of the same culture is not hidden
    behind a recorded signature).  A recorded class is as narrow as the defect: the sub-families that pass today
    (`compound-other`, `man-plain`, `oku-plain`, a `man` / `oku` failure of a kind the numeral's shape does not explain)
    are recorded nowhere, so a failure there is a new violation."""
    if cu == 'fr-fr':
        if 'cents' in text:
            return 'plural-cents'
        if '-' in text or ' et ' in text:
            # the recorded family: `cent <tens>-<unit>` / `cent <tens> et un` at the START of the numeral, inside a sentence,
            # splits after the tens word (alone, after `mille`, and `cent soixante-dix [mille …]` are fine today)
            return 'compound' if (in_sentence and _FR_CENT_COMPOUND.match(text)) else 'compound-other'
        return 'other'
    if cu == 'it-it':
        return 'accented-tre' if 'tré' in text else 'other'
    if cu == 'pt-br':
        return 'catorze' if 'catorze' in text else 'other'
    if cu == 'ja-jp':
        scale = 'oku' if '億' in text else 'man' if '万' in text else None
        if scale:
            shape = ja_shape(text)
            if not shape:
                return scale + '-plain'
            if (bad in ('no-entity', 'span') and 'round-run' not in shape) or (
                    bad == 'value' and 'bare-after' not in shape and 'gap-scale' not in shape):
                return scale + '-' + '+'.join(shape)      # a failure of a kind the numeral's shape does not explain
        if _stdre.search(r'(^|[百千万億])十', text):
            return 'bare-ten'
        if scale:
            return scale
        if _stdre.search(r'(^|[千万億])百|(^|[万億])千', text):
            return 'bare-unit'
        return 'other'
    return 'other'


def size_class(n):
    return 'lt100' if n < 100 else 'lt1000' if n < 1000 else 'lt10^6' if n < 10 ** 6 else 'ge10^6'


def pipeline_english(ctx, spelled):
    jobs, meta = [], []
    for (n, v, ordinal), (text, toks) in spelled.items():
        kind = 'ordinal' if ordinal else 'number'
        for carrier in (False, True):
            q = ((ORD_CARRIER if ordinal else CARRIER['en-us']) % text) if carrier else text
            jobs.append((kind, 'en-us', q))
            meta.append((n, v, kind, text, q, q.index(text), toks))
    # de-duplicate identical queries (variants often coincide)
    uniq = {}
    for j, m in zip(jobs, meta):
        uniq.setdefault((j, m[0]), m)
    jobs = [k[0] for k in uniq]
    meta = list(uniq.values())
    results = numlib.run_pipeline(jobs)
    ctx.count('pipeline-en-cardinal', sum(1 for m in meta if m[2] == 'number'))
    ctx.count('pipeline-en-ordinal', sum(1 for m in meta if m[2] == 'ordinal'))
    # the model's resolution string for the same tokens
    lines = ['n.tres\t%s\t%d\t15\t%s' % (cps('en-us'), variant(), '\t'.join(cps(t) for t in m[6])) for m in meta]
    ul = list(dict.fromkeys(lines))
    pred = dict(zip(ul, common.driver(ul)))
    for (n, v, kind, text, q, off, toks), res, line in zip(meta, results, lines):
        if not isinstance(res, str) and res:
            ctx.nontriv((kind, q))
        bad, detail = judge(res, text, off, n, ',')
        fi = {'culture': 'en-us', 'model': kind, 'query': q, 'numeral': text, 'denotes': n, 'result': res}
        if bad:
            teen = kind == 'ordinal' and any(10 <= (n // 10 ** (3 * i)) % 100 <= 19 and n % 10 ** (3 * i) != 0
                                             for i in range(1, 5))
            ctx.report('property', 'en-us:%s:%s:%s' % ('ordinal' if kind == 'ordinal' else 'cardinal',
                                                       'teen-before-scale' if teen else size_class(n), bad),
                       '%s(%r): %s' % (kind, q, detail), failing_input=fi, property_fails=True)
        elif cps(res[0][3]) != pred[line]:
            ctx.report('correspondence', 'pipeline-resolution', '%s(%r): implementation %r, model %r' % (
                kind, q, res[0][3], uncps(pred[line])), failing_input=dict(fi, model=uncps(pred[line])))
    ctx.sample({'query': meta[len(meta) // 2][4], 'result': results[len(meta) // 2]})


EU = {'es-es': 'es', 'fr-fr': 'fr', 'pt-br': 'pt', 'de-de': 'de', 'it-it': 'it', 'nl-nl': 'nl'}
EU_BIG = ('es-es', 'pt-br', 'de-de', 'nl-nl')     # cultures whose specification reaches 10^6 (spellEuAll)


def eu_numerals(ctx):
    """The numerals below 1000 of es fr pt de it nl come from the Lean specification `spellEu` (driver); unit ties:
    the tokeniser yields the specification's tokens, and __get_int_value agrees with the model on them."""
    r = ctx.rng('eu-big')
    big_ns = set()
    for k in (1, 2, 11, 21, 31, 100, 101, 121, 200, 999):
        for u in (0, 1, 21, 100, 101, 121, 999):
            big_ns.add(1000 * k + u)
    for _ in range(3000 if ctx.thorough else 300):
        big_ns.add(r.randint(1000, 999999))
    keys = [(cu, n) for cu in EU for n in list(range(1000)) + (sorted(big_ns) if cu in EU_BIG else [])]
    out = common.driver(['n.spelleu\t%s\t%d' % (EU[cu], n) for cu, n in keys])
    table = {}
    for (cu, n), o in zip(keys, out):
        text, toks = o.split('|')
        table[(cu, n)] = (uncps(text), [uncps(t) for t in toks.split(';')])
    gl, gi, meta = [], [], []
    for (cu, n), (text, toks) in table.items():
        parser = numlib.models(cu)['number'].parser
        got = [m.group().lower() for m in parser.text_number_regex.finditer(text)]
        if got != toks:
            ctx.report('correspondence', 'tokenise-%s' % cu, 'text_number_regex on %r: %r, specification tokens %r' % (
                text, got, toks), failing_input={'culture': cu, 'text': text, 'implementation': got, 'model': toks})
        a, _ = giv_impl(parser, toks)
        gl.append('n.giv\t%s\t%d\t%s' % (cps(cu), variant(), '\t'.join(cps(t) for t in toks)))
        gi.append(a)
        meta.append((cu, n, toks))
    model = [numlib.canon_model_err(m) for m in common.driver(gl)]
    ctx.count('int-value-eu-numerals', len(gl))
    for (cu, n, toks), a, b in zip(meta, gi, model):
        ctx.nontriv(('giv', cu, n))
        if a != b:
            ctx.report('correspondence', 'int-value', '__get_int_value(%r) [%s]: implementation %s, model %s' % (
                toks, cu, a, b), failing_input={'culture': cu, 'tokens': toks, 'implementation': a, 'model': b,
                                                'denotes': n})
    return table


def pipeline_other(ctx):
    eu = eu_numerals(ctx)
    r = ctx.rng('other')
    jobs, meta = [], []
    for cu, gen in numerals.GENERATORS.items():
        ns = set(range(0, 2000) if ctx.thorough else list(range(0, 101)) + list(range(101, 2000, 13)))
        for k in range(2, 12):
            ns.update([10 ** k - 1, 10 ** k, 10 ** k + 1])
        for _ in range(1500 if ctx.thorough else 250):
            k = r.randint(3, 11)
            ns.add(r.randint(10 ** (k - 1), 10 ** k - 1))
        ns.update(n for (c2, n) in eu if c2 == cu)
        for n in sorted(ns):
            text = eu[(cu, n)][0] if (cu, n) in eu else gen(n)     # the Lean specification where it reaches
            if text is None:
                continue
            for carrier in (False, True):
                q = CARRIER[cu] % text if carrier else text
                jobs.append(('number', cu, q))
                meta.append((cu, n, text, q, q.index(text)))
    results = numlib.run_pipeline(jobs)
    for (cu, n, text, q, off), res in zip(meta, results):
        ctx.count('pipeline-%s-cardinal' % cu)
        if not isinstance(res, str) and res:
            ctx.nontriv((cu, q))
        bad, detail = judge(res, text, off, n, None)
        if bad:
            ctx.report('property', '%s:cardinal:%s:%s' % (cu, word_class(cu, text, q != text, bad), bad), 'number(%r, %s): %s' % (q, cu, detail),
                       failing_input={'culture': cu, 'model': 'number', 'query': q, 'numeral': text, 'denotes': n,
                                      'result': res}, property_fails=True)


def scale_word(text):
    for w in ('billones', 'billón', 'millones', 'millón', 'milliards', 'milliard', 'millions', 'million', 'milhões',
              'milhão', 'milliarden', 'milliarde', 'millionen', 'miliardi', 'miliardo', 'milioni', 'milione',
              'biljoen', 'miljard', 'miljoen', 'mille', 'mila', 'tausend', 'duizend', 'mil'):
        if w in text:
            return w
    return 'none'


def pipeline_big(ctx):
    """scale words x multipliers x remainders, with each culture's agreement / apocope rules"""
    jobs, meta = [], []
    for cu, f in numerals.BIG.items():
        for n, text in f():
            for carrier in (False, True):
                q = CARRIER[cu] % text if carrier else text
                jobs.append(('number', cu, q))
                meta.append((cu, n, text, q, q.index(text)))
    results = numlib.run_pipeline(jobs)
    for (cu, n, text, q, off), res in zip(meta, results):
        ctx.count('pipeline-%s-scale-words' % cu)
        if not isinstance(res, str) and res:
            ctx.nontriv((cu, q))
        bad, detail = judge(res, text, off, n, None)
        if bad:
            cls = 'mil-millones' if 'mil millones' in text else scale_word(text)
            sig = '%s:cardinal-scale:%s:%s' % (cu, cls, bad)
            if cu == 'fr-fr' and bad == 'split' and word_class(cu, text, q != text, bad) == 'compound':
                sig = 'fr-fr:cardinal:compound:split'      # the recorded family: a compound after `cent` in a sentence
            ctx.report('property', sig, 'number(%r, %s): %s' % (q, cu, detail),
                       failing_input={'culture': cu, 'model': 'number', 'query': q, 'numeral': text, 'denotes': n,
                                      'result': res}, property_fails=True)


def pipeline_ordinals(ctx):
    """ordinals of es fr pt de it nl through recognize_ordinal: units, tens, hundreds, scale words"""
    jobs, meta = [], []
    for cu, lst in numerals.ORDINALS.items():
        for n, text in lst:
            for carrier in (False, True):
                q = CARRIER[cu] % text if carrier else text
                jobs.append(('ordinal', cu, q))
                meta.append((cu, n, text, q, q.index(text)))
    results = numlib.run_pipeline(jobs)
    for (cu, n, text, q, off), res in zip(meta, results):
        ctx.count('pipeline-%s-ordinal' % cu)
        if not isinstance(res, str) and res:
            ctx.nontriv((cu, 'ord', q))
        bad, detail = judge(res, text, off, n, None)
        if bad:
            cls = 'unit' if n < 20 else 'tens' if n < 100 else 'hundreds' if n < 1000 else 'scale'
            ctx.report('property', '%s:ordinal:%s:%s' % (cu, cls, bad), 'ordinal(%r, %s): %s' % (q, cu, detail),
                       failing_input={'culture': cu, 'model': 'ordinal', 'query': q, 'numeral': text, 'denotes': n,
                                      'result': res}, property_fails=True)


def key_ties(ctx):
    """every map key (Patterns YAML ∪ module) alone -> its YAML value, unless the committed contract lists it"""
    contract = numkeys.load_contract()
    jobs = numkeys.key_jobs(lambda cu: numlib.models(cu)['number'].parser.config)
    results = numlib.run_pipeline([(kind, cu, k) for cu, name, k, v, kind in jobs])
    for (cu, name, k, v, kind), res in zip(jobs, results):
        if k in contract.get(cu, {}).get(name, {}):
            ctx.count('map-key-not-standalone')
            continue
        ctx.count('map-key-alone')
        bad, detail = judge(res, k, 0, v, None)
        if not bad:
            ctx.nontriv(('key', cu, name, k))
        else:
            ctx.report('property', '%s:key:%s:%s' % (cu, 'cardinal' if kind == 'number' else 'ordinal', bad),
                       '%s(%r, %s): %s; %s[%r] = %d in Patterns/%s' % (kind, k, cu, detail, name, k, v, numkeys.LANGS[cu]),
                       failing_input={'culture': cu, 'model': kind, 'query': k, 'map': name, 'denotes': v, 'result': res},
                       property_fails=True)


def carriers_clean(ctx):
    jobs = ([('number', cu, CARRIER[cu] % 'x') for cu in CARRIER] + [('ordinal', 'en-us', ORD_CARRIER % 'x')] +
            [('ordinal', cu, CARRIER[cu] % 'x') for cu in numerals.ORDINALS])
    for j, res in zip(jobs, numlib.run_pipeline(jobs)):
        if res:
            raise common.InfraError('carrier sentence %r yields entities by itself: %r' % (j, res))


def correspond(ctx):
    numlib.setup()
    carriers_clean(ctx)
    ns = english_numbers(ctx)
    spelled = {}
    for ordinal in (False, True):
        for (n, v), tv in spell_all(ns, ordinal).items():
            spelled[(n, v, ordinal)] = tv
    unit_english(ctx, spelled)
    unit_tokens(ctx)
    unit_cjk(ctx)
    numcjkcorr.unit(ctx)       # the whole CJKNumberParser (RTV.Model.NumCjk; theorems in Props/C04Cjk), zh-cn + ja-jp
    pipeline_english(ctx, spelled)
    pipeline_other(ctx)
    pipeline_big(ctx)
    numbigcorr.run(ctx)        # es pt de nl at and above 10^6 (RTV.Num.spellHuge; theorems in Props/C04Big)
    numordcorr.run(ctx)        # fr it at and above 1000 (RTV.Num.spellTop), ordinals below 1000 of six cultures (Props/C04Big2)
    pipeline_ordinals(ctx)
    key_ties(ctx)
    ctx.extra['english_values'] = len(ns)
    ctx.extra['int_value_variant'] = 'repaired (scan reaches index 0)' if variant() else 'as first found (index 0 never an end word)'


def search(ctx, proof_problems):
    """A table obligation broke (a word the generator emits is missing from the regenerated maps or carries
    another value): evaluate the model on every single word and replay it on the implementation."""
    # round words whose value differs from their ordinal / cardinal entry: replay "<word>" alone on the implementation
    for cu in numkeys.LANGS:
        cfg = numlib.models(cu)['number'].parser.config
        for w, r in cfg.round_number_map.items():
            for name, m, kind in (('OrdinalNumberMap', cfg.ordinal_number_map, 'ordinal'),
                                  ('CardinalNumberMap', cfg.cardinal_number_map, 'number')):
                if w in m and m[w] != r and not (cu == 'de-de' and w == 'milliard'):
                    res = numlib.run_pipeline([(kind, cu, 'x ' + w)])[0]
                    ctx.report('property', '%s:round-map:%s' % (cu, w),
                               'RoundNumberMap[%r] = %r but %s[%r] = %r' % (w, r, name, w, m[w]),
                               failing_input={'culture': cu, 'word': w, 'round': r, name: m[w], 'query': w, 'result': res},
                               property_fails=True)
    parser = numlib.models('en-us')['number'].parser
    words = {}
    lines, keys = [], []
    for n in list(range(0, 100)) + [100, 1000, 10 ** 6, 10 ** 9, 10 ** 12]:
        for ordinal in (0, 1):
            if ordinal and n == 0:
                continue
            lines.append('n.spell\t%d\t0\t0\t0\t%d' % (n, ordinal))
            keys.append((n, ordinal))
    for (n, ordinal), o in zip(keys, common.driver(lines)):
        text, toks = o.split('|')
        toks = [uncps(t) for t in toks.split(';')]
        a, _ = giv_impl(parser, toks)
        if a != str(n):
            ctx.report('property', 'en-us:word-value', '__get_int_value(%r) = %s, the numeral denotes %d' % (toks, a, n),
                       failing_input={'culture': 'en-us', 'tokens': toks, 'implementation': a, 'denotes': n,
                                      'query': uncps(text)}, property_fails=True)
