"""C01 — entity spans point at the text they claim to have recognised.

Tie: (unit) QueryProcessor.preprocess against both model variants (current whole-string lower / repaired
per-character) over EVERY code point and seeded strings; the real extractors with their regex calls recorded,
every recorded call of a modelled function replayed in the Lean model (same (start, length, text, type) lists).
(pipeline) spanOK — 0 <= start <= end < |q| and text = normalised slice up to blanks — on the real ModelResults of
every registered (model, culture) pair over Specs inputs, generated expressions and noise, evaluated in Python
and by the Lean definition `RTV.Preprocess.spanOK`.  Shares lib/spancorr.py with C12."""
from lib import spancorr
from lib import dtextractcorr
from lib import dtextract2corr

PROP = 'C01'
LEVEL = 'proof'
PROPS_MODULES = ['RTV.Props.C01', 'RTV.Props.C01DtExtract', 'RTV.Props.C01DtExtract2']
GEN = ['chartables', 'preprocess']
REQUIRED_THEOREMS = ['preprocess_length_of', 'recodePairs_single', 'preprocess_length', 'preprocess_length_current_fails',
                     'preprocess_length_current_partial', 'sweep_spans', 'sweep_spans_ip', 'sweep_spans_number',
                     'percent_posmap_monotone', 'percent_restore_span', 'mergeAllTokens_text', 'model_end',
                     'mergeModPrefix_span', 'mergeModPrefix_leading_blank', 'modifier_push_pop',
                     'modifier_push_pop_suffix', 'modifier_push_pop_index_counterexample', 'phoneRespan_span',
                     'mergedExtract_spans', 'mergeAllTokens_nonempty', 'mergeAllTokens_empty_token_witness', 'mergedExtract_nonempty',
                     'datetime_path_span', 'spanOK_of_preprocessed_slice', 'parser_push_pop', 'parser_pop_without_reset_restores_twice', 'parser_push_pop_equal_around_counterexample', 'parser_push_pop_index_counterexample',
                     # RTV.Props.C01DtExtract: the date-time sub-extractors' token arithmetic
                     'subextractor_results_ok', 'dateBasic_inside', 'numberWithMonth_inside', 'extendWdYear_inside', 'extendWdYear_overrun_witness', 'agoLater_inside', 'relDurLoop_inside', 'inPrefix_reversed_witness', 'numberWithUnit_inside', 'numberWithUnitAndSuffix_inside', 'mergeMultipleDuration_inside', 'tagInequality_inside', 'mdtPairTok_inside', 'mdtLoop_mem', 'mdtWiden_inside', 'todBeforeOne_inside', 'todAfterOne_inside', 'specialOne_inside', 'rangePairTok_inside', 'rangeLoop_mem', 'range_from_leading_blank', 'rangePairTok_time_after_between_witness', 'matchDurationOne_inside_partial', 'matchDuration_suffix_overrun',
                     # repaired variants at full strength + the pre-fix regressions (findings/dtextract/*.diff)
                     'dateBasic_fixed_covers_match', 'dateBasic_first_occurrence', 'mdtLoop_total_fixed', 'mergeDateAndTime_raises',
                     'rangePairTok_fixed_starts_at_word', 'rangePairTok_fixed_clear_of_previous',
                     # RTV.Props.C01DtExtract2: the remaining sub-extractors (date / time / date-time period, set, holiday)
                     'centuryOne_inside_iff', 'century_overrun_witness', 'centuryOne_fixed_inside', 'yearPeriod_reversed', 'yearPeriod_empty_entity_witness', 'yearPeriod_fixed_inside', 'singleTimePoint_inside', 'complexInputs_ok', 'firstOccToks_inside', 'tpPoints_ok', 'tpMergeTwoTimePoints_mem', 'dtpDateWithTimePeriod_inside', 'dtpMatchDuration_inside_partial', 'dtpDuration_previous_overrun', 'todDates_inside', 'todAdjOne_inside', 'dtpTimeOfDay_inside', 'dtpMatchDurationV_fixed_inside', 'prefixDayOne_inside', 'prefixDay_leading_blank_witness', 'dtpDateWithSuffix_inside', 'matchEachCut_inside', 'matchEachWeekday_inside_partial', 'holidayMatch_inside', 'extractor_results_ok']
RULE = ('preprocess: every code point (blocks of 200 separated by blanks, both case modes) + seeded strings over a pool '
        'with full-width forms, U+0130, sigma, unit tokens; pipeline and unit level as C12 with oracle spanOK; '
        'non-trivial = distinct query with at least one entity / distinct recorded call with at least one result')
ASSUMPTIONS = ['the regex engine is a parameter of the model (recorded match spans)',
               'str.lower() is modelled per code point from the interpreter\'s table; its one context rule (final sigma) '
               'yields one code point either way and sigma/final sigma are identified by the comparison, as in the '
               'property\'s normalisation',
               'culture configurations and NumberWithUnit / Choice span arithmetic are reached only by the pipeline monitor']
EXPLANATION = ('whole-string str.lower() expands U+0130 into two code points, so every offset behind it is shifted '
               '(negative theorem preprocess_length_current_fails; the repaired per-character variant satisfies '
               'preprocess_length).')


def correspond(ctx):
    spancorr.replay_witnesses(ctx, PROP)
    with spancorr.Phase(ctx, 'preprocess_unit'):
        spancorr.preprocess_unit(ctx, PROP)
    tasks = spancorr.pipeline(ctx, PROP)
    spancorr.unit_level(ctx, PROP, tasks)
    dtextractcorr.run(ctx, PROP, tasks)
    dtextract2corr.run(ctx, PROP, tasks)
