"""C09 — dates without a year resolve to the nearest past and the next future occurrence.

Tie: (unit) DateUtils.generate_dates / is_valid_date / is_leap_year / safe_create_from_min_value and the bare
weekday branch of BaseDateParser.parse_implicit_date of the working tree vs RTV.Model.DateUtils through the Lean
driver; (pipeline) recognize_datetime on month-day layouts without a year and bare weekday names vs the property
statement computed independently here and vs the model's prediction."""
import calendar
import datetime as dt

from lib import common, calcorr, dateparsercorr
from lib.calcorr import fmt_dt, ref_fields, guarded, at

PROP = 'C09'
LEVEL = 'proof'
PROPS_MODULES = ['RTV.Props.C09', 'RTV.Props.C09DateParser']
GEN = []
REQUIRED_THEOREMS = ['weekday_candidates', 'weekday_candidates_total', 'bareWeekday_defined', 'monthday_candidates_partial',
                     'monthday_guard_exact', 'generateDates_models_agree', 'monthday_candidates_fixed',
                     'monthday_fails_with_time_of_day', 'feb29_candidates_nonleap_reference',
                     'feb29_candidates_leap_reference_partial', 'feb29_fails_with_time_of_day',
                     'feb29_fails_next_to_century', 'written_day_fixed', 'written_day_prefix_partial',
                     'written_day_prefix_past_is_next_year', 'written_day_prefix_regression',
                     'kth_weekday_of_month', 'kth_weekday_overflow_raises', 'weekday_of_month_named', 'on_day_spec',
                     'relative_weekday_spec', 'weekday_and_day_fuel', 'weekday_and_day_result', 'weekday_and_day_sunday_never',
                     'single_number_spec', 'parse_order', 'on_day_past_clamped', 'wdd_past_search_raises']
RULE = ('unit: generate_dates over all 366 (month, day) x boundary reference days (month ends/starts, leap days, year '
        'boundaries, ISO week transitions, all weekdays; thorough: + every 7th day of 1996-2024 and every 2nd of 2087-2090) x times '
        '{00:00:00, 14:30:00, 23:59:59}, also with an explicit year and invalid days; bare weekday branch over every day '
        'of 1950..2090 x all spellings of the culture map; pipeline: month-day layouts (`may 10`, `10 may`, `may 10th`, '
        '`5/10`, `the 10th of may`, 3-letter months) and weekday names x boundary-first references incl. stated day == '
        'reference day, day before/after, 29 February from leap and non-leap years; non-trivial = distinct (expression, '
        'reference) with two candidates. contracts/C09.json: the month-day and weekday expressions the cross-platform Specs '
        'contain for es-es, es-mx, fr-fr, pt-br, it-it, de-de, nl-nl, zh-cn, en-us x references around the stated day')
ASSUMPTIONS = ['English culture only at pipeline level (generate_dates and the weekday branch are culture independent)',
               'the order of the two values (past first) is the contract of BaseMergedParser._date_time_resolution; it '
               'is monitored here, modelled by C11']

WEEKDAYS = ['monday', 'tuesday', 'wednesday', 'thursday', 'friday', 'saturday', 'sunday']
ABBR = {'mon': 1, 'tues': 2, 'wed': 3, 'thurs': 4, 'fri': 5}
MONTHS = ['january', 'february', 'march', 'april', 'may', 'june', 'july', 'august', 'september', 'october',
          'november', 'december']
FINGERPRINTS = {'DateUtils.generate_dates': 'c706d2bf74004202', 'DateUtils.safe_create_from_value': '7911b510a7fb4914',
                'DateUtils.is_valid_date': 'b009b164560df4ab', 'DateUtils.is_leap_year': '87db2a4ba7fd2f97',
                'DateUtils.this': '6ae1c138c40e9f11', 'DateUtils.next': 'cf69080177d11982',
                'BaseDateParser.parse_implicit_date': '4f2120247cbf4084',
                'BaseDateParser.parse_number_with_month': 'a13884443e9be06a'}
EXPLANATION = ('Lean theorems about the model of generate_dates / the bare-weekday branch (every reference, no bound) + '
               'correspondence of that model with the working tree (unit + pipeline) + the property computed '
               'independently on recognize_datetime output. A tree that follows the repaired variant of generate_dates '
               '(comparison on dates) is accepted silently.')
WITNESS_MONTHDAY = (dt.datetime(2020, 5, 10, 14, 0, 0), 5, 10)       # proved in RTV/Props/C09.lean
WITNESS_FEB29 = (dt.datetime(2020, 2, 29, 14, 0, 0), 2, 29)


def iso(d):
    return '%04d-%02d-%02d' % (d.year, d.month, d.day)


def ordsuf(d):
    if 10 <= d % 100 <= 20:
        return 'th'
    return {1: 'st', 2: 'nd', 3: 'rd'}.get(d % 10, 'th')


# ------------------------------------------------------------------ the property, stated independently

def occurrences_monthday(m, d, today):
    """(latest occurrence strictly before today, earliest occurrence on or after today)."""
    def exists(y):
        return 1 <= y <= 9999 and d <= calendar.monthrange(y, m)[1]
    y = today.year
    fut = next(dt.date(k, m, d) for k in range(y, y + 9) if exists(k) and dt.date(k, m, d) >= today)
    past = next(dt.date(k, m, d) for k in range(y, y - 9, -1) if exists(k) and dt.date(k, m, d) < today)
    return past, fut


def occurrences_weekday(wd, today):
    fut = today + dt.timedelta(days=(wd - today.isoweekday()) % 7)
    return fut - dt.timedelta(days=7), fut


def oracle_monthday(m, d, R):
    past, fut = occurrences_monthday(m, d, R.date())
    tx = 'XXXX-%02d-%02d' % (m, d)
    return [{'timex': tx, 'type': 'date', 'value': iso(past)}, {'timex': tx, 'type': 'date', 'value': iso(fut)}]


def oracle_weekday(wd, R):
    past, fut = occurrences_weekday(wd, R.date())
    tx = 'XXXX-WXX-%d' % wd
    return [{'timex': tx, 'type': 'date', 'value': iso(past)}, {'timex': tx, 'type': 'date', 'value': iso(fut)}]


def pad_date(s):
    y, m, d = s.split('@')[0].split('-')
    return '%04d-%02d-%02d' % (int(y), int(m), int(d))


def model_values(ans):
    f = ans.split('\t')
    if len(f) != 3:
        return ans
    return [{'timex': f[0], 'type': 'date', 'value': pad_date(f[2])}, {'timex': f[0], 'type': 'date', 'value': pad_date(f[1])}]


# ------------------------------------------------------------------ unit level

def all_monthdays():
    return [(m, d) for m in range(1, 13) for d in range(1, calendar.monthrange(2020, m)[1] + 1)]


def unit_generate_dates(ctx, DateUtils, days):
    mds = all_monthdays()
    lines, impl = [], []
    for d0 in days:
        for t in calcorr.TIMES:
            R = at(d0, t)
            rf = ref_fields(R)
            for (m, d) in mds:
                lines.append('du.gen\t1\t%s\t%d\t%d\t%d' % (rf, R.year, m, d))
                f, p = DateUtils.generate_dates(True, R, R.year, m, d)
                impl.append('%s;%s' % (fmt_dt(f), fmt_dt(p)))
    # explicit year (no_year False), invalid days, years at the edge of datetime's range, Feb 29 near centuries
    r = ctx.rng('gen-extra')
    extra = []
    for y in (1, 2, 4, 5, 1896, 1899, 1900, 1901, 1904, 2096, 2100, 2101, 2104, 9996, 9999):
        for (mm, dd) in ((2, 29), (2, 28), (3, 1), (12, 31), (1, 1)):
            if dd <= calendar.monthrange(y, mm)[1]:
                extra.append(dt.date(y, mm, dd))
    for d0 in extra:
        for t in calcorr.TIMES:
            R = at(d0, t)
            for (m, d) in ((2, 29), (2, 28), (2, 30), (4, 31), (1, 1), (12, 31), (R.month, R.day), (13, 1), (0, 5), (6, 0)):
                for ny, yr in ((1, R.year), (0, R.year), (0, 2019), (0, 0), (1, 0), (0, 10000)):
                    lines.append('du.gen\t%d\t%s\t%d\t%d\t%d' % (ny, ref_fields(R), yr, m, d))
                    f, p = DateUtils.generate_dates(bool(ny), R, yr, m, d)
                    impl.append('%s;%s' % (fmt_dt(f), fmt_dt(p)))
    model = common.driver(lines)
    ctx.count('DateUtils.generate_dates', len(lines))
    diff = [i for i, (a, b) in enumerate(zip(impl, model)) if a != b]
    if diff:
        # does the tree follow the repaired variant (compare with the reference's date)?  DESIGN 2.5
        fixed = common.driver([lines[i].replace('du.gen\t', 'du.genfixed\t', 1) for i in diff])
        rest = [i for i, f in zip(diff, fixed) if impl[i] != f]
        if not rest:
            ctx.extra['generate_dates_variant'] = 'repaired (compares dates)'
        for i in rest[:3]:
            ctx.report('correspondence', 'generate_dates', '%s: implementation %s, model %s' % (lines[i], impl[i], model[i]),
                       failing_input={'op': lines[i], 'implementation': impl[i], 'model': model[i]})
    else:
        ctx.extra['generate_dates_variant'] = 'current (compares midnight with the full reference datetime)'
    ctx.sample({'op': lines[len(lines) // 2], 'implementation': impl[len(impl) // 2]})
    # the out-of-range witness of feb29_fails_next_to_century, replayed and recorded (1950..2090 is not affected)
    obs = {}
    for R in (dt.datetime(2096, 3, 1), dt.datetime(2104, 1, 1), dt.datetime(1896, 12, 31), dt.datetime(1904, 2, 1)):
        f, p = DateUtils.generate_dates(True, R, R.year, 2, 29)
        obs[str(R.date())] = {'future': str(f.date()), 'past': str(p.date())}
    ctx.extra['observation_feb29_next_to_century_outside_1950_2090'] = obs


def unit_bare_weekday(ctx, days):
    from recognizers_date_time.date_time.english.common_configs import EnglishCommonDateTimeParserConfiguration
    cfg = EnglishCommonDateTimeParserConfiguration()
    dp = cfg.date_parser
    dow_map = dict(dp.config.day_of_week)
    names = sorted(dow_map)
    lines, impl, meta = [], [], []
    for i, d0 in enumerate(days):
        R = at(d0, calcorr.TIMES[i % 3])
        for nm in (names if i % 6 == 0 else WEEKDAYS):
            lines.append('du.bare\t%s\t%d' % (ref_fields(R), dow_map[nm]))

            def run():
                r = dp.parse_implicit_date(nm, R)
                return '%s\t%s\t%s' % (r.timex, fmt_dt(r.future_value), fmt_dt(r.past_value)) if r.success else 'no'
            impl.append(guarded(run))
            meta.append(nm)
    model = common.driver(lines)
    ctx.count('parse_implicit_date(bare weekday)', len(lines))
    bad = 0
    for l, e, a, b in zip(lines, meta, impl, model):
        if a != b:
            bad += 1
            if bad <= 3:
                ctx.report('correspondence', 'bare-weekday', '%s (%r): implementation %s, model %s' % (l, e, a, b),
                           failing_input={'op': l, 'expression': e, 'implementation': a, 'model': b})
    ctx.sample({'op': lines[3], 'expression': meta[3], 'implementation': impl[3]})


WITNESS_WRITTEN = dt.datetime(2020, 2, 21, 0, 0, 0)        # written_day_prefix_regression
WRITTEN = [('january first', 1, 1), ('february twenty second', 2, 22), ('may twenty nine', 5, 29),
           ('december thirty first', 12, 31), ('july fourth', 7, 4), ('may twenty one', 5, 21)]


def unit_number_with_month(ctx, days):
    """BaseDateParser.parse_number_with_month (month + spelled-out day, no year) called directly."""
    from recognizers_date_time.date_time.english.common_configs import EnglishCommonDateTimeParserConfiguration
    dp = EnglishCommonDateTimeParserConfiguration().date_parser
    lines, impl, meta, refs = [], [], [], []
    days = [WITNESS_WRITTEN] + list(days)          # written_day_prefix_regression first: a revert is reported with it
    for i, d0 in enumerate(days):
        for text, m, d in WRITTEN[1:2] + WRITTEN[:1] + WRITTEN[2:]:
            R = d0 if isinstance(d0, dt.datetime) else at(d0, calcorr.TIMES[i % 3])
            lines.append('du.nwm\t%s\t%d\t%d' % (ref_fields(R), m, d))

            def run():
                x = dp.parse_number_with_month(text, R)
                return '%s\t%s\t%s' % (x.timex, fmt_dt(x.future_value), fmt_dt(x.past_value)) if x.success else 'no'
            impl.append(guarded(run))
            meta.append(text)
            refs.append((R, m, d))
    model = common.driver(lines)
    ctx.count('parse_number_with_month', len(lines))
    diff = [i for i, (a, b) in enumerate(zip(impl, model)) if a != b]
    if diff:
        # a revert of 151a4ac9b?  the pre-fix variant (past candidate = year + 1) is still modelled
        pre = common.driver([lines[i].replace('du.nwm\t', 'du.nwmprefix\t', 1) for i in diff])
        for i, pf in zip(list(diff), pre):
            if impl[i] == pf:
                R, m, d = refs[i]
                want = calcorr.c09_oracle('monthday', (m, d), R)
                ctx.report('property', 'written-day-past-year-plus-one', 'parse_number_with_month(%r, %s) -> %s; the property '
                           'states %r (pre-fix behaviour: past candidate = year + 1)' % (meta[i], R, impl[i], want),
                           failing_input={'op': 'parse_number_with_month', 'expression': meta[i], 'reference': str(R),
                                          'implementation': impl[i], 'model': model[i], 'property_expects': want},
                           property_fails=True)
                diff.remove(i)
    for i in diff[:3]:
        ctx.report('correspondence', 'number-with-month', '%s (%r): implementation %s, model %s' % (lines[i], meta[i], impl[i], model[i]),
                   failing_input={'op': lines[i], 'expression': meta[i], 'implementation': impl[i], 'model': model[i]})
    ctx.sample({'op': lines[0], 'expression': meta[0], 'implementation': impl[0]})


# ------------------------------------------------------------------ pipeline level

def layouts(m, d, k):
    mn = MONTHS[m - 1]
    forms = ['%s %d' % (mn, d), '%d %s' % (d, mn), '%s %d%s' % (mn, d, ordsuf(d)), '%d/%d' % (m, d),
             'the %d%s of %s' % (d, ordsuf(d), mn), '%s %d' % (mn[:3], d)]
    return forms[k % len(forms)]


def build_cases(ctx):
    r = ctx.rng('pipeline')
    bdays = calcorr.boundary_days()
    n_b, n_s = (600, 400) if ctx.thorough else (150, 70)
    must = [dt.date(2020, 5, 10), dt.date(2020, 2, 29), dt.date(2020, 3, 1), dt.date(2021, 2, 28), dt.date(2000, 2, 29),
            dt.date(2019, 12, 31), dt.date(2020, 1, 1), dt.date(2088, 2, 29), dt.date(1952, 2, 29), dt.date(2090, 12, 31)]
    picked = must + r.sample(bdays, min(n_b, len(bdays))) + calcorr.seeded_days(r, n_s)
    refs = [WITNESS_MONTHDAY[0], WITNESS_FEB29[0]] + [at(d, calcorr.TIMES[i % 3]) for i, d in enumerate(picked)]
    mds = all_monthdays()
    cases = []
    for i, R in enumerate(refs):
        today = R.date()
        near = [today + dt.timedelta(days=k) for k in (-1, 0, 1)]
        chosen = [(x.month, x.day) for x in near] + [(2, 29), (2, 28), (12, 31), (1, 1)] + [r.choice(mds) for _ in range(4)]
        seen = set()
        for j, (m, d) in enumerate(chosen):
            if (m, d) in seen:
                continue
            seen.add((m, d))
            for k in ((0, 1, 2, 3, 4, 5) if i < 4 else (i + j,)):
                cases.append((layouts(m, d, k), R, 'monthday', (m, d)))
        for wi, nm in enumerate(WEEKDAYS):
            cases.append((nm, R, 'weekday', wi + 1))
        if i % 3 == 0:
            for nm, wd in ABBR.items():
                cases.append((nm, R, 'weekday-abbr', wd))
    return cases


def contract_cases(ctx):
    """The expressions of contracts/C09.json (every culture, the culture's own words) x references around the stated
    day (day before / same day at 00:00:00 and with a time of day / day after, several years) + seeded references."""
    contract = calcorr.load_contract('C09')['cultures']
    cases = []
    for culture in sorted(contract):
        r = ctx.rng('contract-' + culture)
        n_seed = 40 if ctx.thorough else 10
        for e in contract[culture]:
            fam, par = e['family'], e['params']
            refs = []
            if fam == 'monthday':
                m, d = par
                par = (m, d)
                for y in ((2019, 2020, 2021, 2000, 2088) if ctx.thorough else (r.choice([2019, 2021, 2023]), 2020)):
                    if d <= calendar.monthrange(y, m)[1]:
                        base = dt.date(y, m, d)
                        refs += [at(base - dt.timedelta(days=1), (23, 59, 59)), at(base, (0, 0, 0)), at(base, (14, 30, 0)),
                                 at(base + dt.timedelta(days=1), (0, 0, 0))]
            else:
                base = dt.date(2020, 12, 28) + dt.timedelta(days=par - 1)          # that weekday, ISO week 53
                refs += [at(base - dt.timedelta(days=1), (23, 59, 59)), at(base, (0, 0, 0)), at(base, (14, 30, 0)),
                         at(base + dt.timedelta(days=1), (0, 0, 0))]
            refs += [at(x, calcorr.TIMES[i % 3]) for i, x in enumerate(calcorr.seeded_days(r, n_seed))]
            for R in refs:
                cases.append((e['text'], R, 'monthday' if fam == 'monthday' else 'weekday', par, culture, e.get('level') == 'model', e.get('input')))
    return cases


def pipeline(ctx):
    cases = [c + ('en-us', True, None) for c in build_cases(ctx)] + contract_cases(ctx)
    results = calcorr.run_pipeline([((c[0], c[4]), c[1]) for c in cases])
    carried = calcorr.retry_in_carrier(cases, results, [c[6] for c in cases])
    mlines = []
    unrecognized = set()
    skipped = ctx.extra.setdefault('skipped_by_reason', {})
    for expr, R, fam, par, cul, dem, _car in cases:
        if fam == 'monthday':
            mlines.append('du.md\t%s\t%d\t%d' % (ref_fields(R), par[0], par[1]))
        else:
            mlines.append('du.bare\t%s\t%d' % (ref_fields(R), par % 7))
    answers = common.driver(mlines)
    fixed_ans = common.driver([l.replace('du.md\t', 'du.mdfixed\t', 1) if l.startswith('du.md\t') else l for l in mlines])
    nwm_ans = common.driver([l.replace('du.md\t', 'du.nwmprefix\t', 1) if l.startswith('du.md\t') else l for l in mlines])
    for ci, ((expr, R, fam, par, cul, dem, _car), res, ans, fans) in enumerate(zip(cases, results, answers, fixed_ans)):
        ctx.count('pipeline:%s:%s' % (cul, fam))
        ent = calcorr.whole_entity(res, expr) or carried.get(ci)
        got = ent[4] if ent else None
        if fam == 'weekday-abbr' and got is None:
            # an abbreviation the extractor does not accept on its own: nothing is claimed; counted (`skipped_by_reason`)
            skipped['weekday abbreviation not recognised on its own: %s' % cul] = skipped.get(
                'weekday abbreviation not recognised on its own: %s' % cul, 0) + 1
            continue
        if got is None and not dem:
            unrecognized.add('%s: %s' % (cul, expr))
            # text known from parser-level Specs only (contract `level: parser`): the extractor is not bound to find it on
            # its own; counted
            skipped['not recognised, contract level parser (not demanded): %s' % cul] = skipped.get(
                'not recognised, contract level parser (not demanded): %s' % cul, 0) + 1
            continue
        want = calcorr.c09_oracle('monthday' if fam == 'monthday' else 'weekday', par, R)
        mv = model_values(ans)
        if got is not None and len(got) == 2:
            ctx.nontriv((expr, str(R)))
        fi = {'op': 'recognize_datetime', 'query': expr, 'culture': cul, 'reference': R.strftime('%Y-%m-%d %H:%M:%S'),
              'family': fam, 'implementation': got if ent else res, 'property_expects': want, 'model': mv}
        if got != want:
            same_day = fam == 'monthday' and (par[0], par[1]) == (R.month, R.day) and (R.hour, R.minute, R.second) != (0, 0, 0)
            if same_day and got == mv:
                sig = 'monthday-reference-time-of-day'
            elif fam == 'monthday' and got == model_values(nwm_ans[ci]):
                sig = 'written-day-past-year-plus-one'      # the parse_number_with_month branch (spelled-out day)
            elif got is None:
                sig = 'unrecognized-%s-%s' % (cul, fam)
            else:
                sig = 'no-year-%s' % fam if cul == 'en-us' else 'no-year-%s-%s' % (cul, fam)
            ctx.report('property', sig, '%r (%s) at %s: got %r, the property states %r' % (expr, cul, fi['reference'], got, want),
                       failing_input=fi, property_fails=True)
        elif got != mv and fam == 'monthday' and [got[1]['value'], got[0]['value']] == [pad_date(x) for x in fans.split(';')]:
            pass        # the tree follows the repaired variant (comparison on dates), which satisfies the property
        elif got != mv:
            ctx.report('correspondence', 'pipeline-' + fam, '%r at %s: implementation %r, model %r' % (
                expr, fi['reference'], got, mv), failing_input=fi)
    ctx.sample({'query': cases[0][0], 'reference': str(cases[0][1]), 'implementation': results[0]})
    ctx.sample({'query': cases[-1][0], 'reference': str(cases[-1][1]), 'implementation': results[-1]})
    ctx.extra['pipeline_cases'] = len(cases)
    ctx.extra['unrecognized_contract_expressions'] = sorted(unrecognized)


def correspond(ctx):
    calcorr.cap_reports(ctx)
    common.setup_repo_imports()
    import warnings
    warnings.simplefilter('ignore')
    import recognizers_date_time
    from recognizers_date_time.date_time.utilities import DateUtils
    common.assert_tree_modules(recognizers_date_time)
    from recognizers_date_time.date_time.base_date import BaseDateParser
    calcorr.fingerprints(ctx, {'DateUtils.generate_dates': DateUtils.generate_dates,
                               'DateUtils.safe_create_from_value': DateUtils.safe_create_from_value,
                               'DateUtils.is_valid_date': DateUtils.is_valid_date, 'DateUtils.is_leap_year': DateUtils.is_leap_year,
                               'DateUtils.this': DateUtils.this, 'DateUtils.next': DateUtils.next,
                               'BaseDateParser.parse_implicit_date': BaseDateParser.parse_implicit_date,
                               'BaseDateParser.parse_number_with_month': BaseDateParser.parse_number_with_month}, FINGERPRINTS)
    calcorr.calendar_unit(ctx, 'c09')
    bdays = calcorr.boundary_days()
    r = ctx.rng('unit')
    gen_days = bdays if ctx.thorough else r.sample(bdays, 260)
    if ctx.thorough:
        gen_days = gen_days + calcorr.all_days(1996, 2024)[::7] + calcorr.all_days(2087, 2090)[::2]
    unit_generate_dates(ctx, DateUtils, gen_days)
    unit_bare_weekday(ctx, calcorr.all_days())
    unit_number_with_month(ctx, bdays + calcorr.all_days(2019, 2021))
    dateparsercorr.run(ctx)
    pipeline(ctx)
