"""C13 — IP addresses, GUIDs and other sequence entities: sound and complete recognition.

Ties (all run on every check):
  * regex correspondence  — Lean matcher on the regenerated RE vs the `regex` module (validates translator + matcher);
  * unit correspondence   — RTV.Seq (Lean driver) vs BaseIpParser.drop_leading_zeros, BaseIpExtractor.extract (whole and
                            sweep-only on the implementation's own match spans), BaseGUIDExtractor.extract,
                            GUIDParser.score_guid;
  * pipeline oracles      — recognize_ip_address / recognize_guid against Python's `ipaddress` / `uuid` modules
                            (independent of model and regexes): completeness + exact span for delimited valid tokens;
                            soundness in the property's LITERAL sense on everything reported, near misses included: a
                            reported IP entity is a valid address and its resolved value denotes the same address;
  * own-token observations — a VALID reported address that is glued to an ASCII letter / digit or is a truncation of a
                            longer valid address (`ip_entity_problems`), and a reported GUID that is not strictly shaped
                            (`guid_entity_problems`), are NOT property failures (the soundness clause speaks of validity
                            only).  Each such query is replayed on the Lean model (`spec.ip` / `guid.extract`): where
                            the model reports something else it is a correspondence break (`ip-extract-differs`,
                            `guid-extract-differs`), where the model agrees it is counted as evidence
                            (`own_token_observations`); `search` turns them into localising witnesses when a proof
                            obligation broke;
  * correspondence only   — grammar-generated e-mail / URL / hashtag / mention / phone strings through recognize_*: one
                            entity, value == text == generated string (their regexes are outside the translator).
"""
import ipaddress
import itertools
import uuid

from lib import common, recorr, urlgrammar
from lib.common import cps

PROP = 'C13'
LEVEL = 'proof'
PROPS_MODULES = ['RTV.Props.C13', 'RTV.Props.C13Extract', 'RTV.Lemmas.ReNullable']
GEN = ['chartables', 'regexes', 'tlds', 'preprocess', 'emojitable', 'urlgrammar', 'pytables']
REQUIRED_THEOREMS = ['octet_lang', 'ipv4_lang', 'ipv4_sound', 'prefix_ipv4_unsound_unicode_digits',
                     'ipv4_rejects_unicode_digit_witness', 'ipv4_complete_unique', 'ipv4_reported_span',
                     'drop_zeros_same_address', 'drop_zeros_canonical', 'drop_zeros_groupwise', 'ip_extract_sound',
                     'ip_extract_v4_valid', 'guid_lang', 'guid_sound', 'guid_complete_unique_plain',
                     'guid_complete_unique_braced', 'guid_extract_sound', 'hextet_lang', 'ipv6_lang',
                     'ipv6_sound', 'ipv6_complete', 'drop_zeros_group_value', 'hashtag_lang',
                     'hashtag_reported_span', 'mention_lang', 'mention_unique', 'mention_reported_span',
                     'real_tagchars_are_word', 'email_lang', 'url_reported_valid', 'url_grammar_recognised',
                     'url_family_size', 'phone_post_span', 'phone_kept_prefix', 'phone_extract_spec', 'ends_inside_text',
                     'guid_reported_span', 'guid_reported_span_braced',
                     # Props/C13Extract.lean: what BaseIpExtractor.extract reports (audit item 19)
                     'ipExtract_reports', 'ipv4_extract_complete', 'ipv4_token_reported', 'ipv6_reported_span',
                     'ipv6_extract_complete', 'ip_extract_reports_valid', 'ipv4_dotted_run_reports_prefix',
                     'longer_dotted_run_invalid', 'dotted_run_witness', 'real_tablesOk', 'real_noSpace', 'real_seps',
                     'zh_latin_k_observation', 'zh_latin_j_blocks', 'zh_ellipsis_end_after_cjk_observation',
                     # Lemmas/ReNullable.lean (audit item 34): the model's findAll is the libraries' finditer on every translated pattern
                     'translated_findAll_is_finditer', 'findAll_eq_findAllPy', 'ends_progress']
RULE = ('regex correspondence: per translated pattern, strings sampled from the pattern, mutated, embedded in contexts '
        'built from the pattern\'s own class boundaries; unit: drop_leading_zeros / extractors / score_guid on IP- and '
        'GUID-shaped strings with ellipsis boundary contexts; pipeline: boundary octets {0,9,10,99,100,199,200,249,250,255}^4 '
        'exhaustively, seeded IPv4 (leading-zero variants), seeded IPv6 exploded and compressed at every position, near '
        'misses (octet 256-999, 5 groups, 9 hextets, ":::", every split a::b with a + b in {8, 9}, 5-digit hextets at each position), every valid split a::b alone and in a carrier, GUIDs x 4 layouts, alone and in carrier sentences; '
        'non-trivial = distinct query with at least one entity')
ASSUMPTIONS = ['`regex` module tables for \\d \\w \\s exported by brute force from the running module (RTV/Gen/Regexes.lean)',
               '`finditer` is modelled as leftmost start / first end in backtracking priority order (validated by the regex correspondence)',
               'QueryProcessor.preprocess (lower-casing, full-width folding) is not modelled; pipeline carriers avoid code points whose lower-casing changes length',
               'URL: extractor modelled (captures, TLD check through the C16 matcher model, ambiguous time term); soundness theorem universal, completeness for the explicit grammar by kernel evaluation of a covering family (130 of 1080 strings; all 1080 through the implementation); phone: extractor modelled end to end (ten patterns, sweep, post-processing), span / filter theorems for any regex outcome, no completeness theorem (score_phone_number and the model-level score are not modelled); e-mail / hashtag / mention: language theorems for the regexes, extractor glue by correspondence']

BOUNDARY = [0, 9, 10, 99, 100, 199, 200, 249, 250, 255]
CARRIERS = ['{}', 'ip {} here', '({})', '{}, next', 'at {}.', 'x={};', '"{}"', ' {} ', 'see\t{}\nok']
V6_CARRIERS = ['{}', 'ip {} here', '({})', '{}, next', 'at {} .', '"{}"', ' {} ', 'see\t{}\nok']
CULTURE = 'en-us'


# ------------------------------------------------------------------ independent oracles

def v4_value(text):
    """text -> ipaddress.IPv4Address or None (independent validity: 4 groups of 1-3 ASCII digits, each <= 255)"""
    parts = text.split('.')
    if len(parts) != 4:
        return None
    vals = []
    for p in parts:
        if not (1 <= len(p) <= 3) or any(c not in '0123456789' for c in p) or int(p) > 255:
            return None
        vals.append(int(p))
    return ipaddress.IPv4Address(bytes(vals))


def v6_value(text):
    if any(c not in '0123456789abcdefABCDEF:' for c in text):
        return None
    try:
        return ipaddress.IPv6Address(text)
    except ValueError:
        return None


def ip_value(text):
    return v4_value(text) if '.' in text else v6_value(text)


ASCII_ALNUM = set('0123456789abcdefghijklmnopqrstuvwxyzABCDEFGHIJKLMNOPQRSTUVWXYZ')
V4_CHARS = set('0123456789.')
V6_CHARS = set('0123456789abcdefABCDEF:')


def ip_unglued(q, a, b):
    return not ((a > 0 and q[a - 1] in ASCII_ALNUM) or (b < len(q) and q[b] in ASCII_ALNUM))


def ip_entity_problems(q, a, b):
    """Own-token diagnosis of ONE reported entity with span q[a:b] (audit item 19).  Coordinator ruling: under the
    property's LITERAL soundness clause ("anything reported as an IP address is a valid address") only the first item
    (`unsound`) is a property failure; the others describe a VALID address that does not stand as its own token — they are
    observations, followed up against the Lean model (see `own_token_followup`), never `kind='property'`.
    A *candidate* is a span that is

      valid     a valid address for the stdlib `ipaddress` module (dotted quad of 1-3 digit octets <= 255, or an RFC 4291
                hex form, exploded or compressed), and
      unglued   neither neighbour is an ASCII letter or digit: otherwise the text is a fragment of a longer alphanumeric
                run (`234.1.2.3` out of `1234.1.2.3`, `::1` out of `x::1`), not an address "standing as its own token".
                Non-ASCII letters are not counted (the Chinese configuration treats CJK neighbours as delimiters on
                purpose) and `_` is not counted.

    Diagnosed: an entity that is no candidate, or is a truncation of the address that stands there:

      right-maximal   no candidate [a, y) with y > b (`1::2` out of `1::2:3`, `1.2.3.4` out of `1.2.3.45`);
      whole-token     if the maximal run of address characters around [a, b) (digits and `.`, or hex digits and `:`) is
                      itself a candidate, the entity is that run (`2::3` out of `1:2::3` is a truncation).

    A longer dotted / colon run that is NOT a valid address as a whole (`0.1.2.3.4`, `1::2:3:4:5:6:7:8`) is outside the
    completeness clause (it is not a valid address token), and the soundness clause does not forbid reporting a
    right-maximal candidate inside it that is delimited by `.` / `:` — `0.1.2.3` out of `0.1.2.3.4` IS a valid address
    (Lean: `ipv4_dotted_run_reports_prefix`).  Such reports are not even diagnosed.
    -> list of (suffix, explanation); suffix 'unsound' = not a valid address"""
    out = []
    txt = q[a:b]
    if ip_value(txt) is None:
        return [('unsound', 'is not a valid IP address')]
    if not ip_unglued(q, a, b):
        out.append(('glued', 'is glued to an ASCII letter / digit (%r)' % q[max(a - 1, 0):b + 1]))
    chars = V4_CHARS if '.' in txt else V6_CHARS
    lo = a
    while lo > 0 and q[lo - 1] in chars:
        lo -= 1
    hi = b
    while hi < len(q) and q[hi] in chars:
        hi += 1
    longer = [y for y in range(b + 1, hi + 1) if ip_value(q[a:y]) is not None and ip_unglued(q, a, y)]
    if longer:
        out.append(('not-maximal', 'is a truncation of the valid address %r at [%d,%d)' % (q[a:longer[-1]], a, longer[-1])))
    elif (lo, hi) != (a, b) and ip_value(q[lo:hi]) is not None and ip_unglued(q, lo, hi):
        out.append(('not-maximal', 'is a truncation of the valid address token %r at [%d,%d)' % (q[lo:hi], lo, hi)))
    return out


def glued_kind(q, a, b):
    """sub-kind of a glued observation: which mechanism of the code let it through ('' = none of the recorded ones)"""
    before = q[a - 1] if a > 0 else ''
    after = q[b] if b < len(q) else ''
    if q[a:b].endswith('::') and after in ASCII_ALNUM and not after.isdigit() and '\u0800' <= before <= '\u9fff':
        # BaseIpExtractor.extract: the guard for a match ending in `::` asks is_cjk(source[start - 1]) instead of
        # is_cjk(source[i + 1]); reachable where a match may start right after a CJK character (Chinese configuration)
        return ':ellipsis-end-after-cjk'
    if (before in 'Kk' or after in 'Kk') and all(c not in ASCII_ALNUM for c in (before.strip('Kk') + after.strip('Kk'))):
        # ChinesePhoneNumbers.*WordBoundariesRegex: `[\u0800-\u9FFF]` is compiled with IGNORECASE and contains U+212A
        # KELVIN SIGN, whose case folding is `k`
        return ':latin-k'
    return ''


# -- GUIDs: what a reported entity must be.  The property names four layouts (plain, braced, upper-case, undashed); the
# resource (`BaseGUID.GUIDRegex`) documents three more wrappers (`urn:uuid:`, URL-encoded braces `%7b…%7d`, `x'…'`).
# `uuid.UUID()` alone is NOT an oracle for the shape: it strips braces / `urn:uuid:` itself and ignores where (and
# whether) the dashes stand (`0123456789ab-cdef-…`, `{0123…` both parse), so the shape is checked here, independently
# of the code's regex, and `uuid.UUID` only compares the 128-bit values.
import re as _stdre
_CORE = r'(?:[0-9a-f]{8}-[0-9a-f]{4}-[0-9a-f]{4}-[0-9a-f]{4}-[0-9a-f]{12}|[0-9a-f]{32})'
GUID_SHAPES = [('plain', _stdre.compile('(' + _CORE + ')')), ('braced', _stdre.compile(r'\{(' + _CORE + r')\}')),
               ('urn', _stdre.compile('urn:uuid:(' + _CORE + ')')), ('urlbraced', _stdre.compile('%7b(' + _CORE + ')%7d')),
               ('xquoted', _stdre.compile("x'(" + _CORE + ")'"))]


def guid_shape(text):
    """-> (layout, core) when `text` (lower case) is EXACTLY one GUID in one of the layouts, else None"""
    for name, rx in GUID_SHAPES:
        m = rx.fullmatch(text)
        if m:
            return name, m.group(1)
    return None


def guid_entity_problems(q, x):
    """Diagnosis of ONE entity of recognize_guid(q) (the property has no soundness clause for GUIDs, so none of this is a
    property failure; followed up against the model's GUID extractor, see `own_token_followup`): exact span (text == value == the lower-cased query slice), the text is
    exactly one well-formed GUID (strict dash positions, balanced wrapper), and a GUID reported without a wrapper is not
    a fragment of a longer ASCII alphanumeric run (`…cdef0` / `x0123…`).  -> list of (signature, explanation)"""
    out = []
    txt = x.text
    val = x.resolution.get('value')
    if q[x.start:x.end + 1].lower() != txt or val != txt:
        out.append(('guid-span-text', 'text %r / value %r are not the (lower-cased) query slice [%d,%d] %r' % (
            txt, val, x.start, x.end, q[x.start:x.end + 1])))
    sh = guid_shape(txt)
    if sh is None:
        out.append(('guid-unsound', 'text %r is not a well-formed GUID in any layout' % txt))
        return out
    a, b = x.start, x.end + 1
    if sh[0] in ('plain', 'urn') and b < len(q) and q[b] in ASCII_ALNUM:
        out.append(('guid-glued', '%r is followed by %r' % (txt, q[b])))
    if sh[0] == 'plain' and a > 0 and q[a - 1] in ASCII_ALNUM:
        out.append(('guid-glued', '%r is preceded by %r' % (txt, q[a - 1])))
    return out


OBSERVED = {'ip': [], 'guid': []}     # own-token observations of this run: filled by the pipelines, consumed by own_token_followup


def fmt_model_results(rs):
    return ';'.join('%d:%d:%s:%s' % (r.start, r.end, cps(r.text), cps(str(r.resolution.get('value')))) for r in rs)


def fmt_ers(ers):
    return ';'.join('%d:%d:%s:%s' % (e.start, e.length, cps(e.text), e.data) for e in ers)


# ------------------------------------------------------------------ generators

def v4_text(vals, r=None, zeros=False):
    out = []
    for v in vals:
        t = str(v)
        if zeros and r is not None and len(t) < 3 and r.random() < 0.5:
            t = '0' * r.randint(1, 3 - len(t)) + t
        out.append(t)
    return '.'.join(out)


def v6_forms(groups, r):
    """all text forms of one address: exploded (random zero padding / case) and `::` at every run of zero groups"""
    def g(v):
        t = '%x' % v
        if r.random() < 0.3:
            t = t.rjust(r.randint(len(t), 4), '0')
        return t.upper() if r.random() < 0.3 else t
    forms = [':'.join(g(v) for v in groups)]
    for a in range(8):
        for b in range(a + 1, 9):
            if all(v == 0 for v in groups[a:b]):
                forms.append(':'.join(g(v) for v in groups[:a]) + '::' + ':'.join(g(v) for v in groups[b:]))
    return forms


HEX_POOL = ['0', '1', 'a', 'f', '1a', 'ff', 'db8', '370', '2001', '8a2e', 'FFFF', '0001', 'AbC']


def v6_split(a, b, r):
    """`h1:…:ha::h1:…:hb` (a, b >= 0; leading / trailing `::` when a or b is 0)"""
    return ':'.join(r.choice(HEX_POOL) for _ in range(a)) + '::' + ':'.join(r.choice(HEX_POOL) for _ in range(b))


def v6_systematic(r, reps=1):
    """-> [(text, family)]: every valid split a + b <= 7 and the full form ('valid'); every split with a + b in {8, 9},
    a 5-digit hextet at each position of an exploded / compressed address, 9 and 10 plain groups ('near')."""
    out = []
    for _ in range(reps):
        for a in range(8):
            for b in range(8 - a):
                out.append((v6_split(a, b, r), 'valid'))
        out.append((':'.join(r.choice(HEX_POOL) for _ in range(8)), 'valid'))
        for tot in (8, 9):
            for a in range(tot + 1):
                out.append((v6_split(a, tot - a, r), 'near'))
        for pos in range(8):
            g = [r.choice(HEX_POOL) for _ in range(8)]
            g[pos] = r.choice(['12345', 'fffff', '00001', 'abcde'])
            out.append((':'.join(g), 'near'))
        for a, b in ((1, 1), (2, 3), (0, 4), (5, 0), (3, 4), (1, 6)):
            for pos in range(a + b):
                t = v6_split(a, b, r).split(':')
                idx = [k for k, x in enumerate(t) if x][pos]
                t[idx] = r.choice(['12345', 'fffff', 'abcde'])
                out.append((':'.join(t), 'near'))
        for n in (9, 10):
            out.append((':'.join(r.choice(HEX_POOL) for _ in range(n)), 'near'))
    return out


def gen_v6_groups(r):
    groups = [r.choice([0, 1, 0xf, 0x10, 0xff, 0x100, 0xfff, 0x1000, 0xffff, r.randrange(0x10000)]) for _ in range(8)]
    if r.random() < 0.8:
        a = r.randrange(8)
        b = r.randint(a + 1, 8)
        for k in range(a, b):
            groups[k] = 0
    return groups


def guid_layouts(u):
    return {'plain': str(u), 'braced': '{' + str(u) + '}', 'upper': str(u).upper(), 'undashed': u.hex}


# ------------------------------------------------------------------ the check

class Impl:
    def __init__(self):
        common.setup_repo_imports()
        import recognizers_sequence
        import recognizers_text
        from recognizers_sequence.sequence import sequence_recognizer as sr
        from recognizers_sequence.sequence.extractors import BaseIpExtractor
        from recognizers_sequence.sequence.parsers import BaseIpParser
        from recognizers_sequence.sequence.english.extractors import EnglishIpExtractorConfiguration, EnglishGUIDExtractor
        from recognizers_sequence.sequence.english.parsers import GUIDParser
        common.assert_tree_modules(recognizers_sequence, recognizers_text, sr)
        self.sr = sr
        self.ip_extractor = BaseIpExtractor(EnglishIpExtractorConfiguration(None))
        self.guid_extractor = EnglishGUIDExtractor()
        self.guid_parser = GUIDParser()
        self.drop = BaseIpParser.drop_leading_zeros
        from recognizers_text import QueryProcessor
        self.preprocess = QueryProcessor.preprocess

    def ip(self, q):
        return self.sr.recognize_ip_address(q, CULTURE)

    def guid(self, q):
        return self.sr.recognize_guid(q, CULTURE)


def check_ip_results(ctx, q, rs, expect=None, family='', culture=CULTURE):
    """Soundness on everything reported; completeness + exact span when `expect` = (start, end_exclusive, address)."""
    for r in rs:
        txt = r.text
        val = r.resolution.get('value')
        addr = ip_value(txt)
        pre = '' if culture == CULTURE else 'zh-'
        fi = {'op': 'recognize_ip_address', 'query': q, 'culture': culture, 'reported': fmt_model_results(rs)}
        if q[r.start:r.end + 1] != txt:
            ctx.report('property', pre + 'ip-span-text', 'recognize_ip_address(%r): text %r is not the query slice [%d,%d]' % (
                q, txt, r.start, r.end), failing_input=fi, property_fails=True)
        if addr is None:
            nonascii = any(ord(c) > 127 and c.isdigit() for c in txt)
            sig = ('ipv4-unicode-digit' if '.' in txt else 'ipv6-unicode-digit') if nonascii else 'ip-unsound'
            ctx.report('property', pre + sig, 'recognize_ip_address(%r, %r) reports %r, which is not a valid IP address' % (q, culture, txt),
                       failing_input=fi, property_fails=True)
            continue
        if q[r.start:r.end + 1] == txt:
            # a VALID address that does not stand as its own token: observation, not a property failure
            for suffix, why in ip_entity_problems(q, r.start, r.end + 1):
                if suffix == 'glued':
                    suffix += glued_kind(q, r.start, r.end + 1)
                OBSERVED['ip'].append((q, culture, suffix, 'reports %r at [%d,%d], which %s' % (txt, r.start, r.end, why)))
        try:
            vaddr = ipaddress.ip_address(val)
        except ValueError:
            vaddr = None
        if vaddr != addr:
            ctx.report('property', pre + 'ip-value', 'recognize_ip_address(%r): text %r denotes %s but resolved value %r denotes %s'
                       % (q, txt, addr, val, vaddr), failing_input=fi, property_fails=True)
    if expect is not None:
        a, b, addr = expect
        hit = [r for r in rs if r.start == a and r.end == b - 1]
        if not hit:
            ctx.report('property', ('' if culture == CULTURE else 'zh-') + 'ip-incomplete' + family,
                       'recognize_ip_address(%r): the delimited valid address %r at [%d,%d) is not reported with its exact span '
                       '(reported: %s)' % (q, q[a:b], a, b, [(r.start, r.end, r.text) for r in rs]),
                       failing_input={'op': 'recognize_ip_address', 'query': q, 'culture': culture, 'expected_span': [a, b],
                                      'reported': fmt_model_results(rs)}, property_fails=True)


def unit_drop(ctx, impl, texts):
    lines = ['ip.drop\t' + cps(t) for t in texts]
    model = common.driver(lines)
    ctx.count('unit-drop_leading_zeros', len(lines))
    for t, m in zip(texts, model):
        a = cps(impl.drop(t))
        if a != m:
            ctx.report('correspondence', 'drop-leading-zeros', 'drop_leading_zeros(%r): implementation %r, model %r' % (
                t, impl.drop(t), common.uncps(m)), failing_input={'op': 'ip.drop', 'text': t, 'implementation': a, 'model': m})


def unit_extract(ctx, impl, queries):
    lines, want, meta = [], [], []
    import regex
    for q in queries:
        try:
            ers = impl.ip_extractor.extract(q)
            out = fmt_ers(ers)
        except IndexError:
            out = 'err:IndexError'
        lines.append('ip.extract\t' + cps(q))
        want.append(out)
        meta.append(('extract', q))
        # the sweep alone, on the implementation's own finditer spans (localises regex vs sweep disagreements)
        spans = []
        for rv in impl.ip_extractor.regexes:
            spans += ['%d:%d:%s' % (m.start(), m.end(), rv.val) for m in regex.finditer(rv.re, q)]
        lines.append('\t'.join(['ip.sweep', 'ip', cps(q), str(len(spans))] + spans))
        want.append(out)
        meta.append(('sweep', q))
    model = common.driver(lines)
    ctx.count('unit-ip-extract', len(lines))
    for (kind, q), a, b in zip(meta, want, model):
        if a and not a.startswith('err'):
            ctx.nontriv(('ipx', q))
        if a != b:
            ctx.report('correspondence', 'ip-' + kind, 'BaseIpExtractor.extract(%r) [%s]: implementation %s, model %s' % (
                q, kind, a, b), failing_input={'op': 'ip.' + kind, 'query': q, 'implementation': a, 'model': b})


def unit_guid(ctx, impl, queries, texts):
    lines, want, meta = [], [], []
    for q in queries:
        lines.append('guid.extract\t' + cps(q))
        want.append(fmt_ers(impl.guid_extractor.extract(q)))
        meta.append(('guid-extract', q))
    for t in texts:
        lines.append('guid.score\t' + cps(t))
        v = impl.guid_parser.score_guid(t)
        want.append(v)
        meta.append(('guid-score', t))
    model = common.driver(lines)
    ctx.count('unit-guid', len(lines))
    for (kind, q), a, b in zip(meta, want, model):
        if kind == 'guid-score':
            ok = b.lstrip('-').isdigit() and int(b) / 100 == a
        else:
            ok = a == b
            if a:
                ctx.nontriv(('gx', q))
        if not ok:
            ctx.report('correspondence', kind, '%s(%r): implementation %s, model %s' % (kind, q, a, b),
                       failing_input={'op': kind, 'input': q, 'implementation': a, 'model': b})


def pipeline_ip(ctx, impl):
    r = ctx.rng('pipeline-ip')
    n = 0
    # 1. boundary octets exhaustively, alone and (cycling) in carriers
    for k, quad in enumerate(itertools.product(BOUNDARY, repeat=4)):
        t = v4_text(quad)
        addr = ipaddress.IPv4Address(bytes(quad))
        for car in ('{}', CARRIERS[1 + k % (len(CARRIERS) - 1)]):
            q = car.format(t)
            a = q.index(t)
            rs = impl.ip(q)
            check_ip_results(ctx, q, rs, (a, a + len(t), addr), '-v4')
            n += 1
            if rs:
                ctx.nontriv(('ip', q))
    ctx.count('pipeline-v4-boundary-quads', n)
    # 2. seeded IPv4, with leading-zero variants
    m = 20000 if ctx.thorough else 4000
    for k in range(m):
        quad = [r.choice(BOUNDARY + [1, 25, 26, 254, 256 // 2]) if r.random() < 0.3 else r.randrange(256) for _ in range(4)]
        t = v4_text(quad, r, zeros=(k % 3 == 0))
        q = CARRIERS[k % len(CARRIERS)].format(t)
        a = q.index(t)
        rs = impl.ip(q)
        check_ip_results(ctx, q, rs, (a, a + len(t), ipaddress.IPv4Address(bytes(quad))), '-v4')
        if rs:
            ctx.nontriv(('ip', q))
    ctx.count('pipeline-v4-seeded', m)
    # 3. seeded IPv6: exploded and compressed at every position
    m6 = 20000 if ctx.thorough else 4000
    n = 0
    k = 0
    while n < m6:
        groups = gen_v6_groups(r)
        addr = ipaddress.IPv6Address(b''.join(v.to_bytes(2, 'big') for v in groups))
        for t in v6_forms(groups, r):
            k += 1
            q = V6_CARRIERS[k % len(V6_CARRIERS)].format(t)
            a = q.index(t)
            rs = impl.ip(q)
            check_ip_results(ctx, q, rs, (a, a + len(t), addr), '-v6')
            n += 1
            if rs:
                ctx.nontriv(('ip', q))
    ctx.count('pipeline-v6-forms', n)
    # 3b. systematic IPv6 family: every split a::b (a + b <= 7 must be recognised with its exact span; a + b in {8, 9},
    # 5-digit hextets, 9 / 10 groups are rejected by `ipaddress`, so they may never be reported as a whole)
    fam = v6_systematic(r, reps=6 if ctx.thorough else 2)
    for k, (t, kind) in enumerate(fam):
        for car in ('{}', V6_CARRIERS[1 + k % (len(V6_CARRIERS) - 1)]):
            q = car.format(t)
            a = q.index(t)
            rs = impl.ip(q)
            if kind == 'valid':
                check_ip_results(ctx, q, rs, (a, a + len(t), v6_value(t)), '-v6')
            else:
                check_ip_results(ctx, q, rs)
            if rs:
                ctx.nontriv(('ip', q))
    ctx.count('pipeline-v6-systematic-splits', 2 * len(fam))
    # 4. near misses and noise: only soundness is demanded
    near = []
    for pos in range(4):
        for v in [256, 257, 259, 260, 299, 300, 999, 1000] + [r.randrange(256, 1000) for _ in range(40 if ctx.thorough else 8)]:
            quad = [str(r.choice(BOUNDARY)) for _ in range(4)]
            quad[pos] = str(v)
            near.append('.'.join(quad))
    for _ in range(2000 if ctx.thorough else 300):
        near.append('.'.join(str(r.choice(BOUNDARY + [256, 300])) for _ in range(r.choice([3, 5, 6]))))
        near.append(':'.join('%x' % r.randrange(0x10000) for _ in range(r.choice([7, 9, 10]))))
        g = ['%x' % r.randrange(0x10000) for _ in range(r.randint(1, 7))]
        p = r.randrange(len(g) + 1)
        near.append(':'.join(g[:p]) + ':::' + ':'.join(g[p:]))
        near.append(':'.join(g[:p]) + '::' + ':'.join(g[p:]) + '::' + '1')
        near.append(':'.join(r.choice(['12345', 'g', '1g', 'fffff', '0']) for _ in range(8)))
        near.append(''.join(r.choice('0123456789abcdefg.:: x') for _ in range(r.randint(1, 30))))
    # longer dotted / colon runs of VALID groups (the whole run is not an address; a maximal valid address inside it that
    # is delimited by `.` / `:` may be reported, the whole run / a truncation / a glued fragment may not), and groups
    # glued to further digits / letters
    for n in (5, 6, 7, 8, 9):
        for _ in range(12 if ctx.thorough else 4):
            near.append('.'.join(str(r.choice(BOUNDARY + [1, 25])) for _ in range(n)))
    for n in (9, 10, 12):
        near.append(':'.join(r.choice(HEX_POOL) for _ in range(n)))
    for a in range(8):
        near.append(v6_split(a, 8 - a, r))
        near.append('see ' + v6_split(a, 8 - a, r) + ' ok')
    for _ in range(60 if ctx.thorough else 20):
        quad = [str(r.choice(BOUNDARY + [1, 25])) for _ in range(4)]
        t = '.'.join(quad)
        g = r.choice(['1', '12', '0', 'a', 'Z', 'x9'])
        near += [g + t, t + g, t + '.' + g + t, 'v' + t + ' ' + t + 'b', t + '-' + t, t + '/' + g, t + ':' + g + '::', '::' + t]
        h = v6_split(r.randint(0, 3), r.randint(0, 3), r)
        near += [g + h, h + g, 'x' + h, h + 'x', h + '.' + g, g + '.' + h, h + ' ' + h]
    near += ['0.1.2.3.4', '9.0.1.2.3.4', 'at 0.1.2.3.4.', '1.2.3.45', '11.2.3.4', '1234.1.2.3', '1.2.3.1234', '1.2.3.4.5.6.7.8',
             '1::2:3:4:5:6:7:8', '::1:2:3:4:5:6:7:8', '1:2:3:4:5:6:7:8::', '12345::1', '1::12345', '_::1', '::1_', '1.2.3.4_',
             '²::1', '::1²', '1::²', '1.2.3.4:5::', '::1.2.3.4', '1.2.3.4::1', '1.2.3.4::', '1::2:3', 'a 1::2:3 b',
             '。1:2:3:4:5:6:7::x', '1:::2', '1::2::3']
    near += ['1.2.3.٤', '١.٢.٣.٤', '1.2.3.４', 'x::1', '1::x', 'x::', '::x', '中::1', '1::中', '9::', '::9', 'a::b', '::', ' :: ',
             'a::', ':::', '1.2.3', '1.2.3.4.5', '01.02.03.004', '1.2.3.4/24', 'v1.2.3.4', '1.2.3.4a', '::٤', '٤::1',
             'fe80::1%eth0', '1:2:3:4:5:6:7:8:9', '::ffff:1.2.3.4']
    for q in near:
        check_ip_results(ctx, q, impl.ip(q))
    ctx.count('pipeline-ip-near-miss', len(near))
    return near



ZH_CARRIERS = ['{}', '我电脑IP是{}', '地址 {} 。', '({})', 'IP是{}，好', ' {} ']
ZH_V6_CARRIERS = ['{}', '我电脑IP是{} ', '地址 {} 。', '({})']
ZH_PROBES = ['1.2.3.٤', '我电脑IP是1.2.3.٤', '1.2.3.４', '١.٢.٣.٤', '::٤', '我::1', '1::我', '256.1.1.1', '我电脑IP是1.1.1.256',
             '我电脑IP是1.2.3.4.5', '错误的IPV6地址JKLN:ssej::1', 'K1.2.3.4', '1.2.3.4K', 'k1.2.3.4', 'j1.2.3.4', '1.2.3.4j',
             # a match ending in `::` glued to a following letter: rejected after a blank, let through after a CJK character
             # (observation zh_ip_glued_ellipsis_after_cjk, no property failure), rejected when a digit follows
             '是1:2:3:4:5:6:7::x', ' 1:2:3:4:5:6:7::x', '是1:2:3:4:5:6:7::9', '是1::x', '是::1', '1::是', '是1.2.3.4.5', '0.1.2.3.4']


def pipeline_ip_zh(ctx, impl):
    """the Chinese configuration (cultures zh-*, ja-*): its own IPv4 pattern and boundary rules (CJK neighbours count
    as delimiters for IPv4)"""
    r = ctx.rng('pipeline-ip-zh')
    n = 0
    for culture in ('zh-cn', 'ja-jp'):
        rec = lambda q, c=culture: impl.sr.recognize_ip_address(q, c)
        quads = [tuple(r.choice(BOUNDARY) for _ in range(4)) for _ in range(1500 if ctx.thorough else 300)]
        for k, quad in enumerate(quads):
            t = v4_text(quad, r, zeros=(k % 4 == 0))
            q = ZH_CARRIERS[k % len(ZH_CARRIERS)].format(t)
            a = q.index(t)
            rs = rec(q)
            check_ip_results(ctx, q, rs, (a, a + len(t), ipaddress.IPv4Address(bytes(quad))), '-v4', culture)
            n += 1
            if rs:
                ctx.nontriv(('ipzh', culture, q))
        for k, (t, kind) in enumerate(v6_systematic(r, reps=1)):
            q = ZH_V6_CARRIERS[k % len(ZH_V6_CARRIERS)].format(t)
            a = q.index(t)
            rs = rec(q)
            check_ip_results(ctx, q, rs, (a, a + len(t), v6_value(t)) if kind == 'valid' else None, '-v6', culture)
            n += 1
        for q in ZH_PROBES:
            check_ip_results(ctx, q, rec(q), None, '', culture)
            n += 1
    ctx.count('pipeline-ip-zh', n)


def pipeline_guid(ctx, impl):
    r = ctx.rng('pipeline-guid')
    m = 10000 if ctx.thorough else 1500
    carriers = ['{}', 'id {} ok', '({})', '{}, next', 'guid={};', '"{}"', ' {} ', 'see\t{}\nok']
    n = 0
    texts = []
    for k in range(m):
        bits = r.getrandbits(128)
        if k % 7 == 0:
            bits = int(''.join(r.choice('0123456789') for _ in range(32)), 16)      # digits only
        if k % 11 == 0:
            bits = int(''.join(r.choice('09af') for _ in range(32)), 16)             # class boundaries
        u = uuid.UUID(int=bits)
        for layout, t in guid_layouts(u).items():
            q = carriers[(k + n) % len(carriers)].format(t)
            a = q.index(t)
            rs = impl.guid(q)
            n += 1
            fi = {'op': 'recognize_guid', 'query': q, 'culture': CULTURE, 'layout': layout, 'reported': fmt_model_results(rs)}
            hit = [x for x in rs if x.start == a and x.end == a + len(t) - 1]
            if len(rs) != 1 or not hit:
                ctx.report('property', 'guid-incomplete-' + layout,
                           'recognize_guid(%r): the %s GUID at [%d,%d) is not the one reported entity (reported %s)' % (
                               q, layout, a, a + len(t), [(x.start, x.end, x.text) for x in rs]),
                           failing_input=fi, property_fails=True)
                continue
            ctx.nontriv(('guid', q))
            x = hit[0]
            for sig, why in guid_entity_problems(q, x):
                OBSERVED['guid'].append((q, sig, why))
            sh = guid_shape(x.text)
            same = sh is not None and uuid.UUID(sh[1]) == u and x.resolution.get('value') == x.text
            if not same:
                ctx.report('property', 'guid-value', 'recognize_guid(%r): text %r / value %r do not denote %s' % (
                    q, x.text, x.resolution.get('value'), u), failing_input=fi, property_fails=True)
            if k < 200:
                texts.append(x.text)
    ctx.count('pipeline-guid', n)
    # near misses: the property states nothing for them (no soundness clause for GUIDs); every reported entity is
    # diagnosed strictly (`guid_entity_problems`: exactly one well-formed GUID with its exact span) and what is diagnosed
    # is followed up against the model's GUID extractor (`own_token_followup`)
    near = []
    for _ in range(1500 if ctx.thorough else 300):
        t = str(uuid.UUID(int=r.getrandbits(128)))
        p = r.randrange(len(t))
        near.append(t[:p] + r.choice('gz-_ ') + t[p + 1:])
        near.append(t[:p] + t[p + 1:])
        near.append(t + r.choice('0af'))
        near.append('{' + t)
        near.append(t.replace('-', '', r.randint(1, 3)))
        k = r.randrange(8)
        h = t.replace('-', '')
        near.append([t + '}', '%7b' + t, t + '%7d', "x'" + t, t + "'", 'urn:uuid:' + t[:-1], 'urn:uuid:' + t + 'f', 'xurn:uuid:' + t][k])
        near.append([h[:7] + '-' + h[7:12] + '-' + h[12:16] + '-' + h[16:20] + '-' + h[20:],      # 7-5-4-4-12
                     h[:8] + '-' + h[8:12] + '-' + h[12:16] + '-' + h[16:], h + h, t + t, t + '-' + t, t.upper()[:18] + ' ' + t[19:],
                     '{' + h[:31] + '}', '{' + t + t + '}'][k])
        near.append(r.choice(['id=', 'x', '0', '_', '#', '/']) + t + r.choice(['', '.', 'x', '0', '_', '/1']))
    for q in near:
        rs = impl.guid(q)
        for x in rs:
            for sig, why in guid_entity_problems(q, x):
                OBSERVED['guid'].append((q, sig, 'reports [%d,%d] %r: %s' % (x.start, x.end, x.text, why)))
    ctx.count('pipeline-guid-near-miss', len(near))
    return texts, near


# ---- e-mail / URL / hashtag / mention / phone: correspondence only

WORDS = ['alice', 'bob', 'info', 'x1', 'team42', 'a', 'support', 'dev_ops', 'j']
DOMS = ['example', 'contoso', 'mail', 'my-site', 'a1', 'sub.example', 'x.y.z']
TLDS = ['com', 'org', 'net', 'edu', 'gov', 'app', 'cloud']
OTHER_CARRIERS = ['{}', 'contact {} today', 'see {} , ok', '( {} )', 'a\t{}\nb']


def gen_others(r, n):
    """-> [(kind, text)] well-formed by construction (lower case: the models lower-case the query)."""
    out = []
    for _ in range(n):
        k = r.randrange(5)
        if k == 0:
            local = r.choice(WORDS) + r.choice(['', '.' + r.choice(WORDS), '_' + r.choice(WORDS), '+tag', '-x'])
            out.append(('email', '%s@%s.%s' % (local, r.choice(DOMS), r.choice(TLDS))))
        elif k == 1:
            host = r.choice(['www.', '', 'api.']) + r.choice(DOMS) + '.' + r.choice(TLDS)
            proto = r.choice(['http://', 'https://', 'ftp://'])
            # '!' inside a path / hashbang route: one URL pattern allows it, another stops at it — the longer match must win
            path = r.choice(['', '/', '/index.html', '/a/b?c=d&e=1', '/x_y-z', ':8080/p', '#frag', '/a!b', '/#!/user', '/p!q/r'])
            out.append(('url', proto + host + path))
        elif k == 2:
            out.append(('hashtag', '#' + r.choice(WORDS) + r.choice(['', '2024', '_x'])))
        elif k == 3:
            out.append(('mention', '@' + r.choice(WORDS) + r.choice(['', '99', '_x'])))
        else:
            a, b, c = r.randint(200, 989), r.randint(200, 998), r.randint(1000, 9998)
            lay = r.choice(['(%d) %d-%d', '%d-%d-%d', '%d %d %d', '+1 %d %d %d', '1-%d-%d-%d', 'intl'])
            if lay == 'intl':
                # international '00' exit-code prefix and an 'x' extension: several phone patterns match a prefix of these
                d7 = r.randint(1000000, 9999998)
                out.append(('phone', r.choice(['00 44 %d %d' % (a % 900 + 100, d7), '0049%d %d' % (a % 900 + 100, d7 * 10 + 8),
                                               '00420 %d %d %d' % (a % 900 + 100, b % 900 + 100, c % 900 + 100),
                                               '0044 20 %d %d' % (c, c + 1), '%d-%d-%d x%d' % (a, b, c, r.randint(100, 9999))])))
            else:
                out.append(('phone', lay % (a, b, c)))
    return out


def pipeline_others(ctx, impl):
    r = ctx.rng('pipeline-others')
    fns = {'email': impl.sr.recognize_email, 'url': impl.sr.recognize_url, 'hashtag': impl.sr.recognize_hashtag,
           'mention': impl.sr.recognize_mention, 'phone': impl.sr.recognize_phone_number}
    cases = gen_others(r, 6000 if ctx.thorough else 1200)
    for k, (kind, t) in enumerate(cases):
        q = OTHER_CARRIERS[k % len(OTHER_CARRIERS)].format(t)
        rs = fns[kind](q, CULTURE)
        ok = len(rs) == 1 and rs[0].text == t and rs[0].resolution.get('value') == t and q[rs[0].start:rs[0].end + 1] == t
        if ok:
            ctx.nontriv((kind, q))
        else:
            ctx.report('property', 'other-' + kind,
                       'recognize_%s(%r): expected exactly one entity with text == value == %r, got %s' % (
                           kind, q, t, [(x.start, x.end, x.text, x.resolution) for x in rs]),
                       failing_input={'op': 'recognize_' + kind, 'query': q, 'culture': CULTURE, 'expected': t,
                                      'reported': [(x.start, x.end, x.text, str(x.resolution)) for x in rs]},
                       property_fails=True)
        ctx.count('pipeline-' + kind)
    # the whole explicit URL grammar (harness/lib/urlgrammar.py; its covering family is kernel-evaluated on the model
    # in url_grammar_recognised): one entity, the URL as a whole, value == text
    prod = urlgrammar.product()
    for k, u in enumerate(prod):
        q = urlgrammar.CARRIERS[k % len(urlgrammar.CARRIERS)].format(u)
        rs = fns['url'](q, CULTURE)
        ok = len(rs) == 1 and rs[0].text == u and rs[0].resolution.get('value') == u and q[rs[0].start:rs[0].end + 1] == u
        if ok:
            ctx.nontriv(('urlg', q))
        else:
            ctx.report('property', 'other-url', 'recognize_url(%r): expected exactly one entity with text == value == %r, got %s'
                       % (q, u, [(x.start, x.end, x.text) for x in rs]),
                       failing_input={'op': 'recognize_url', 'query': q, 'culture': CULTURE, 'expected': u,
                                      'reported': [(x.start, x.end, x.text, str(x.resolution)) for x in rs]}, property_fails=True)
    ctx.count('pipeline-url-grammar', len(prod))
    return [t for kind, t in cases if kind == 'url'] + [u for q, a, u in urlgrammar.family()][::3]


URL_EXTRA = ['7.am', 'at 8.pm sharp', '12.pm', 'www.example.zzz', 'http://example.notatld/x', 'http://10.0.0.1/x', 'http://localhost:8080/a',
             'ftp://256.1.1.1', 'see example.com now', 'a.b', 'x.co', 'mail me at bob@example.com', 'http://a.com,http://b.org',
             '(www.example.com)', 'www.example.com.', 'http://www.example.com/a_b-c?d=e&f=1#g', 'https://sub.domain.example.academy',
             'http://example.com:80', 'http://example.com:123456', 'example.travel/deals', 'http://example.co.uk', 'http://xn--p1ai.com',
             'visit www.a-b.cloud!', 'HTTP://WWW.EXAMPLE.COM', 'http://www.example.com@evil.org', 'www.example.c0m', 'http://.com', '1.am']


def unit_url(ctx, impl, urls):
    """BaseURLExtractor.extract (on the pre-processed query) and recognize_url against the model"""
    from recognizers_sequence.sequence.extractors import BaseURLExtractor
    from recognizers_sequence.sequence.english.extractors import EnglishURLExtractorConfiguration
    ex = BaseURLExtractor(EnglishURLExtractorConfiguration(None))
    r = ctx.rng('unit-url')
    qs = list(URL_EXTRA)
    for k, u in enumerate(urls):
        qs.append(OTHER_CARRIERS[k % len(OTHER_CARRIERS)].format(u))
        if k % 3 == 0:                                    # mutations: drop / replace one character, glue two
            p = r.randrange(len(u))
            qs.append(u[:p] + u[p + 1:])
            qs.append(u[:p] + r.choice('.:/@!? ') + u[p + 1:])
            qs.append(u + r.choice([' ', ',', '']) + r.choice(urls))
    lines, want = [], []
    for q in qs:
        pq = impl.preprocess(q)
        lines.append('url.extract\t' + cps(pq))
        try:
            want.append(fmt_ers(ex.extract(pq)))
        except Exception:
            want.append('err:Other')
        lines.append('spec.url\t' + cps(q))
        want.append(';'.join('%s:%d:%d:%s:%s' % (cps(x.type_name), x.start, x.end, cps(x.text), cps(str(x.resolution['value'])))
                             for x in impl.sr.recognize_url(q, CULTURE)))
    model = common.driver(lines)
    ctx.count('unit-url', len(lines))
    for l, a, b in zip(lines, want, model):
        if a and not a.startswith('err'):
            ctx.nontriv(('urlx', l))
        if a != b:
            op, q = l.split('\t')[0], common.uncps(l.split('\t')[-1])
            ctx.report('correspondence', 'url-' + op.split('.')[1], '%s(%r): implementation %s, model %s' % (op, q, a, b),
                       failing_input={'op': op, 'query': q, 'implementation': a, 'model': b})


PHONE_CORES = ['(206) 555-0123', '206-555-0123', '206 555 0123', '+1 206 555 0123', '1-206-555-0123', '555-0123', '2065550123',
               '+44 20 7946 0958', '020 7946 0958', '030 12345678', '+86 138 0013 8000', '13800138000', '06 1234 5678',
               '123-45-6789', '1234 5678 9012 3456', '+1234 5678 9012 3456', '123 4567 8901 2345', '1234 567 8901 234',
               '00 10 00 31 46 d9 e9 11', '555.0123', '1-800-flowers', '0800 123 456', '+55 11 91234-5678', '(11) 91234-5678']
PHONE_CTX = ['{}', 'call {} now', 'tel:{}', 'tel: {}', 'x:{}', '1:{}', 'fax,{}', '50%{}', '-{}', '.{}', '/{}', '+{}', '#{}', '*{}',
             '00-{}', '011-{}', '9 00-{}', 'a-{}', 'A-{}', '7-{}', ' -{}', '{}/', '{}+', '{}#', '{}*', '{}:', '{}%', '{},', '{}.',
             'account number: {}', 'card # is {}', 'my account {}', 'card{}', '({})', 'id 00 10 00 31 46 d9 e9 11 {}',
             '{} and {}', 'a{}', '{}a', '中{}中']


def unit_phone(ctx, impl, extra):
    """BasePhoneNumberExtractor.extract (English configuration, pre-processed query) against RTV.Seq.phoneExtract"""
    from recognizers_sequence.sequence.extractors import BasePhoneNumberExtractor
    from recognizers_sequence.sequence.english.extractors import EnglishPhoneNumberExtractorConfiguration
    ex = BasePhoneNumberExtractor(EnglishPhoneNumberExtractorConfiguration())
    r = ctx.rng('unit-phone')
    qs = []
    for core in PHONE_CORES + extra:
        for c in PHONE_CTX:
            qs.append(c.replace('{}', core))
    for _ in range(1500 if ctx.thorough else 300):
        core = r.choice(PHONE_CORES + extra)
        p = r.randrange(len(core))
        core = core[:p] + r.choice(['', ' ', '-', '.', '5', '55']) + core[p + r.randint(0, 1):]
        qs.append(r.choice(PHONE_CTX).replace('{}', core))
    lines, want = [], []
    for q in qs:
        pq = impl.preprocess(q)
        lines.append('phone.extract\t' + cps(pq))
        try:
            want.append(fmt_ers(ex.extract(pq)))
        except Exception as e:
            want.append('err:' + type(e).__name__)
    model = common.driver(lines)
    ctx.count('unit-phone-extract', len(lines))
    for l, a, b in zip(lines, want, model):
        q = common.uncps(l.split('\t')[-1])
        if a and not a.startswith('err'):
            ctx.nontriv(('phx', q))
        if a != b:
            ctx.report('correspondence', 'phone-extract', 'BasePhoneNumberExtractor.extract(%r): implementation %s, model %s' % (q, a, b),
                       failing_input={'op': 'phone.extract', 'query': q, 'implementation': a, 'model': b})


def model_ip_triples(answer):
    """`spec.ip` answer -> [(start, end, text code points)]"""
    out = []
    for ent in answer.split(';') if answer else []:
        f = ent.split(':')
        out.append((int(f[1]), int(f[2]), f[3]))
    return out


ZH_COUNTERS = {'glued:latin-k': 'zh_ip_glued_latin_k', 'glued:ellipsis-end-after-cjk': 'zh_ip_glued_ellipsis_after_cjk'}


def own_token_followup(ctx, impl, as_proof_witness=False):
    """Every query with an own-token observation is replayed on the Lean model: `spec.ip` (recognize_ip_address as
    modelled, English / Chinese configuration) and `guid.extract`.  Model != implementation is a correspondence break;
    model == implementation is evidence only: the two recorded quirks of the Chinese configuration get their own counters
    (`zh_ip_glued_latin_k`: `[\u0800-\u9FFF]` under IGNORECASE contains U+212A, whose case folding is `k`;
    `zh_ip_glued_ellipsis_after_cjk`: the `::`-end guard asks is_cjk(source[start - 1]) instead of source[i + 1]; optional
    patches findings/sequence/*.diff — observations, not property violations), everything else is counted under
    `own_token_observations`.  With `as_proof_witness` (called from `search` when a proof obligation broke) an observation
    the model shares is reported as a localising witness of kind 'proof': the language / boundary theorems that exclude it
    no longer check."""
    ips = {}
    for q, culture, suffix, why in OBSERVED['ip']:
        ips.setdefault((q, culture), []).append((suffix, why))
    keys = sorted(ips)
    lines = ['spec.ip\t%s\tscore\t%s' % ('en' if c == CULTURE else 'zh', cps(q)) for q, c in keys]
    model = common.driver(lines) if lines else []
    witness_only = as_proof_witness      # second pass from `search`: correspondences and counters were done by `correspond`
    if not witness_only:
        ctx.count('own-token-followup-ip', len(lines))
    examples, counts, witnessed = {}, {}, {}

    def tally(name, example):
        counts[name] = counts.get(name, 0) + 1
        if not witness_only:
            ctx.count(name)
        ex = examples.setdefault(name, [])
        if len(ex) < 8:
            ex.append(example)
    for (q, culture), m in zip(keys, model):
        pre = '' if culture == CULTURE else 'zh-'
        rs = impl.sr.recognize_ip_address(q, culture)
        got = [(r.start, r.end, cps(r.text)) for r in rs]
        try:
            want = model_ip_triples(m)
        except (ValueError, IndexError):
            want = m
        fi = {'op': 'recognize_ip_address', 'query': q, 'culture': culture, 'implementation': fmt_model_results(rs), 'model': m,
              'observations': [w for _, w in ips[(q, culture)]]}
        if got != want:
            if not witness_only:
                ctx.report('correspondence', pre + 'ip-extract-differs',
                           'recognize_ip_address(%r, %r) %s; the model reports %s' % (q, culture, '; '.join(w for _, w in ips[(q, culture)]), want),
                           failing_input=fi)
            continue
        for suffix, why in ips[(q, culture)]:
            name = ZH_COUNTERS.get(suffix) if pre else None
            if name is None:
                name = 'own_token_observations'
                sig = pre + 'ip-own-token-' + suffix.split(':')[0]
                witnessed[sig] = witnessed.get(sig, 0) + 1
                if as_proof_witness and witnessed[sig] <= 5:
                    ctx.report('proof', sig,
                               'a proof obligation no longer checks and recognize_ip_address(%r, %r) %s (the model, run on the '
                               'regenerated patterns, agrees): the boundary statements of ipv4_lang / ipv6_lang / '
                               'ip*_extract_complete exclude this on the unchanged tree' % (q, culture, why), failing_input=fi)
            tally(name, {'query': q, 'culture': culture, 'observation': why, 'reported': [(a, b, common.uncps(t)) for a, b, t in got]})
    # GUIDs
    gqs = sorted({q for q, _, _ in OBSERVED['guid']})
    lines = ['guid.extract\t' + cps(impl.preprocess(q)) for q in gqs]
    model = common.driver(lines) if lines else []
    if not witness_only:
        ctx.count('own-token-followup-guid', len(lines))
    for q, m in zip(gqs, model):
        got = fmt_ers(impl.guid_extractor.extract(impl.preprocess(q)))
        whys = [w for qq, _, w in OBSERVED['guid'] if qq == q]
        fi = {'op': 'guid.extract', 'query': q, 'implementation': got, 'model': m, 'observations': whys}
        if got != m:
            if not witness_only:
                ctx.report('correspondence', 'guid-extract-differs', 'BaseGUIDExtractor.extract(%r): implementation %s, model %s (%s)' % (
                    q, got, m, '; '.join(whys)), failing_input=fi)
            continue
        witnessed['guid-shape'] = witnessed.get('guid-shape', 0) + 1
        if as_proof_witness and witnessed['guid-shape'] <= 5:
            ctx.report('proof', 'guid-shape', 'a proof obligation no longer checks and recognize_guid(%r) %s (the model, run on the '
                       'regenerated pattern, agrees): guid_lang excludes this on the unchanged tree' % (q, '; '.join(whys)), failing_input=fi)
        tally('own_token_observations', {'query': q, 'observation': whys})
    if not witness_only:
        ctx.extra['own_token_observations'] = {
            'what': 'valid reported addresses that do not stand as their own token / reported GUID texts that are not strictly '
                    'shaped, on which model and implementation AGREE: evidence, not a property failure (the soundness clause of '
                    'C13 speaks of validity only). zh_ip_glued_*: the two recorded quirks of the Chinese configuration, optional '
                    'patches under findings/sequence/',
            'counts': {**{v: 0 for v in ZH_COUNTERS.values()}, 'own_token_observations': 0, **counts},
            'examples': examples}


def correspond(ctx):
    OBSERVED['ip'].clear()
    OBSERVED['guid'].clear()
    impl = Impl()
    # regex correspondence (translator + matcher)
    recorr.run(ctx)
    recorr.run_captures(ctx)
    # pipeline (also yields the strings for the unit level)
    near = pipeline_ip(ctx, impl)
    pipeline_ip_zh(ctx, impl)
    guid_texts, guid_near = pipeline_guid(ctx, impl)
    url_cases = pipeline_others(ctx, impl)
    unit_url(ctx, impl, url_cases)
    unit_phone(ctx, impl, [])
    # unit level
    r = ctx.rng('unit')
    texts = ['', '0', '00', '000.000.000.000', '010.001.100.000', '0:0::00', '::', ':', '.', '1.', '.1', '0.', 'a.b',
             '00a.0b0:000', '1..2', '::1', '1::', '0000:0001::0', 'x', '00x', '1.2.3.4', '001.002.003.004']
    for _ in range(3000 if ctx.thorough else 600):
        texts.append(''.join(r.choice('000123456789abcf..::') for _ in range(r.randint(1, 20))))
    unit_drop(ctx, impl, texts)
    queries = list(near)
    glue = ['', ' ', 'x', '9', '中', 'é', '.', ':', 'G', '-']
    cores = ['::1', '1::', '::', 'fe80::1', '1:2:3:4:5:6:7:8', '1.2.3.4', '::ffff', 'ab::', '1:2:3:4:5:6:7::', '::2:3:4:5:6:7:8',
             '10.0.0.1', '1::2::3']
    for c in cores:
        for a in glue:
            for b in glue:
                queries.append(a + c + b)
    for _ in range(2000 if ctx.thorough else 400):
        parts = [r.choice(cores + glue + ['1.2.3.4.5', '::1::', ' ']) for _ in range(r.randint(1, 5))]
        queries.append(''.join(parts))
    unit_extract(ctx, impl, queries)
    gq = [impl.preprocess(q) for q in guid_near[:400]] + [impl.preprocess(t) for t in guid_texts]
    for t in guid_texts[:60]:
        gq += [t + ' ' + t, 'x' + t, t + 'x', '{' + t + '}', "x'" + t + "'", 'urn:uuid:' + t, '%7b' + t + '%7d', t + '\n']
    unit_guid(ctx, impl, gq, guid_texts + [t for t in gq if len(t) < 80][:400])
    own_token_followup(ctx, impl)
    ctx.sample({'op': 'recognize_ip_address', 'query': 'ip 010.0.0.255 here',
                'implementation': fmt_model_results(impl.ip('ip 010.0.0.255 here'))})
    # the witness of the regression theorem prefix_ipv4_unsound_unicode_digits (defect #8, fixed by /repo d5d414a77)
    # stays in the corpus (`near` above: '1.2.3.٤', '1.2.3.４', '::٤'); a revert is reported as ipv4-/ipv6-unicode-digit
    w = '1.2.3.٤'
    ctx.extra['regression_witness_replay'] = {'query': w, 'reported': fmt_model_results(impl.ip(w))}


def search(ctx, proof_problems):
    """A proof obligation broke (typically `gen_ipv4`: the regenerated Ipv4Regex is no longer the shape the proofs were
    written for).  Evaluate the regenerated regex with the Lean matcher over every 1-3 digit octet string at each of
    the four positions, compare with the specification (value <= 255), and replay every disagreement on the
    implementation."""
    impl = Impl()
    octs = [str(v) for v in range(1000)] + ['%02d' % v for v in range(10)] + ['%03d' % v for v in range(100)]
    cases = []
    for pos in range(4):
        for o in octs:
            quad = ['1', '1', '1', '1']
            quad[pos] = o
            cases.append(('.'.join(quad), int(o) <= 255))
    lines = ['re.find\tipv4Regex\tascii\t' + cps(t) for t, _ in cases]
    model = common.driver(lines)
    ctx.count('search-lean-octets', len(lines))
    found = 0
    for (t, valid), m in zip(cases, model):
        full = m == '0:%d' % len(t)
        if full == valid:
            continue
        rs = impl.ip(t)
        reported = any(x.start == 0 and x.end == len(t) - 1 for x in rs)
        fi = {'op': 'recognize_ip_address', 'query': t, 'culture': CULTURE, 'lean_matcher_spans': m,
              'reported': fmt_model_results(rs), 'valid': valid}
        if reported != valid:
            found += 1
            ctx.report('property', 'ipv4-language-changed',
                       'the regenerated Ipv4Regex %s %r (Lean matcher), and recognize_ip_address(%r) %s it' % (
                           'matches the invalid address' if full else 'does not match the valid address', t, t,
                           'reports' if reported else 'does not report'),
                       failing_input=fi, property_fails=True)
            if found >= 5:
                break
    # IPv6: the regenerated Ipv6Regex (Lean matcher) over every split a::b with a + b <= 9, 5-digit hextets, 9 / 10
    # groups, against `ipaddress`; every disagreement is replayed on the implementation
    r = ctx.rng('search-v6')
    fam = v6_systematic(r, reps=3)
    lines = ['re.find\tipv6Regex\treal\t' + cps(t) for t, _ in fam]
    model = common.driver(lines)
    ctx.count('search-lean-ipv6', len(lines))
    found6 = 0
    for (t, kind), m in zip(fam, model):
        valid = v6_value(t) is not None
        full = m == '0:%d' % len(t)
        if full == valid:
            continue
        rs = impl.ip(t)
        reported = any(x.start == 0 and x.end == len(t) - 1 for x in rs)
        if reported != valid:
            found6 += 1
            ctx.report('property', 'ipv6-language-changed',
                       'the regenerated Ipv6Regex %s %r (Lean matcher), and recognize_ip_address(%r) %s it' % (
                           'matches the invalid address' if full else 'does not match the valid address', t, t,
                           'reports' if reported else 'does not report'),
                       failing_input={'op': 'recognize_ip_address', 'query': t, 'culture': CULTURE, 'lean_matcher_spans': m,
                                      'reported': fmt_model_results(rs), 'valid': valid}, property_fails=True)
            if found6 >= 5:
                break
    # GUID class edits: boundary hex digits at every position, Lean matcher vs specification
    base = '01234567-89ab-cdef-0123-456789abcdef'
    lines, meta = [], []
    for p, ch in enumerate(base):
        if ch == '-':
            continue
        for c in '09afg/:`@AFG':
            t = base[:p] + c + base[p + 1:]
            lines.append('re.find\tguidRegex\tascii\t' + cps(t))
            meta.append((t, c in '09afAF'))
    model = common.driver(lines)
    ctx.count('search-lean-guid', len(lines))
    for (t, valid), m in zip(meta, model):
        full = m == '0:%d' % len(t)
        if full != valid:
            rs = impl.guid(t)
            reported = any(x.start == 0 and x.end == len(t) - 1 for x in rs)
            if reported != valid:
                ctx.report('property', 'guid-language-changed',
                           'the regenerated GUIDRegex %s %r and recognize_guid agrees' % (
                               'matches the non-GUID' if full else 'does not match the GUID', t),
                           failing_input={'op': 'recognize_guid', 'query': t, 'lean_matcher_spans': m,
                                          'reported': fmt_model_results(rs)}, property_fails=True)
                break
    # own-token observations that the model (run on the regenerated, changed patterns) shares with the implementation:
    # localising witnesses for the broken obligation (kind 'proof'; a VALID reported address is no property failure)
    own_token_followup(ctx, impl, as_proof_witness=True)
