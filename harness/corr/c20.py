"""C20 — yes/no answers keep their polarity.

Ties: regex correspondence for the (rewritten) boolean regexes; unit correspondence of RTV.Choice (Lean driver) against
`StringUtility.remove_unicode_matches`, `ChoiceExtractor.__tokenize`, `match_value`, `extract`; pipeline: every
alternative of EnglishChoice.TrueRegex / FalseRegex (enumerated from the resource text of the working tree; emoji as
single code points, and each emoji followed by each of the five skin-tone modifiers of the `(…)?` group — two code
points) x {lower, UPPER, Title} x contexts through `recognize_boolean`, with the property itself as oracle
(one entity, exact span, polarity, score in [0,1]); neutral strings -> nothing; both polarities -> one listed entity.
Every pipeline query is also answered by the model (`bool.rec`) and compared — span, text, value AND the reported
score (`RTV.Choice.parserScore`: the extractor's `top_score` as an exact fraction, compared within 1e-9 — or, on a
tree before findings/specs-fields/boolean-score-from-extractor.diff, the parser's default 0.0; the check probes which)."""
import itertools
import re

from lib import common, recorr
from lib.common import cps

PROP = 'C20'
LEVEL = 'proof'
PROPS_MODULES = ['RTV.Props.C20']
GEN = ['chartables', 'regexes', 'emojitable']
# not listed on purpose: `prefix_reported_score_is_parser_default` (held by the shape of the code before the score fix)
REQUIRED_THEOREMS = ['alts_polarity', 'alts_listed', 'alts_complete', 'no_match_nothing', 'neutral_nothing_sample',
                     'both_polarities_one_entity', 'both_polarities_one_entity_all',
                     'reported_score_unit_interval', 'reported_score_unit_interval_any',
                     'score_unit_interval', 'same_polarity_one_entity',
                     'repeated_expression_one_entity', 'rewrite_true_regex', 'prefix_rewrite_loses_thumbs_up',
                     'prefix_first_occurrence_span', 'prefix_matchValue_can_exceed_one', 'prefix_not_ok_not_sure_raised']
RULE = ('alternatives enumerated from EnglishChoice.TrueRegex/FalseRegex of the working tree (`\\s+` as 1 and 3 blanks; '
        'surrogate pairs / \\u0001Fxxx escapes as the single code point they denote; every emoji also followed by each '
        'skin-tone modifier of the optional group: 25 two-code-point alternatives) x {lower, UPPER, Title} x 12 contexts '
        '(punctuation, filler words, blanks, tabs) + contexts with a filler word that contains the alternative as a '
        'substring; neutral pool incl. empty / whitespace-only / words containing alternatives inside (nobody, okay, '
        'yesterday); every (true, false) pair in both orders x 3 separators; every pair of one polarity x 3 separators, every expression 2x / 3x, fixed probes with repeated tokens ("not ok not sure", "no no", "yes yes yes"), seeded lists of 3-6 listed words; non-trivial = distinct query with an entity')
ASSUMPTIONS = ['emoji table = single code points for which the installed `emoji` package\'s demojize() changes the text (RTV/Gen/Emoji.lean)',
               'str.lower per code point from the running CPython (final-sigma context rule not modelled; no Greek in the pool)',
               'scores are exact fractions in the model; the implementation\'s floats are compared with tolerance 1e-9 and must order candidates identically on the explored inputs',
               'cultures other than English have no boolean model in the Python port']

CONTEXTS = ['{}', '{}.', '{}!', ' {} ', '({})', 'well, {}', '{}, thanks', 'um {} please', '"{}"', '{}?',
            'hmm... {} ...', '\t{}\n']
NEUTRAL = ['', ' ', '   ', '\t\n', 'maybe', 'later', 'perhaps', 'hello there', '42', '?', '...', 'nobody', 'okay',
           'yesterday', 'yessir', 'note', 'nothing', 'surely', 'agreed', 'disagrees', 'falsely', 'truest', 'n', 'o k',
           'maybe later, perhaps', 'nobody knows...', '(okay)', 'notok', 'not-okay', 'yesno', '😀', '🎉 party', 'ye s',
           '\U0001F3FD', '😀\U0001F3FD', 'ye\U0001F3FDs', '\U0001F3FB\U0001F3FF']
CULTURE = 'en-us'


# ------------------------------------------------------------------ alternatives from the resource

def load_choice():
    from translate import regexes as T
    return T.load_class(T._res('recognizers-choice', 'recognizers_choice', 'english_choice.py'), 'EnglishChoice')


def split_top(text, sep='|'):
    out, depth, cur = [], 0, ''
    for i, c in enumerate(text):
        if c == '(' and (i == 0 or text[i - 1] != '\\'):
            depth += 1
        if c == ')' and (i == 0 or text[i - 1] != '\\'):
            depth -= 1
        if c == sep and depth == 0:
            out.append(cur)
            cur = ''
        else:
            cur += c
    out.append(cur)
    return out


def decode_escapes(alt):
    """`\\uD83D\\uDC4D` -> U+1F44D, `\\u0001f44c` -> U+1F44C, `\\u270B` -> U+270B (what the YAML means)."""
    m = re.fullmatch(r'\\u(D[89AB][0-9A-F]{2})\\u(D[C-F][0-9A-F]{2})', alt, re.I)
    if m:
        hi, lo = int(m.group(1), 16), int(m.group(2), 16)
        return chr(0x10000 + ((hi - 0xD800) << 10) + (lo - 0xDC00))
    m = re.fullmatch(r'\\u000(1[0-9a-f]{4})', alt, re.I)
    if m:
        return chr(int(m.group(1), 16))
    m = re.fullmatch(r'\\u([0-9a-f]{4})', alt, re.I)
    if m:
        return chr(int(m.group(1), 16))
    return None


def alternatives(pattern):
    """-> (words: [str] with `\\s+` instantiated, emoji: [str]) read off the pattern text `\\b(w|w|…)\\b|(e|e|…)(skin)?`;
    emoji = every emoji alone (one code point) followed by every emoji + skin-tone modifier of the optional group"""
    top = split_top(pattern)
    words, emojis = [], []
    for part in top:
        m = re.fullmatch(r'\\b\((.*)\)\\b', part)
        if m:
            for w in split_top(m.group(1)):
                if '\\s+' in w:
                    words.append(w.replace('\\s+', ' '))
                    words.append(w.replace('\\s+', '   '))
                elif re.fullmatch(r'[a-z ]+', w):
                    words.append(w)
                else:
                    raise common.InfraError('C20: cannot enumerate alternative %r of %r' % (w, pattern))
            continue
        m = re.match(r'\((.*?)\)(?:\((.*)\)\?)?$', part)
        if m:
            base, skins = [], []
            for grp, out in ((m.group(1), base), (m.group(2), skins)):
                for e in (split_top(grp) if grp else []):
                    d = decode_escapes(e)
                    if d is None:
                        raise common.InfraError('C20: cannot decode emoji alternative %r' % e)
                    if d not in out:
                        out.append(d)
            for e in base:
                for x in [e] + [e + k for k in skins]:
                    if x not in emojis:
                        emojis.append(x)
            continue
        raise common.InfraError('C20: unexpected top-level branch %r' % part)
    return words, emojis


def cases_of(w):
    out = [w]
    for v in (w.upper(), w.title()):
        if v not in out:
            out.append(v)
    return out


# ------------------------------------------------------------------ the check

class Impl:
    def __init__(self):
        common.setup_repo_imports()
        import recognizers_choice
        import recognizers_text
        from recognizers_choice import recognize_boolean
        from recognizers_choice.choice.extractors import BooleanExtractor
        from recognizers_choice.choice.english.boolean import EnglishBooleanExtractorConfiguration
        from recognizers_text.utilities import StringUtility
        common.assert_tree_modules(recognizers_choice, recognizers_text)
        self.rec = lambda q: recognize_boolean(q, CULTURE)
        self.extractor = BooleanExtractor(EnglishBooleanExtractorConfiguration())
        self.tokenize = self.extractor._ChoiceExtractor__tokenize
        self.su = StringUtility


def fmt_score(sc):
    return repr(float(sc)) if isinstance(sc, (int, float)) and not isinstance(sc, bool) else 'bad:%r' % (sc,)


def fmt_rec(rs):
    return ';'.join('%d:%d:%s:%d:%s' % (r.start, r.end, cps(r.text), 1 if r.resolution['value'] is True else 0,
                                        fmt_score(r.resolution.get('score'))) for r in rs)


def same_rec(out, m):
    """`fmt_rec` of the implementation against the driver's `bool.rec` answer: span, text and value equal, the reported
    score (a float) within 1e-9 of the model's exact fraction `num/den`"""
    if out.startswith('err') or m.startswith('err') or not out or not m:
        return out == m
    po, pm = out.split(';'), m.split(';')
    if len(po) != len(pm):
        return False
    for x, y in zip(po, pm):
        hx, sx = x.rsplit(':', 1)
        hy, sy = y.rsplit(':', 1)
        n, d = sy.split('/')
        if hx != hy or sx.startswith('bad') or int(d) == 0 or abs(float(sx) - int(n) / int(d)) > 1e-9:
            return False
    return True


def run_query(impl, q):
    try:
        rs = impl.rec(q)
        return rs, fmt_rec(rs)
    except Exception as e:  # the model answers err:Other when an exception escapes
        return None, 'err:Other'


def classify(q, span, polarity):
    """signature for a failed positive case"""
    return 'polarity'


def check_positive(ctx, impl, q, a, b, polarity, expr, family, sig_hint=None):
    rs, out = run_query(impl, q)
    fi = {'op': 'recognize_boolean', 'query': q, 'culture': CULTURE, 'expression': expr, 'expected_span': [a, b - 1],
          'expected_value': polarity, 'reported': out}
    bad = None
    if rs is None:
        bad = 'raises an exception'
    elif len(rs) != 1:
        bad = 'reports %d entities' % len(rs)
    else:
        r = rs[0]
        sc = r.resolution.get('score')
        if r.resolution.get('value') is not polarity:
            bad = 'value %r' % r.resolution.get('value')
        elif (r.start, r.end) != (a, b - 1):
            bad = 'span [%d,%d] instead of [%d,%d]' % (r.start, r.end, a, b - 1)
        elif r.text != q[a:b]:
            bad = 'text %r' % r.text
        elif not (isinstance(sc, (int, float)) and not isinstance(sc, bool) and 0 <= sc <= 1):
            bad = 'score %r outside [0,1]' % (sc,)
    if bad:
        sig = sig_hint(rs) if sig_hint else family
        ctx.report('property', sig, 'recognize_boolean(%r): %s for the %s expression %r at [%d,%d]' % (
            q, bad, 'affirmative' if polarity else 'negative', expr, a, b - 1), failing_input=fi, property_fails=True)
    elif rs:
        ctx.nontriv(('bool', q))
    return out


def correspond(ctx):
    impl = Impl()
    res = load_choice()
    recorr.run(ctx, names=['boolTrueRegex', 'boolFalseRegex', 'boolTokenizerRegex'])
    # which variant of the two repaired functions does the working tree follow? (DESIGN 2.5: both are modelled)
    class _P:
        pattern = '\\uD83D\\uDC4D'
    v_rewrite = 'fixed' if impl.su.remove_unicode_matches(_P) == '\\U0001F44D' else 'prefix'
    probe = impl.rec('nobody said no')
    v_offset = 'fixed' if (probe and probe[0].start == 12) else 'prefix'
    miss = impl.su.index_of(['a'], 'x', 0)            # -1 in the current code, 1 before /repo 4afb7c9b1
    import inspect
    from recognizers_choice.choice.models import ChoiceModel
    parse_init = 'parse_results = []' in inspect.getsource(ChoiceModel.parse)
    # ChoiceParser.parse: hands on the extractor's score (after boolean-score-from-extractor.diff: `yes` alone scores
    # 1.0), or reports the default 0.0 of a freshly built ChoiceExtractDataResult (before)
    yes = impl.rec('yes')
    keeps_score = not (yes and yes[0].resolution.get('score') == 0.0)
    v_env = '+'.join([v_offset] + (['miss1'] if miss == 1 else []) + ([] if parse_init else ['noinit']) +
                     ([] if keeps_score else ['pscore0']))
    ctx.extra['variants'] = {'remove_unicode_matches': v_rewrite, 'span_offset': v_offset, 'index_of_miss': miss,
                             'parse_results_initialised': parse_init, 'parser_keeps_extractor_score': keeps_score}
    tw, te = alternatives(res.TrueRegex)
    fw, fe = alternatives(res.FalseRegex)
    ctx.extra['alternatives'] = {'true_words': tw, 'true_emoji': te, 'false_words': fw, 'false_emoji': fe}
    queries = []          # every pipeline query is replayed on the model afterwards

    # 1. every alternative x case x context
    for polarity, words, emojis in ((True, tw, te), (False, fw, fe)):
        for w in words:
            for v in cases_of(w):
                for c in CONTEXTS:
                    q = c.format(v)
                    a = c.index('{}')
                    queries.append(q)
                    check_positive(ctx, impl, q, a, a + len(v), polarity, v, 'polarity-word')
                    ctx.count('pipeline-word-alternatives')
        for e in emojis:
            for c in CONTEXTS:
                q = c.format(e)
                a = c.index('{}')
                queries.append(q)
                check_positive(ctx, impl, q, a, a + len(e), polarity, e, 'polarity-emoji',
                               sig_hint=lambda rs: 'emoji-unreachable' if rs == [] else 'polarity-emoji')
                ctx.count('pipeline-emoji-alternatives')
    # 2. a filler word that contains the alternative as a substring comes first (real words, then synthetic)
    for q, a, w, pol in (('nobody said no', 12, 'no', False), ('yesterday I said yes', 17, 'yes', True),
                         ('okay ok', 5, 'ok', True)):
        queries.append(q)
        check_positive(ctx, impl, q, a, a + len(w), pol, w, 'polarity-word',
                       sig_hint=lambda rs, a=a: 'first-occurrence-span' if (rs and len(rs) == 1 and rs[0].start < a) else 'polarity-word')
        ctx.count('pipeline-substring-filler')
    for polarity, words in ((True, tw), (False, fw)):
        for w in words:
            for filler in ('q' + w + 'q', w + 'body', 'un' + w):
                q = '%s said %s' % (filler, w)
                a = len(filler) + 6
                queries.append(q)
                check_positive(ctx, impl, q, a, a + len(w), polarity, w, 'polarity-word',
                               sig_hint=lambda rs, a=a: 'first-occurrence-span' if (
                                   rs and len(rs) == 1 and rs[0].start < a) else 'polarity-word')
                ctx.count('pipeline-substring-filler')
    # 3. neutral strings
    r = ctx.rng('neutral')
    neutral = list(NEUTRAL)
    toks = ['maybe', 'later', 'perhaps', 'nobody', 'okay', '42', '?', ',', '...', ' ', '  ', '\t', 'yesterday', '😀']
    for _ in range(1500 if ctx.thorough else 400):
        neutral.append(''.join(r.choice(toks) + r.choice([' ', ' ', ', ', '']) for _ in range(r.randint(1, 6))))
    alts_lower = set(tw + fw)
    for q in neutral:
        # the generator glues tokens: drop strings in which an alternative happens to stand as a token
        if any(re.search(r'(?<!\w)%s(?!\w)' % re.escape(a), q.lower()) for a in alts_lower):
            continue
        queries.append(q)
        rs, out = run_query(impl, q)
        ctx.count('pipeline-neutral')
        if rs is None or rs:
            ctx.report('property', 'neutral-entity', 'recognize_boolean(%r) on text without any listed expression: %s' % (q, out),
                       failing_input={'op': 'recognize_boolean', 'query': q, 'reported': out}, property_fails=True)
    # 4. both polarities
    for t, f in itertools.product(tw + te, fw + fe):
        for sep in (' ', ', ', ' or '):
            for q in (t + sep + f, f + sep + t):
                queries.append(q)
                rs, out = run_query(impl, q)
                ctx.count('pipeline-both-polarities')
                ok = rs is not None and len(rs) == 1
                if ok:
                    x = rs[0]
                    lst = (tw + te) if x.resolution['value'] is True else (fw + fe)
                    sc = x.resolution.get('score')
                    ok = (x.text.lower() in lst and q[x.start:x.end + 1] == x.text and
                          isinstance(x.resolution['value'], bool) and
                          isinstance(sc, (int, float)) and not isinstance(sc, bool) and 0 <= sc <= 1)
                if ok:
                    ctx.nontriv(('both', q))
                else:
                    dead = [e for e in (t, f) if e in te + fe and impl.rec(e) == []]
                    ctx.report('property', 'emoji-unreachable' if dead else 'both-polarities', 'recognize_boolean(%r): expected one listed expression with its own '
                               'polarity, got %s' % (q, out),
                               failing_input={'op': 'recognize_boolean', 'query': q, 'reported': out}, property_fails=True)

    # 5. several listed expressions of one polarity, repeated expressions, mixtures with repeated tokens
    def check_listed(q, family):
        queries.append(q)
        rs, out = run_query(impl, q)
        ctx.count(family)
        ok = rs is not None and len(rs) == 1
        if ok:
            x = rs[0]
            lst = (tw + te) if x.resolution['value'] is True else (fw + fe)
            sc = x.resolution.get('score')
            ok = (x.text.lower() in lst and q[x.start:x.end + 1] == x.text and isinstance(x.resolution['value'], bool)
                  and isinstance(sc, (int, float)) and not isinstance(sc, bool) and 0 <= sc <= 1)
        if ok:
            ctx.nontriv((family, q))
        else:
            dead = [e for e in te + fe if e in q and impl.rec(e) == []]
            sig = 'raises' if rs is None else ('emoji-unreachable' if dead else 'several-expressions')
            ctx.report('property', sig, 'recognize_boolean(%r): expected exactly one listed expression with its own polarity, '
                       'got %s' % (q, out), failing_input={'op': 'recognize_boolean', 'query': q, 'reported': out},
                       property_fails=True)
    for q in ('not ok not sure', 'yes yes yes', 'no no', 'not ok not ok', 'sure sure not sure', 'ok ok not ok ok',
              'no, no, no!', 'yes... yes?', 'not not ok', 'ok not', 'y y y y y y y y', 'no yes no yes no'):
        check_listed(q, 'pipeline-repeated-tokens')
    for lst in (tw + te, fw + fe):
        for w in lst:
            for sep in (' ', ', '):
                check_listed(w + sep + w, 'pipeline-repeated-tokens')
                check_listed(w + sep + w + sep + w, 'pipeline-repeated-tokens')
        for w1, w2 in itertools.product(lst, repeat=2):
            for sep in (' ', ', ', ' and '):
                check_listed(w1 + sep + w2, 'pipeline-same-polarity')
    r3 = ctx.rng('triples')
    allw = tw + fw
    for _ in range(1500 if ctx.thorough else 300):
        parts = [r3.choice(allw) for _ in range(r3.randint(3, 6))]
        check_listed(' '.join(parts), 'pipeline-random-expression-lists')

    # ---- model vs implementation on every pipeline query
    queries = list(dict.fromkeys(queries))
    lines = ['bool.rec\t%s\t%s' % (v_env, cps(q)) for q in queries]
    model = common.driver(lines)
    ctx.count('model-vs-recognize_boolean', len(lines))
    for q, m in zip(queries, model):
        _, out = run_query(impl, q)
        if not same_rec(out, m):
            ctx.report('correspondence', 'recognise', 'recognize_boolean(%r): implementation %s, model %s' % (q, out, m),
                       failing_input={'op': 'bool.rec', 'query': q, 'implementation': out, 'model': m})
    ctx.sample({'op': lines[7], 'implementation': run_query(impl, queries[7])[1]})

    # ---- unit level
    # remove_unicode_matches on the resource texts and synthetic patterns
    pats = [res.TrueRegex, res.FalseRegex, res.SkinToneRegex, res.TokenizerRegex, '\\uD83D\\uDC4D', '\\u270B|x', 'a\\u12', '\\u1234',
            '\\ud83d\\udc4d|\\uDBFF\\uDFFF', '\\uD83D\\u0041', '\\uDC4D\\uD83D', '\\u0001F44E|\\u000g1234', '\\u00012345', '\\uD83D\\uDC4',
            '\\u1234\\\\', 'x\\u12\n4|y', '\\u\\u1234|\\u5678\\', '(\\u0001f44c)', '\\\\u1234|', 'u1234|', '\\U1234|']
    class P:
        pass
    lines, want = [], []
    for p in pats:
        o = P()
        o.pattern = p
        lines.append('bool.rewrite\t%s\t%s' % (v_rewrite, cps(p)))
        want.append(cps(impl.su.remove_unicode_matches(o)))
    # tokenizer
    tq = [q.lower() for q in queries if q.strip()][:1500] + ['a👌b', '👌a', 'a 👌', '👌👌', 'x_y-z', 'é١', 'a\u200db', '١٢', 'a.b', '🏿']
    for q in tq:
        lines.append('bool.tok\t' + cps(q))
        toks = impl.tokenize(q)
        want.append(';'.join(cps(t) for t in toks) if toks else 'none')
    model = common.driver(lines)
    ctx.count('unit-rewrite+tokenize', len(lines))
    for l, a, b in zip(lines, want, model):
        if a != b:
            ctx.report('correspondence', 'unit-' + l.split('\t')[0], '%s: implementation %s, model %s' % (l, a, b),
                       failing_input={'op': l, 'implementation': a, 'model': b})
    # match_value
    r = ctx.rng('mv')
    lines, want = [], []
    pool = ['a', 'b', 'c', 'no', 'ok', 'not']
    mv_cases = [(['a'], ['x', 'x', 'x'], 0), (['not', 'ok'], ['not', 'ok'], 1), ([], ['a'], 0), (['a'], [], 0)]
    for _ in range(3000 if ctx.thorough else 800):
        src = [r.choice(pool) for _ in range(r.randint(0, 5))]
        mt = [r.choice(pool) for _ in range(r.randint(0, 3))]
        mv_cases.append((src, mt, r.randint(0, max(len(src), 1))))
    for src, mt, st in mv_cases:
        lines.append('\t'.join(['bool.mv', str(miss), str(st), str(len(src))] + [cps(t) for t in src] + [cps(t) for t in mt]))
        try:
            want.append(impl.extractor.match_value(src, mt, st))
        except ZeroDivisionError:
            want.append('err:ZeroDivisionError')
    model = common.driver(lines)
    ctx.count('unit-match_value', len(lines))
    for l, a, b in zip(lines, want, model):
        if isinstance(a, str) or b.startswith('err'):
            ok = a == b
        else:
            n, d = b.split('/')
            ok = abs(int(n) / int(d) - a) < 1e-9
        if not ok:
            ctx.report('correspondence', 'unit-match_value', '%s: implementation %r, model %s' % (l, a, b),
                       failing_input={'op': l, 'implementation': a, 'model': b})
    # before /repo 4afb7c9b1 the helper could leave [0,1] (regression theorem prefix_matchValue_can_exceed_one): replayed
    # and recorded
    ctx.extra['match_value_witness'] = {'args': [['a'], ['x', 'x', 'x'], 0],
                                        'implementation': impl.extractor.match_value(['a'], ['x', 'x', 'x'], 0)}
    # extract
    lines, want = [], []
    for q in queries[:2500]:
        lines.append('bool.extract\t%s\t%s' % (v_env, cps(q)))
        try:
            ers = impl.extractor.extract(q)
            want.append([(e.start, e.length, e.text, e.type, e.data.score) for e in ers])
        except Exception:
            want.append('err:Other')
    model = common.driver(lines)
    ctx.count('unit-extract', len(lines))
    for l, a, b in zip(lines, want, model):
        if isinstance(a, str):
            ok = a == b
        else:
            got = []
            for part in [p for p in b.split(';') if p]:
                s0, ln, tx, v, sc = part.split(':')
                n, d = sc.split('/')
                got.append((int(s0), int(ln), common.uncps(tx), 'boolean-true' if v == '1' else 'boolean-false', int(n) / int(d)))
            ok = len(got) == len(a) and all(x[:4] == y[:4] and abs(x[4] - y[4]) < 1e-9
                                            for x, y in zip(got, a))
        if not ok:
            ctx.report('correspondence', 'unit-extract', '%s: implementation %r, model %s' % (l, a, b),
                       failing_input={'op': l, 'implementation': str(a), 'model': b})
