"""C18 — generated pattern resources are faithful to the shared Patterns YAML.

Translation validation, exhaustive on every run: for every entry of the five packages' resource-definitions.json
the repository's OWN generator (resource-generator/lib) is run on Patterns/*.yaml and its output is compared with the
checked-in module — as text, definition by definition, and as evaluated values (the regenerated source is executed
with the working tree's package as its parent so that its relative imports resolve).  The Lean side
(RTV.Props.C18) holds theorems about the generator's escaping functions (`sanitize` + Python f-string evaluation
is the identity on the YAML definition; `create_entry` + Python "…" literal evaluation is the identity), tied to
lib/code_writer.py by unit correspondence."""
import importlib
import json
import os
import re
import sys
import types

from lib import common
from lib.common import cps

PROP = 'C18'
LEVEL = 'translation_validation'
PROPS_MODULES = ['RTV.Props.C18']
GEN = ['chartables']
REQUIRED_THEOREMS = ['sanitize_fstring_roundtrip', 'create_entry_roundtrip']
RULE = ('every configFiles entry of the five resource-definitions.json (exhaustive); a definition is non-trivial when it '
        'exists in the regenerated or the checked-in module; compared as source text per definition and as evaluated '
        'attribute values of the resource class')
ASSUMPTIONS = ['ruamel.yaml is replaced by harness/shims/ruamel (vendored PyYAML 6.0.3 + YAML 1.2 core-schema resolvers)',
               'the generator under test is the repository\'s own resource-generator/lib (run in-process)']
EXPLANATION = 'finite artefact equality: exhaustive comparison; Lean proves the escaping functions of the emitter faithful'
PACKAGES = ['recognizers-number', 'recognizers-number-with-unit', 'recognizers-date-time', 'recognizers-sequence',
            'recognizers-choice']
DEF_RE = re.compile(r'^    (?:def )?([A-Za-z_][A-Za-z0-9_]*)(?: = |\()')


def split_definitions(text):
    """{name: source} for the top-level definitions of the (single) resource class of a generated module."""
    defs = {}
    cur = None
    buf = []
    for line in text.splitlines():
        m = DEF_RE.match(line)
        if m and not line.startswith('        '):
            if cur:
                defs[cur] = '\n'.join(buf).rstrip()
            cur, buf = m.group(1), [line]
        elif cur is not None:
            buf.append(line)
    if cur:
        defs[cur] = '\n'.join(buf).rstrip()
    return defs


def class_values(mod):
    out = {}
    for cname, cls in vars(mod).items():
        if isinstance(cls, type) and cls.__module__ == mod.__name__:
            for k, v in vars(cls).items():
                if k.startswith('__'):
                    continue
                if isinstance(v, (staticmethod, classmethod)):
                    v = v.__func__
                out[k] = ('<callable>' if callable(v) else v)
    return out


def exec_as(package, name, source):
    mod = types.ModuleType(package + '.' + name + '__regen')
    mod.__package__ = package
    exec(compile(source, name + '.py(regenerated)', 'exec'), mod.__dict__)
    return mod


def correspond(ctx):
    common.setup_repo_imports()
    gen_dir = os.path.join(common.REPO, 'Python', 'libraries', 'resource-generator')
    sys.path.insert(0, gen_dir)
    for m in [m for m in sys.modules if m == 'lib' or m.startswith('lib.')]:
        # our own harness package is also called `lib`: load the generator's under a private name instead
        pass
    import importlib.util
    def load(name, path):
        spec = importlib.util.spec_from_file_location(name, path)
        mod = importlib.util.module_from_spec(spec)
        sys.modules[name] = mod
        spec.loader.exec_module(mod)
        return mod
    pkg = types.ModuleType('rgenlib')
    pkg.__path__ = [os.path.join(gen_dir, 'lib')]
    sys.modules['rgenlib'] = pkg
    yaml_parser = load('rgenlib.yaml_parser', os.path.join(gen_dir, 'lib', 'yaml_parser.py'))
    code_writer = load('rgenlib.code_writer', os.path.join(gen_dir, 'lib', 'code_writer.py'))
    bcg = load('rgenlib.base_code_generator', os.path.join(gen_dir, 'lib', 'base_code_generator.py'))
    scratch = os.path.join(common.VERIF, '.scratch', 'c18-%d' % os.getpid())
    os.makedirs(scratch, exist_ok=True)
    modules = identical = 0
    try:
        for p in PACKAGES:
            base = os.path.join(common.REPO, 'Python', 'libraries', p)
            try:
                specs = json.load(open(os.path.join(base, 'resource-definitions.json')))
            except Exception as e:
                ctx.report('property', 'resource-definitions-unreadable:' + p, '%s: %s' % (type(e).__name__, e),
                           failing_input={'package': p}, property_fails=True)
                continue
            outdir = os.path.normpath(os.path.join(base, specs['outputPath']))
            pyname = os.path.basename(os.path.dirname(outdir + os.sep + 'x').rstrip(os.sep))
            pypkg = os.path.basename(os.path.dirname(outdir)) + '.' + os.path.basename(outdir)
            for cfg in specs['configFiles']:
                modules += 1
                name = cfg['output']
                inp = os.path.join(common.REPO, 'Patterns', *cfg['input']) + '.yaml'
                checked_in = os.path.join(outdir, name + '.py')
                tmp = os.path.join(scratch, name + '.py')
                ctx.count('module')
                # exact path check (case-sensitive file systems): the input named by the definitions must exist
                if not os.path.exists(inp) or os.path.basename(inp) not in os.listdir(os.path.dirname(inp)):
                    ctx.report('property', 'input-missing:%s' % name,
                               'resource-definitions names %s which does not exist (letter case?)' % os.path.relpath(inp, common.REPO),
                               failing_input={'package': p, 'output': name, 'input': inp}, property_fails=True)
                    continue
                try:
                    bcg.generate(inp, tmp, '\n'.join(cfg['header']), '\n'.join(cfg['footer']))
                    regen = open(tmp, encoding='utf-8').read()
                except Exception as e:
                    ctx.report('property', 'generator-error:%s' % name, '%s: %s' % (type(e).__name__, e),
                               failing_input={'package': p, 'output': name}, property_fails=True)
                    continue
                try:
                    current = open(checked_in, encoding='utf-8').read()
                except FileNotFoundError:
                    ctx.report('property', 'module-missing:%s' % name, 'checked-in module missing',
                               failing_input={'package': p, 'output': name}, property_fails=True)
                    continue
                rdefs, cdefs = split_definitions(regen), split_definitions(current)
                for d in rdefs:
                    ctx.nontriv((name, d))
                ctx.count('definition', len(set(rdefs) | set(cdefs)))
                if regen == current:
                    identical += 1
                else:
                    names = [d for d in list(rdefs) + [c for c in cdefs if c not in rdefs] if rdefs.get(d) != cdefs.get(d)]
                    for d in names[:10]:
                        ctx.report('property', 'stale:%s.%s' % (name, d),
                                   'definition %s of %s differs from what the generator produces from %s' % (
                                       d, os.path.relpath(checked_in, common.REPO), os.path.relpath(inp, common.REPO)),
                                   failing_input={'module': name, 'definition': d, 'regenerated': (rdefs.get(d) or '')[:600],
                                                  'checked_in': (cdefs.get(d) or '')[:600]}, property_fails=True)
                    if not names:
                        ctx.report('property', 'stale-text:%s' % name, 'module text differs outside definitions (header/footer)',
                                   failing_input={'module': name}, property_fails=True)
                # values: the module the recognisers import vs the regenerated source evaluated in the same package
                try:
                    real = importlib.import_module(pypkg + '.' + name)
                    common.assert_tree_modules(real)
                    rv = class_values(exec_as(pypkg, name, regen))
                    cv = class_values(real)
                    for k in sorted(set(rv) | set(cv)):
                        if rv.get(k, '<missing>') != cv.get(k, '<missing>'):
                            ctx.report('property', 'value:%s.%s' % (name, k),
                                       'attribute %s of %s: imported value differs from the regenerated one' % (k, name),
                                       failing_input={'module': name, 'attribute': k, 'regenerated': repr(rv.get(k))[:400],
                                                      'imported': repr(cv.get(k))[:400]}, property_fails=True)
                except common.InfraError:
                    raise
                except Exception as e:
                    ctx.report('property', 'import-error:%s' % name, '%s: %s' % (type(e).__name__, e),
                               failing_input={'module': name}, property_fails=True)
                if len(ctx.samples) < 4:
                    k = sorted(rdefs)[len(rdefs) // 2] if rdefs else None
                    ctx.sample({'module': name, 'definitions': len(rdefs), 'identical_text': regen == current,
                                'example_definition': (rdefs.get(k) or '')[:160]})
    finally:
        import shutil
        shutil.rmtree(scratch, ignore_errors=True)
    ctx.extra.update({'programs': modules, 'modules_identical_text': identical, 'exhaustive': True,
                      'disagreements_checked': len(ctx.breaks)})

    # ---- unit correspondence of the Lean emitter model against lib/code_writer.py
    r = ctx.rng('sanitize')
    pool = ['a', 'B', '0', ' ', '{', '}', "'", '"', '\\', 'n', '\n', '\t', 'é', '中', ' ', '(', '?', '<', '|', '\x7f', '\x01',
            ' ', '😀']
    strs = ['', '{', '}', '{}', "'", '"', '\\', "\\'", '{{x}}', '\\d+', "it's", 'a{BaseX}b']
    for _ in range(3000 if ctx.thorough else 600):
        strs.append(''.join(r.choice(pool) for _ in range(r.randint(1, 12))))
    lines, impl = [], []
    for s in strs:
        lines.append('sanitize\t' + cps(s))
        impl.append(cps(code_writer.sanitize(s)))
        lines.append('centry\t' + cps(s))
        impl.append(cps(code_writer.create_entry(s, 'string')))
    model = common.driver(lines)
    ctx.count('sanitize/create_entry', len(lines))
    for l, a, b in zip(lines, impl, model):
        if a != b:
            s = common.uncps(l.split('\t')[1])
            # does the implementation's output still evaluate (as Python would) to the original? that is the property
            op = l.split('\t')[0]
            try:
                if op == 'sanitize':
                    back = eval("f'" + common.uncps(a) + "'")
                else:
                    back = eval(common.uncps(a))
                bad = back != s
            except Exception:
                bad = True
            ctx.report('correspondence', op, '%s(%r): implementation %r, model %r' % (op, s, common.uncps(a), common.uncps(b)),
                       failing_input={'op': op, 'input': s, 'implementation': common.uncps(a), 'model': common.uncps(b),
                                      'evaluates_back': not bad}, property_fails=bad)
