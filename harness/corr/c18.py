"""C18 — generated pattern resources are faithful to the shared Patterns YAML.

Translation validation, exhaustive on every run: for every entry of the five packages' resource-definitions.json
the repository's OWN generator (resource-generator/lib) is run on Patterns/*.yaml and its output is compared with the
checked-in module — as text, definition by definition, and as evaluated values (the regenerated source is executed
with the working tree's package as its parent so that its relative imports resolve).  The Lean side
(RTV.Props.C18) holds theorems about the generator's escaping functions (`sanitize` + Python f-string evaluation
is the identity on the YAML definition; `create_entry` + Python "…" literal evaluation is the identity), tied to
lib/code_writer.py by unit correspondence.

Verified reference emitter (RTV/Model/ResGenEmit.lean): every definition of every Patterns YAML the five packages
use is sent to the Lean driver as a parsed definition (kind, name, def text, references/params, entries); the Lean
emitter (`writeToken`, a model of every writer of code_writer.py, and `assemble`, a model of
base_code_generator.generate) must produce byte-identical text, and the Lean evaluator (`evalDef`: f-strings with
replacement fields resolved in the environment of earlier definitions, plain / raw literals, dict and list
entries) must evaluate the Lean-emitted text to the value the imported checked-in module has for that attribute.
That closes YAML -> emitted text -> value without relying on Python's evaluation of the regenerated module."""
import importlib
import json
import os
import re
import sys
import types

from lib import common
from lib.common import cps

PROP = 'C18'
LEVEL = 'translation_validation'
PROPS_MODULES = ['RTV.Props.C18']
GEN = ['chartables']
REQUIRED_THEOREMS = ['sanitize_fstring_roundtrip', 'create_entry_roundtrip', 'create_entry_roundtrip_tied',
                     'create_entry_cr_breaks', 'nested_regex_faithful', 'simple_regex_faithful',
                     'params_regex_faithful', 'dict_entry_faithful', 'dictionary_faithful', 'list_entry_raw',
                     'default_writer_faithful', 'default_writer_value', 'bool_writer_faithful', 'regex_definition_faithful',
                     'nested_regex_duplicate_reference', 'nested_regex_invalid_name', 'default_writer_brace_doubled',
                     'dict_list_astral_not_faithful', 'list_entry_trailing_backslash', 'list_faithful', 'block_single_line',
                     'block_line_separator_breaks']
RULE = ('every configFiles entry of the five resource-definitions.json (exhaustive); a definition is non-trivial when it '
        'exists in the regenerated or the checked-in module; compared as source text per definition and as evaluated '
        'attribute values of the resource class; every definition additionally goes through the Lean reference emitter '
        '(text byte-identical to code_writer, module text byte-identical to generate) and the Lean evaluator (value equal to '
        'the imported attribute); synthetic definitions of every kind and generated literals tie the evaluator to CPython')
ASSUMPTIONS = ['ruamel.yaml is replaced by harness/shims/ruamel (vendored PyYAML 6.0.3 + YAML 1.2 core-schema resolvers)',
               'the generator under test is the repository\'s own resource-generator/lib (run in-process)',
               'the parsed YAML (yaml_parser objects) is the input of the Lean emitter: YAML reading itself is not modelled',
               'values of imported base classes (BaseNumbers.X, …) are the Lean-evaluated values of the module named by the '
               'header import line (the import statement itself is interpreted by the harness)',
               'float literals of dictionary values: Lean yields the exact decimal, compared with the module value through '
               'correctly rounded Fraction -> float']
EXPLANATION = ('finite artefact equality: exhaustive comparison; Lean supplies a reference emitter for every writer (byte-identical '
               'on every definition) and proves that the emitted text evaluates back to the YAML definition')
PACKAGES = ['recognizers-number', 'recognizers-number-with-unit', 'recognizers-date-time', 'recognizers-sequence',
            'recognizers-choice']
DEF_RE = re.compile(r'^    (?:def )?([A-Za-z_][A-Za-z0-9_]*)(?: = |\()')


def split_definitions(text):
    """{name: source} for the top-level definitions of the (single) resource class of a generated module."""
    defs = {}
    cur = None
    buf = []
    for line in text.splitlines():
        m = DEF_RE.match(line)
        if m and not line.startswith('        '):
            if cur:
                defs[cur] = '\n'.join(buf).rstrip()
            cur, buf = m.group(1), [line]
        elif cur is not None:
            buf.append(line)
    if cur:
        defs[cur] = '\n'.join(buf).rstrip()
    return defs


def class_values(mod):
    out = {}
    for cname, cls in vars(mod).items():
        if isinstance(cls, type) and cls.__module__ == mod.__name__:
            for k, v in vars(cls).items():
                if k.startswith('__'):
                    continue
                if isinstance(v, (staticmethod, classmethod)):
                    v = v.__func__
                out[k] = ('<callable>' if callable(v) else v)
    return out


def exec_as(package, name, source):
    mod = types.ModuleType(package + '.' + name + '__regen')
    mod.__package__ = package
    exec(compile(source, name + '.py(regenerated)', 'exec'), mod.__dict__)
    return mod


# ------------------------------------------------------------------ Lean reference emitter / evaluator

IMPORT_RE = re.compile(r'^\s*from\s+\.(\w+)\s+import\s+(\w+)(?:\s+as\s+(\w+))?\s*$')


class Unmodelled(Exception):
    pass


def encode_definition(name, token, yp, args_for):
    """parsed YAML definition -> driver fields (the Lean `Token` datatype); mirrors generate_code's dispatch."""
    if isinstance(token, yp.SimpleRegex):
        if not isinstance(token.def_, str):
            raise Unmodelled('simpleRegex without def')
        return 'S', ['S', cps(name), cps(token.def_)]
    if type(token) is yp.NestedRegex:
        if not isinstance(token.def_, str):
            raise Unmodelled('nestedRegex without def')
        return 'N', ['N', cps(name), cps(token.def_), str(len(token.references))] + [cps(r) for r in token.references]
    if type(token) is yp.ParamsRegex:
        if not isinstance(token.def_, str):
            raise Unmodelled('paramsRegex without def')
        args = args_for(len(token.params))
        return 'P', (['P', cps(name), cps(token.def_), str(len(token.params))] + [cps(x) for x in token.params]
                     + [cps(a) for a in args])
    if type(token) is yp.Dictionary:
        f = ['D', cps(name), cps(token.key_type), cps(token.value_type), str(len(token.entries))]
        for k, v in token.entries.items():
            if not isinstance(k, str):
                raise Unmodelled('dictionary key is not a scalar')
            if isinstance(v, list):
                items = [x.value for x in v]
                if not all(isinstance(i, str) for i in items):
                    raise Unmodelled('nested sequence in dictionary value')
                f += [cps(k), 'l', str(len(items))] + [cps(i) for i in items]
            elif isinstance(v, str):
                f += [cps(k), 's', cps(v)]
            else:
                raise Unmodelled('dictionary value is not a scalar')
        return 'D', f
    if type(token) is yp.List:
        if not all(isinstance(e, str) for e in token.entries):
            raise Unmodelled('list entry is not a scalar')
        return 'L', ['L', cps(name), cps(token.type_), str(len(token.entries))] + [cps(e) for e in token.entries]
    if isinstance(token, list):
        if not all(isinstance(e, str) for e in token):
            raise Unmodelled('untagged sequence with non-str entries')
        return 'A', ['A', cps(name), str(len(token))] + [cps(e) for e in token]
    if isinstance(token, bool):
        return 'B', ['B', cps(name), '1' if token else '0']
    if isinstance(token, int):
        return 'I', ['I', cps(name), str(token)]
    if isinstance(token, str):
        return 'T', ['T', cps(name), cps(token)]
    raise Unmodelled('scalar of type %s' % type(token).__name__)


class Fields:
    def __init__(self, fields):
        self.f, self.i = fields, 0

    def take(self):
        self.i += 1
        return self.f[self.i - 1]

    def val(self):
        t = self.take()
        if t == 'x':
            return ('x',)
        if t == 's':
            return ('s', common.uncps(self.take()))
        if t == 'o':
            return ('o', common.uncps(self.take()))
        if t == 'b':
            return ('b', self.take() == '1')
        if t == 'n':
            m = int(self.take())
            return ('n', m, int(self.take()))
        if t == 'l':
            n = int(self.take())
            return ('l', [common.uncps(self.take()) for _ in range(n)])
        if t == 'd':
            n = int(self.take())
            return ('d', [(self.val(), self.val()) for _ in range(n)])
        if t == 'f':
            return ('f', self.val())
        raise common.InfraError('driver value token %r' % t)


def same_value(lean, py):
    """Lean-evaluated value (tagged tuple) equals the Python object `py` (type and value)."""
    from fractions import Fraction
    t = lean[0]
    if t == 's':
        return type(py) is str and py == lean[1]
    if t == 'b':
        return type(py) is bool and py == lean[1]
    if t == 'l':
        return type(py) is list and py == lean[1]
    if t == 'n':
        if lean[2] == 0:
            return type(py) is int and py == lean[1]
        return type(py) is float and float(Fraction(lean[1], 10 ** lean[2])) == py
    return False


def lean_to_py(lean):
    from fractions import Fraction
    t = lean[0]
    if t in ('s', 'b', 'l'):
        return lean[1]
    if t == 'n':
        return lean[1] if lean[2] == 0 else float(Fraction(lean[1], 10 ** lean[2]))
    return lean


def same_dict(entries, py):
    if type(py) is not dict:
        return False
    seen = {}
    for k, v in entries:
        if k[0] not in ('s', 'n', 'b'):
            return False
        kk = lean_to_py(k)
        seen[kk] = v            # dict([...]): the last pair with a key wins, the position of the first stays
    if list(seen) != list(py):
        return False
    return all(same_value(v, py[k]) for k, v in seen.items())


def emitter_correspondence(ctx, yp, code_writer, bcg, jobs):
    r = ctx.rng('params-args')
    arg_pool = ['\\D|\\b', '', ' ', '{', '}', "'", '"', '\\', 'a{b}c', 'é', '(?=\\s|$)', '{placeholder}', 'x']

    def args_for(n):
        return [r.choice(arg_pool) for _ in range(n)]

    # parse + run the repository's writers per definition
    for job in jobs:
        try:
            root = yp.parse(open(job['input'], encoding='utf-8'))
            writers = code_writer.generate_code(root)
        except Exception as e:      # already reported as generator-error by the exhaustive comparison
            job['skip'] = '%s: %s' % (type(e).__name__, e)
            continue
        job['defs'] = []
        for (dname, token), w in zip(root.items(), writers):
            try:
                impl_text = w.write()
            except Exception as e:
                impl_text = None
            try:
                kind, fields = encode_definition(dname, token, yp, args_for)
            except Unmodelled as e:
                ctx.count('emit:unmodelled-kind')
                job['skip'] = 'unmodelled definition %s: %s' % (dname, e)
                break
            job['defs'].append({'name': dname, 'kind': kind, 'fields': fields, 'impl_text': impl_text, 'token': token,
                                'args': [common.uncps(a) for a in fields[-len(token.params):]] if kind == 'P' and token.params else []})
        imports = {}
        for line in job['header'].splitlines():
            m = IMPORT_RE.match(line)
            if m:
                imports[m.group(3) or m.group(2)] = m.group(1)
        job['imports'] = imports
    todo = [j for j in jobs if 'defs' in j and 'skip' not in j]
    lean_values = {}      # (pypkg, module) -> {attribute: str value computed by the Lean evaluator}
    done = set()
    reports = {}

    def report(family, sig, detail, failing_input, fails):
        reports[family] = reports.get(family, 0) + 1
        if reports[family] <= 6:
            ctx.report('correspondence', sig, detail, failing_input=failing_input, property_fails=fails)

    rounds = 0
    while todo and rounds < 6:
        rounds += 1
        ready = [j for j in todo if all((j['pypkg'], m) in done or not any(
            (jj['pypkg'], jj['name']) == (j['pypkg'], m) for jj in jobs) for m in j['imports'].values())]
        if not ready:
            ready = todo      # an import cycle or a module outside the definitions: evaluate with what is known
        lines = []
        for j in ready:
            env = []
            wanted = []
            for d in j['defs']:
                if d['kind'] == 'N':
                    for ref in d['token'].references:
                        if '.' in ref and ref not in wanted:
                            wanted.append(ref)
            for ref in wanted:
                alias, attr = ref.split('.', 1)
                v = lean_values.get((j['pypkg'], j['imports'].get(alias)), {}).get(attr)
                if v is not None:
                    env.append((ref, v))
            f = ['rg.mod', cps(bcg.HEADER_COMMENT), cps(j['header']), cps(j['footer']), str(len(env))]
            for k, v in env:
                f += [cps(k), cps(v)]
            f.append(str(len(j['defs'])))
            for d in j['defs']:
                f += d['fields']
            lines.append('\t'.join(f))
        answers = common.driver(lines)
        for j, ans in zip(ready, answers):
            done.add((j['pypkg'], j['name']))
            todo.remove(j)
            mod = j['name']
            if ans.startswith('err:') or ans == 'bad-op':
                raise common.InfraError('driver rg.mod %s: %s' % (mod, ans))
            fs = Fields(ans.split('\t'))
            values = lean_values.setdefault((j['pypkg'], mod), {})
            cls_vals = {}
            if j['real'] is not None:
                for cname, cls in vars(j['real']).items():
                    if isinstance(cls, type) and cls.__module__ == j['real'].__name__:
                        cls_vals.update(vars(cls))
            for d in j['defs']:
                lean_text = common.uncps(fs.take())
                lv = fs.val()
                dn, kind = d['name'], d['kind']
                ctx.count('emit:' + kind)
                ctx.nontriv(('emit', mod, dn))
                # (a) unit correspondence of the emitter: byte-identical to code_writer's writer
                if lean_text != d['impl_text']:
                    report('emit', 'emit:%s.%s' % (mod, dn),
                           'Lean emitter and code_writer disagree on the text of %s (%s) in %s' % (dn, kind, mod),
                           {'module': mod, 'definition': dn, 'kind': kind, 'model': lean_text[:600],
                            'implementation': (d['impl_text'] or '<raised>')[:600]}, False)
                if lv[0] == 's':
                    values[dn] = lv[1]
                # (b) the Lean evaluation of the Lean-emitted text vs the attribute of the imported checked-in module
                if j['real'] is None:
                    continue
                if dn not in cls_vals:
                    continue          # reported by the exhaustive comparison (value:<module>.<name>)
                pv = cls_vals[dn]
                if isinstance(pv, (staticmethod, classmethod)):
                    pv = pv.__func__
                ok = None
                if kind in ('S', 'N', 'T', 'I', 'B', 'L', 'A'):
                    ok = same_value(lv, pv)
                    shown = lean_to_py(lv)
                elif kind == 'D':
                    ok = lv[0] == 'd' and same_dict(lv[1], pv)
                    shown = lv
                elif kind == 'P':
                    shown = lv
                    if lv == ('f', ('x',)) or lv[0] != 'f' or not callable(pv):
                        ok = False
                    else:
                        try:
                            pv = pv(*d['args'])
                            ok = same_value(lv[1], pv)
                        except Exception as e:
                            pv = '%s: %s' % (type(e).__name__, e)
                            ok = False
                ctx.count('value:' + kind)
                if not ok:
                    # the module's value differs from the YAML-derived one only if its text is not what the (agreeing)
                    # emitters produce; otherwise the disagreement is between the Lean evaluator and Python
                    stale = (lean_text == d['impl_text'] and j['cdefs'].get(dn) is not None
                             and j['cdefs'].get(dn).strip() != '\n'.join(
                                 ('    ' + l if l else '') for l in lean_text.splitlines()).strip())
                    report('value', 'lean-value:%s.%s' % (mod, dn),
                           'attribute %s of %s: the value of the imported module differs from the Lean evaluation of the '
                           'Lean-emitted definition (%s)' % (dn, mod, 'checked-in text is not the generated text' if stale
                                                            else 'texts agree: evaluator vs Python'),
                           {'module': mod, 'attribute': dn, 'kind': kind, 'lean_value': repr(shown)[:400],
                            'imported': repr(pv)[:400], 'args': d['args']}, stale)
            lean_file = common.uncps(fs.take())
            ctx.count('emit:module-text')
            if lean_file != j['regen']:
                i = next((k for k in range(min(len(lean_file), len(j['regen']))) if lean_file[k] != j['regen'][k]),
                         min(len(lean_file), len(j['regen'])))
                report('assemble', 'assemble:%s' % mod,
                       'Lean `assemble` and base_code_generator.generate disagree on the text of %s at offset %d' % (mod, i),
                       {'module': mod, 'offset': i, 'model': lean_file[max(0, i - 60):i + 120],
                        'implementation': j['regen'][max(0, i - 60):i + 120]}, False)
    ctx.extra['lean_emitter'] = {'modules': len(done), 'skipped': [j['name'] + ': ' + j['skip'] for j in jobs if 'skip' in j],
                                 'reports': dict(reports)}


def py_eval(src, env):
    """value of a Python expression / ('x',) if Python rejects it"""
    try:
        return ('s', eval(src, dict(env)))
    except BaseException:
        return ('x',)


def evaluator_units(ctx, code_writer, yp, bcg):
    """Unit correspondence of the Lean evaluator and of the `subst` specification against CPython and the real
    `sanitize`, on generated strings (boundary pieces first), plus synthetic definitions of every kind pushed through
    the repository's writers / generate and the Lean emitter + evaluator (text and value)."""
    import types as _t
    r = ctx.rng('evaluator')
    n = 2500 if ctx.thorough else 500
    env = {'A': 'X{', 'AB': "y'\\", 'B': _t.SimpleNamespace(C='z"}')}
    lean_env = [('A', env['A']), ('AB', env['AB']), ('B.C', env['B'].C)]
    envf = [str(len(lean_env))] + [x for k, v in lean_env for x in (cps(k), cps(v))]
    exact = ['a', 'Z', '0', ' ', 'é', '中', '😀', '"', '{{', '}}', '{A}', '{AB}', '{B.C}', '\\\\', "\\'", '\\"', '\\n', '\\t', '\\r',
             '\\b', '\\f', '\\u00e9', '\\u4E2d', '\\d', '\\s', '\\.', '}', '{C}', '(', '|', '\x7f', '\t']
    wild = exact + ['{', "'", '\\a', '\\x41', '\\N', '\\0', '\\U', '{ A }', '{A!r}', '{A:>3}', '{}', '\\{', '\n', '\r', '\\u12', '\\']
    lines, expect, mode = [], [], []
    for i in range(n):
        pool, m = (exact, 'exact') if i % 2 == 0 else (wild, 'wild')
        body = ''.join(r.choice(pool) for _ in range(r.randint(0, 9)))
        lines.append('\t'.join(['rg.evalf', cps(body)] + envf)); expect.append(py_eval("f'" + body + "'", env)); mode.append(m)
        lines.append('rg.evalsq\t' + cps(body)); expect.append(py_eval("'" + body + "'", env)); mode.append(m)
        raw = ''.join(r.choice(['a', ' ', '\\', "\\'", '\\\\', '"', '{', 'é', "'", '\n']) for _ in range(r.randint(0, 7)))
        lines.append('rg.evalraw\t' + cps(raw)); expect.append(py_eval("r'" + raw + "'", env)); mode.append('wild')
        s0 = ''.join(r.choice(['a', 'b\r\nc', '\n', '\r', '\x0b', '\x0c', '\x1c', '\x1d', '\x1e', '\x85', ' ', ' ', ' ', 'é',
                               '\r\n', '\n\r']) for _ in range(r.randint(0, 8)))
        lines.append('rg.split\t' + cps(s0)); expect.append(('l', s0.splitlines())); mode.append('exact')
    # subst (the specification of the theorems) against the real sanitize + CPython's f-string evaluation
    dpieces = ['a', '{A}', '{AB}', '{B.C}', '{{A}}', '{C}', '{2}', '{1,3}', '{', '}', "'", '"', '\\', '\\d', '\n', 'é', '{A', 'A}', '{{', '}}}']
    refsets = [[], ['A'], ['AB', 'A'], ['A', 'AB', 'B.C'], ['B.C'], ['C'], ['A', 'A'], ['A!r'], ['A', 'AB', 'A']]
    for i in range(n):
        d = ''.join(r.choice(dpieces) for _ in range(r.randint(0, 8)))
        refs = r.choice(refsets)
        lines.append('\t'.join(['sanitizet', cps(d)] + [cps(x) for x in refs]))
        expect.append(('s', code_writer.sanitize(d, None, refs))); mode.append('exact')
        if len(set(refs)) == len(refs) and all(re.fullmatch(r'[A-Za-z_]\w*(\.[A-Za-z_]\w*)*', x) for x in refs):
            # hypotheses of nested_regex_faithful hold: the real generator + CPython must agree with `subst`
            lines.append('\t'.join(['rg.subst', cps(d), str(len(refs))] + [cps(x) for x in refs] + envf))
            expect.append(py_eval("f'" + code_writer.sanitize(d, None, refs) + "'", env)); mode.append('exact')
    answers = common.driver(lines)
    outside = 0
    for l, a, e, m in zip(lines, answers, expect, mode):
        op = l.split('\t')[0]
        ctx.count('unit:' + op)
        if op == 'rg.split':
            f = a.split('\t')
            got = ('l', [common.uncps(x) for x in f[1:]])
        else:
            got = ('x',) if a == 'none' else ('s', common.uncps(a))
        if got == e:
            continue
        if m == 'wild' and got == ('x',):
            outside += 1          # outside the modelled fragment: the model may decline, it may not be wrong
            continue
        ctx.report('correspondence', 'unit:' + op, '%s: model %r, CPython/implementation %r' % (op, got, e),
                   failing_input={'op': op, 'fields': [common.uncps(x) if re.fullmatch(r'[\d ]+|-', x) else x
                                                       for x in l.split('\t')[1:4]]}, property_fails=False)
    ctx.extra['evaluator_outside_fragment'] = outside

    # ---- synthetic definitions of every kind through the real writers / generate and the Lean emitter + evaluator
    chars = ['a', 'B', '7', ' ', '{', '}', "'", '"', '\\', '\n', '\t', '\r', '\x0b', '\x85', ' ', 'é', '中', '😀', '\x7f', '\x01', '(', '|',
             ',', ')', ']', '{A}', '{AB}', '{B.C}', '{p}', '{q}', "\\'", '\\\\']

    def rs(lo=0, hi=8):
        return ''.join(r.choice(chars) for _ in range(r.randint(lo, hi)))

    def node(v):
        return _t.SimpleNamespace(value=v)

    def make(kind):
        if kind == 'S':
            return yp.SimpleRegex(rs())
        if kind == 'N':
            return yp.NestedRegex(rs(), r.choice([[], ['A'], ['A', 'AB'], ['B.C', 'A'], ['A', 'A'], ['C']]))
        if kind == 'P':
            return yp.ParamsRegex(rs(), r.choice([[], ['p'], ['p', 'q']]))
        if kind == 'D':
            kt = r.choice(['string', 'char', 'string', 'int', 'bool'])
            vt = r.choice(['string', 'char', 'int', 'long', 'double', 'bool', 'string[]'])
            ent = {}
            for _ in range(r.randint(0, 4)):
                k = rs(0, 4) if kt in ('string', 'char', 'bool') else str(r.randint(0, 50))
                if vt == 'string[]' or r.random() < 0.15:
                    ent[k] = [node(rs(0, 4)) for _ in range(r.randint(0, 3))]
                elif vt in ('string', 'char', 'bool'):
                    ent[k] = rs(0, 5)
                else:
                    ent[k] = r.choice(['0', '7', '-3', '1.5', '-0.25', '12', '007', '1e3', '00', '3.'])
            return yp.Dictionary(kt, vt, ent)
        if kind == 'L':
            return yp.List(r.choice(['string', 'char', 'string', 'int']), [rs(0, 5) for _ in range(r.randint(0, 4))])
        if kind == 'A':
            return [rs(0, 5) for _ in range(r.randint(0, 4))]
        if kind == 'B':
            return r.random() < 0.5
        if kind == 'I':
            return r.choice([0, 7, -12, 1500, 10 ** 12])
        return rs()

    real_parse = bcg.parse
    scratch = os.path.join(common.VERIF, '.scratch', 'c18u-%d' % os.getpid())
    os.makedirs(scratch, exist_ok=True)
    some_yaml = os.path.join(scratch, 'empty.yaml')
    open(some_yaml, 'w').close()
    cases = []
    try:
        nsyn = 1500 if ctx.thorough else 400
        fixed = [('T', '{'), ('T', "it's {x}"), ('D', yp.Dictionary('string', 'string[]', {'k': [node('😀')]})),
                 ('L', yp.List('string', ['a\\'])), ('L', yp.List('string', ["\\'a"])), ('L', yp.List('string', ["o'clock"])),
                 ('N', yp.NestedRegex('{A}', ['A', 'A'])), ('D', yp.Dictionary('string', 'string', {})),
                 ('L', yp.List('string', [])), ('P', yp.ParamsRegex('(?={p})x{2}', ['p'])),
                 ('S', yp.SimpleRegex('a b')), ('D', yp.Dictionary('string', 'string', {'a\nb': 'c'}))]
        for i in range(nsyn):
            kind, tok = fixed[i] if i < len(fixed) else (None, None)
            if kind is None:
                kind = r.choice('SSNNNPDDDLLABIT')
                tok = make(kind)
            name = 'D%d' % i
            root = {name: tok}
            bcg.parse = lambda f, root=root: root
            out = os.path.join(scratch, 'm.py')
            bcg.generate(some_yaml, out, 'class _C:', '')
            text = open(out, encoding='utf-8').read()
            impl_text = code_writer.generate_code(root)[0].write()
            args = [r.choice(['\\D|\\b', '', '{', "'", 'x']) for _ in range(len(tok.params))] if kind == 'P' else []
            _k, fields = encode_definition(name, tok, yp, lambda n, args=args: args)
            ns = dict(env)
            try:
                exec(compile(text, 'synthetic', 'exec'), ns)
                pv = vars(ns['_C'])[name]
                if kind == 'P':
                    pv = pv(*args)
                pyv = ('ok', pv)
            except BaseException as e:
                pyv = ('x', type(e).__name__)
            cases.append((kind, name, tok, fields, impl_text, text, pyv, args))
    finally:
        bcg.parse = real_parse
        import shutil
        shutil.rmtree(scratch, ignore_errors=True)
    lines = []
    for kind, name, tok, fields, impl_text, text, pyv, args in cases:
        lines.append('\t'.join(['rg.mod', cps(bcg.HEADER_COMMENT), cps('class _C:'), '-'] + envf + ['1'] + fields))
    answers = common.driver(lines)
    declined = 0
    for (kind, name, tok, fields, impl_text, text, pyv, args), ans in zip(cases, answers):
        fs = Fields(ans.split('\t'))
        lean_text = common.uncps(fs.take())
        lv = fs.val()
        lean_file = common.uncps(fs.take())
        ctx.count('synthetic:' + kind)
        ctx.nontriv(('synthetic', impl_text))
        shown = {'kind': kind, 'definition': impl_text[:300], 'args': args}
        if lean_text != impl_text:
            ctx.report('correspondence', 'synthetic-emit:' + kind, 'Lean emitter and code_writer disagree on a synthetic %s definition' % kind,
                       failing_input=dict(shown, model=lean_text[:300]), property_fails=False)
            continue
        if lean_file != text:
            ctx.report('correspondence', 'synthetic-assemble:' + kind, 'Lean assemble and generate disagree on a synthetic %s definition' % kind,
                       failing_input=dict(shown, model=lean_file[-300:], implementation=text[-300:]), property_fails=False)
            continue
        if kind == 'P':
            lv = lv[1] if lv[0] == 'f' else lv
        if lv == ('x',):
            if pyv[0] == 'x':
                continue
            declined += 1
            # the evaluator may decline only what it documents as outside its fragment: unquoted keys/values that are
            # not numbers or booleans are kept as text (tag 'o'), never declined; so a decline on valid Python is a gap
            ctx.report('correspondence', 'synthetic-declined:' + kind,
                       'the Lean evaluator rejects a definition that CPython evaluates', failing_input=dict(shown, python=repr(pyv[1])[:200]),
                       property_fails=False)
            continue
        if pyv[0] == 'x':
            ok = lv[0] == 'd' and any(k[0] == 'o' or v[0] == 'o' for k, v in lv[1])   # e.g. `007`: text the model does not judge
            if not ok:
                ctx.report('correspondence', 'synthetic-value:' + kind, 'the Lean evaluator accepts a definition CPython rejects (%s)' % pyv[1],
                           failing_input=dict(shown, model=repr(lv)[:200]), property_fails=False)
            continue
        if kind == 'D':
            if any(k[0] == 'o' or v[0] == 'o' for k, v in lv[1]) if lv[0] == 'd' else False:
                continue
            ok = lv[0] == 'd' and same_dict(lv[1], pyv[1])
        else:
            ok = same_value(lv, pyv[1])
        if not ok:
            ctx.report('correspondence', 'synthetic-value:' + kind, 'Lean evaluation and CPython disagree on the value of a synthetic %s definition' % kind,
                       failing_input=dict(shown, model=repr(lv)[:200], python=repr(pyv[1])[:200]), property_fails=False)
    ctx.extra['synthetic_definitions'] = len(cases)



def correspond(ctx):
    common.setup_repo_imports()
    gen_dir = os.path.join(common.REPO, 'Python', 'libraries', 'resource-generator')
    sys.path.insert(0, gen_dir)
    for m in [m for m in sys.modules if m == 'lib' or m.startswith('lib.')]:
        # our own harness package is also called `lib`: load the generator's under a private name instead
        pass
    import importlib.util
    def load(name, path):
        spec = importlib.util.spec_from_file_location(name, path)
        mod = importlib.util.module_from_spec(spec)
        sys.modules[name] = mod
        spec.loader.exec_module(mod)
        return mod
    pkg = types.ModuleType('rgenlib')
    pkg.__path__ = [os.path.join(gen_dir, 'lib')]
    sys.modules['rgenlib'] = pkg
    yaml_parser = load('rgenlib.yaml_parser', os.path.join(gen_dir, 'lib', 'yaml_parser.py'))
    code_writer = load('rgenlib.code_writer', os.path.join(gen_dir, 'lib', 'code_writer.py'))
    bcg = load('rgenlib.base_code_generator', os.path.join(gen_dir, 'lib', 'base_code_generator.py'))
    scratch = os.path.join(common.VERIF, '.scratch', 'c18-%d' % os.getpid())
    os.makedirs(scratch, exist_ok=True)
    modules = identical = 0
    jobs = []
    try:
        for p in PACKAGES:
            base = os.path.join(common.REPO, 'Python', 'libraries', p)
            try:
                specs = json.load(open(os.path.join(base, 'resource-definitions.json')))
            except Exception as e:
                ctx.report('property', 'resource-definitions-unreadable:' + p, '%s: %s' % (type(e).__name__, e),
                           failing_input={'package': p}, property_fails=True)
                continue
            outdir = os.path.normpath(os.path.join(base, specs['outputPath']))
            pyname = os.path.basename(os.path.dirname(outdir + os.sep + 'x').rstrip(os.sep))
            pypkg = os.path.basename(os.path.dirname(outdir)) + '.' + os.path.basename(outdir)
            for cfg in specs['configFiles']:
                modules += 1
                name = cfg['output']
                inp = os.path.join(common.REPO, 'Patterns', *cfg['input']) + '.yaml'
                checked_in = os.path.join(outdir, name + '.py')
                tmp = os.path.join(scratch, name + '.py')
                ctx.count('module')
                # exact path check (case-sensitive file systems): the input named by the definitions must exist
                if not os.path.exists(inp) or os.path.basename(inp) not in os.listdir(os.path.dirname(inp)):
                    ctx.report('property', 'input-missing:%s' % name,
                               'resource-definitions names %s which does not exist (letter case?)' % os.path.relpath(inp, common.REPO),
                               failing_input={'package': p, 'output': name, 'input': inp}, property_fails=True)
                    continue
                try:
                    bcg.generate(inp, tmp, '\n'.join(cfg['header']), '\n'.join(cfg['footer']))
                    regen = open(tmp, encoding='utf-8').read()
                except Exception as e:
                    ctx.report('property', 'generator-error:%s' % name, '%s: %s' % (type(e).__name__, e),
                               failing_input={'package': p, 'output': name}, property_fails=True)
                    continue
                try:
                    current = open(checked_in, encoding='utf-8').read()
                except FileNotFoundError:
                    ctx.report('property', 'module-missing:%s' % name, 'checked-in module missing',
                               failing_input={'package': p, 'output': name}, property_fails=True)
                    continue
                rdefs, cdefs = split_definitions(regen), split_definitions(current)
                job = {'package': p, 'pypkg': pypkg, 'name': name, 'input': inp, 'header': '\n'.join(cfg['header']),
                       'footer': '\n'.join(cfg['footer']), 'regen': regen, 'current': current, 'cdefs': cdefs,
                       'real': None}
                jobs.append(job)
                for d in rdefs:
                    ctx.nontriv((name, d))
                ctx.count('definition', len(set(rdefs) | set(cdefs)))
                if regen == current:
                    identical += 1
                else:
                    names = [d for d in list(rdefs) + [c for c in cdefs if c not in rdefs] if rdefs.get(d) != cdefs.get(d)]
                    for d in names[:10]:
                        ctx.report('property', 'stale:%s.%s' % (name, d),
                                   'definition %s of %s differs from what the generator produces from %s' % (
                                       d, os.path.relpath(checked_in, common.REPO), os.path.relpath(inp, common.REPO)),
                                   failing_input={'module': name, 'definition': d, 'regenerated': (rdefs.get(d) or '')[:600],
                                                  'checked_in': (cdefs.get(d) or '')[:600]}, property_fails=True)
                    if not names:
                        ctx.report('property', 'stale-text:%s' % name, 'module text differs outside definitions (header/footer)',
                                   failing_input={'module': name}, property_fails=True)
                # values: the module the recognisers import vs the regenerated source evaluated in the same package
                try:
                    real = importlib.import_module(pypkg + '.' + name)
                    common.assert_tree_modules(real)
                    job['real'] = real
                    rv = class_values(exec_as(pypkg, name, regen))
                    cv = class_values(real)
                    for k in sorted(set(rv) | set(cv)):
                        if rv.get(k, '<missing>') != cv.get(k, '<missing>'):
                            ctx.report('property', 'value:%s.%s' % (name, k),
                                       'attribute %s of %s: imported value differs from the regenerated one' % (k, name),
                                       failing_input={'module': name, 'attribute': k, 'regenerated': repr(rv.get(k))[:400],
                                                      'imported': repr(cv.get(k))[:400]}, property_fails=True)
                except common.InfraError:
                    raise
                except Exception as e:
                    ctx.report('property', 'import-error:%s' % name, '%s: %s' % (type(e).__name__, e),
                               failing_input={'module': name}, property_fails=True)
                if len(ctx.samples) < 4:
                    k = sorted(rdefs)[len(rdefs) // 2] if rdefs else None
                    ctx.sample({'module': name, 'definitions': len(rdefs), 'identical_text': regen == current,
                                'example_definition': (rdefs.get(k) or '')[:160]})
            # every checked-in resource module must be produced by SOME definitions entry: a module dropped from
            # resource-definitions.json (or added by hand) is no longer tied to the Patterns YAML at all
            listed = {cfg['output'] for cfg in specs['configFiles']}
            try:
                present = sorted(f[:-3] for f in os.listdir(outdir) if f.endswith('.py') and f != '__init__.py')
            except OSError:
                present = []
            for name in present:
                ctx.count('checked-in module')
                if name not in listed:
                    ctx.report('property', 'orphan-module:%s' % name,
                               '%s is a checked-in resource module that no entry of %s/resource-definitions.json generates: '
                               'its definitions are not tied to Patterns/*.yaml' % (
                                   os.path.relpath(os.path.join(outdir, name + '.py'), common.REPO), p),
                               failing_input={'package': p, 'module': name, 'listed_outputs': sorted(listed)},
                               property_fails=True)
    finally:
        import shutil
        shutil.rmtree(scratch, ignore_errors=True)
    ctx.extra.update({'programs': modules, 'modules_identical_text': identical, 'exhaustive': True,
                      'disagreements_checked': len(ctx.breaks)})

    # ---- the Lean reference emitter + evaluator on every definition of every module (exhaustive)
    emitter_correspondence(ctx, yaml_parser, code_writer, bcg, jobs)
    evaluator_units(ctx, code_writer, yaml_parser, bcg)

    # ---- unit correspondence of the Lean emitter model against lib/code_writer.py
    r = ctx.rng('sanitize')
    pool = ['a', 'B', '0', ' ', '{', '}', "'", '"', '\\', 'n', '\n', '\t', 'é', '中', ' ', '(', '?', '<', '|', '\x7f', '\x01',
            ' ', '😀']
    strs = ['', '{', '}', '{}', "'", '"', '\\', "\\'", '{{x}}', '\\d+', "it's", 'a{BaseX}b']
    for _ in range(3000 if ctx.thorough else 600):
        strs.append(''.join(r.choice(pool) for _ in range(r.randint(1, 12))))
    lines, impl = [], []
    for s in strs:
        lines.append('sanitize\t' + cps(s))
        impl.append(cps(code_writer.sanitize(s)))
        lines.append('centry\t' + cps(s))
        impl.append(cps(code_writer.create_entry(s, 'string')))
    model = common.driver(lines)
    ctx.count('sanitize/create_entry', len(lines))
    for l, a, b in zip(lines, impl, model):
        if a != b:
            s = common.uncps(l.split('\t')[1])
            # does the implementation's output still evaluate (as Python would) to the original? that is the property
            op = l.split('\t')[0]
            try:
                if op == 'sanitize':
                    back = eval("f'" + common.uncps(a) + "'")
                else:
                    back = eval(common.uncps(a))
                bad = back != s
            except Exception:
                bad = True
            ctx.report('correspondence', op, '%s(%r): implementation %r, model %r' % (op, s, common.uncps(a), common.uncps(b)),
                       failing_input={'op': op, 'input': s, 'implementation': common.uncps(a), 'model': common.uncps(b),
                                      'evaluates_back': not bad}, property_fails=bad)
