"""Table-level tie of C04 that does not depend on any numeral generator: every key of the Cardinal / Ordinal number
maps — read from the cross-platform source Patterns/<Lang>/<Lang>-Numbers.yaml *and* from the regenerated module, so
that a key deleted from the module is still asked — recognised ALONE as its own (YAML) value by recognize_number /
recognize_ordinal.  Keys that are not stand-alone numerals on the unchanged tree (articles, abbreviations, suffix
forms …) are listed in the committed contract harness/corr/c04_keys_contract.json and not demanded."""
import json
import os
import re

from lib import common

LANGS = {'en-us': 'English', 'es-es': 'Spanish', 'fr-fr': 'French', 'pt-br': 'Portuguese', 'de-de': 'German',
         'it-it': 'Italian', 'nl-nl': 'Dutch'}
CONTRACT = os.path.join(os.path.dirname(os.path.abspath(__file__)), 'c04_keys_contract.json')


def _unquote(k):
    k = k.strip()
    if len(k) >= 2 and k[0] == k[-1] and k[0] in '\'"':
        body = k[1:-1]
        if k[0] == '"':
            body = re.sub(r'\\u([0-9a-fA-F]{4})', lambda m: chr(int(m.group(1), 16)), body).replace('\\\\', '\\')
        else:
            body = body.replace("''", "'")
        return body
    return k


def yaml_maps(lang):
    """{'CardinalNumberMap': {key: value}, 'OrdinalNumberMap': …, 'RoundNumberMap': …} from the Patterns YAML
    (a minimal reader for the `!dictionary` blocks: `entries:` followed by `key: number` lines)."""
    path = os.path.join(common.REPO, 'Patterns', lang, '%s-Numbers.yaml' % lang)
    out = {}
    cur = None
    in_entries = False
    with open(path, encoding='utf-8-sig') as f:
        for line in f:
            raw = line.rstrip('\n')
            m = re.match(r'^(\w+):\s*!dictionary', raw)
            if m:
                cur = m.group(1) if m.group(1) in ('CardinalNumberMap', 'OrdinalNumberMap', 'RoundNumberMap') else None
                in_entries = False
                if cur:
                    out[cur] = {}
                continue
            if cur is None:
                continue
            if re.match(r'^\s+entries:\s*$', raw):
                in_entries = True
                continue
            if raw.strip() == '' or raw.lstrip().startswith('#'):
                continue
            if not raw.startswith(' '):
                cur = None
                continue
            if in_entries:
                m = re.match(r'^\s+(.+?):\s*(-?[0-9.]+)\s*(#.*)?$', raw)
                if m:
                    v = m.group(2)
                    out[cur][_unquote(m.group(1))] = int(v) if re.match(r'^-?\d+$', v) else float(v)
    return out


def load_contract():
    try:
        return json.load(open(CONTRACT, encoding='utf-8'))
    except FileNotFoundError:
        return {}


def key_jobs(cfg_of):
    """-> list of (culture, map name, key, expected value, kind) over YAML ∪ module keys (integer values only)."""
    jobs = []
    for cu, lang in LANGS.items():
        ym = yaml_maps(lang)
        cfg = cfg_of(cu)
        for name, kind, mod in (('CardinalNumberMap', 'number', dict(cfg.cardinal_number_map)),
                                ('OrdinalNumberMap', 'ordinal', dict(cfg.ordinal_number_map))):
            merged = dict(mod)
            merged.update(ym.get(name, {}))          # the YAML value is the expected one
            for k, v in merged.items():
                if isinstance(v, int) and not isinstance(v, bool) and v >= 0 and k == k.strip() and k:
                    jobs.append((cu, name, k.lower(), v, kind))
    return jobs
