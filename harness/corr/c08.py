"""C08 — relative date expressions are calendar arithmetic on the reference date.

Tie: (unit) CPython's calendar and the datedelta shim vs RTV.Model.Cal; DateUtils.this/next/last,
AgoLaterUtil.get_date_result, BaseDateParser.parse_implicit_date (special days, next/this/last weekday),
BaseDatePeriodParser._parse_one_word_period (week/month/year) and parse_basic_regex('now') of the working tree vs
RTV.Model.DateUtils through the Lean driver; (pipeline) recognize_datetime(expr, 'en-us', reference=R) vs the
property statement computed independently here and vs the model's prediction."""
import calendar
import datetime as dt

from lib import common, calcorr
from lib.calcorr import fmt_dt, ref_fields, guarded, at

PROP = 'C08'
LEVEL = 'proof'
PROPS_MODULES = ['RTV.Props.C08']
GEN = []
REQUIRED_THEOREMS = ['this_in_iso_week', 'next_is_following_week', 'last_is_preceding_week', 'today_is_reference_date',
                     'tomorrow_is_next_day', 'yesterday_is_previous_day', 'n_days_ago', 'in_n_days', 'n_weeks_is_7n_days',
                     'this_week_is_monday_to_monday', 'week_timex_matches_isocalendar', 'year_period',
                     'month_period_partial', 'month_period_fixed', 'next_month_fails_on_day_overflow', 'now_is_reference']
RULE = ('unit: every ordinal of 1950..2090 + stride 97 over 0001..9999 (thorough: every ordinal) for ord2ymd/weekday/'
        'isocalendar; datedelta shim x 22 deltas on boundary days + all days of 2019-2021; this/next/last on every day of '
        '1950..2090 x dow 0..7; get_date_result D/W/MON/Y x N x both directions; parse_implicit_date and '
        '_parse_one_word_period on boundary days (month ends/starts, leap days, year boundaries, ISO week 52/53/1, all '
        'weekdays) + seeded days x reference times {00:00:00, 14:30:00, 23:59:59}; pipeline: recognize_datetime on the '
        'families of the property x boundary-first references x N in {1,2,7,30,365,5000} + seeded; non-trivial = a '
        'distinct (family, expression, reference) case that produced an entity')
ASSUMPTIONS = ['datedelta is absent from the sandbox: harness/shims/datedelta implements the documented semantics '
               '(roll forward to the 1st when adding, clamp to month end when subtracting); the next-month finding '
               'depends on it', 'English culture only at pipeline level (the arithmetic is culture independent; '
               'get_swift_* of other cultures is not modelled)',
               'early/mid/late prefixes, weekend, month-to-date/year-to-date branches of _parse_one_word_period are '
               'not modelled (monitored by C11/C19)']

FINGERPRINTS = {'DateUtils.this': '6ae1c138c40e9f11', 'DateUtils.next': 'cf69080177d11982', 'DateUtils.last': '7e979dffc1250d33',
                'DateUtils.safe_create_from_value': '7911b510a7fb4914', 'DateUtils.is_valid_date': 'b009b164560df4ab',
                'AgoLaterUtil.get_date_result': 'ce946d43a40675ee', 'DateTimeFormatUtil.luis_date': 'c0bdccb0169441fc',
                'BaseDateParser.parse_implicit_date': '4f2120247cbf4084',
                'BaseDatePeriodParser._parse_one_word_period': 'bc7552d8c95daa64',
                'BaseDateTimeParser.parse_basic_regex': 'fb42b4e84e270260'}
EXPLANATION = ('Lean theorems about the model of the date arithmetic (every reference, every N, no bound) + correspondence '
               'of that model with the working tree (CPython calendar, datedelta shim, DateUtils, AgoLaterUtil, the two '
               'parser functions; unit + pipeline) + the property computed independently on recognize_datetime output. '
               'A tree that follows the repaired month variant (shift the first of the month) is accepted silently.')
WEEKDAYS = ['monday', 'tuesday', 'wednesday', 'thursday', 'friday', 'saturday', 'sunday']
SPECIAL = [('today', 0), ('tomorrow', 1), ('yesterday', -1)]
SWIFTS = [('this', 0), ('next', 1), ('last', -1)]
NS = [1, 2, 7, 30, 365, 5000]

# the negative witnesses proved in RTV/Props/C08.lean (replayed on the implementation every run)
WITNESS_NEXT_MONTH = dt.datetime(2020, 1, 31, 0, 0, 0)


# ------------------------------------------------------------------ the property, stated independently

def monday_of(d):
    return d - dt.timedelta(days=d.isoweekday() - 1)


def iso(d):
    return '%04d-%02d-%02d' % (d.year, d.month, d.day)


def shift_month(y, m, k):
    t = y * 12 + (m - 1) + k
    return t // 12, t % 12 + 1


def oracle(fam, par, R):
    """Expected `values` list of the property for family `fam` with parameters `par` at reference R."""
    today = R.date()
    if fam == 'special':
        v = today + dt.timedelta(days=par)
        return [{'timex': iso(v), 'type': 'date', 'value': iso(v)}]
    if fam == 'ago':
        unit, n, sign = par
        v = today + dt.timedelta(days=sign * n * (7 if unit == 'week' else 1))
        return [{'timex': iso(v), 'type': 'date', 'value': iso(v)}]
    if fam == 'weekday':
        k, wd = par           # wd: 1..7
        v = monday_of(today) + dt.timedelta(days=7 * k + wd - 1)
        return [{'timex': iso(v), 'type': 'date', 'value': iso(v)}]
    if fam == 'week':
        s = monday_of(today) + dt.timedelta(days=7 * par)
        e = s + dt.timedelta(days=7)
        ic = s.isocalendar()
        return [{'timex': '%04d-W%02d' % (ic[0], ic[1]), 'type': 'daterange', 'start': iso(s), 'end': iso(e)}]
    if fam == 'month':
        y, m = shift_month(today.year, today.month, par)
        y2, m2 = shift_month(y, m, 1)
        return [{'timex': '%04d-%02d' % (y, m), 'type': 'daterange', 'start': iso(dt.date(y, m, 1)),
                 'end': iso(dt.date(y2, m2, 1))}]
    if fam == 'year':
        y = today.year + par
        return [{'timex': '%04d' % y, 'type': 'daterange', 'start': '%04d-01-01' % y, 'end': '%04d-01-01' % (y + 1)}]
    if fam == 'now':
        return [{'timex': 'PRESENT_REF', 'type': 'datetime', 'value': R.strftime('%Y-%m-%d %H:%M:%S')}]
    raise KeyError(fam)


def model_line(fam, par, R):
    rf = ref_fields(R)
    if fam == 'special':
        return 'du.special\t%s\t%d' % (rf, par)
    if fam == 'ago':
        unit, n, sign = par
        return 'du.ago\t%s\t%d\t%s\t%d' % ('W' if unit == 'week' else 'D', n, rf, 1 if sign > 0 else 0)
    if fam == 'weekday':
        k, wd = par
        return 'du.wd\t%s\t%s\t%d' % ({0: 'this', 1: 'next', -1: 'last'}[k], rf, wd % 7)   # culture map: sunday = 0
    if fam in ('week', 'month', 'year'):
        return 'du.%s\t%s\t%d' % (fam, rf, par)
    return None


def pad_date(s):
    """driver `Y-M-D@secs` -> `YYYY-MM-DD`."""
    y, m, d = s.split('@')[0].split('-')
    return '%04d-%02d-%02d' % (int(y), int(m), int(d))


def model_values(fam, ans):
    """What the model predicts the pipeline prints (the resolution step formats dates with luis_date)."""
    if ans.startswith('err:') or ans == 'bad-op':
        return ans
    f = ans.split('\t')
    if fam in ('special', 'ago', 'weekday'):
        return [{'timex': f[0], 'type': 'date', 'value': pad_date(f[1])}]
    return [{'timex': f[0], 'type': 'daterange', 'start': pad_date(f[1]), 'end': pad_date(f[2])}]


def month_overflow(fam, par, R):
    if fam != 'month' or par <= 0:
        return False
    y, m = shift_month(R.year, R.month, par)
    return R.day > calendar.monthrange(y, m)[1]


# ------------------------------------------------------------------ unit level

def unit_dateutils(ctx, DateUtils, days):
    lines, impl = [], []
    for i, d in enumerate(days):
        R = at(d, calcorr.TIMES[i % 3])
        rf = ref_fields(R)
        for dow in range(0, 8):
            for name, fn in (('this', DateUtils.this), ('next', DateUtils.next), ('last', DateUtils.last)):
                lines.append('du.%s\t%s\t%d' % (name, rf, dow))
                impl.append(fmt_dt(fn(R, dow)))
    for R in (dt.datetime(1, 1, 1), dt.datetime(1, 1, 3, 5), dt.datetime(1, 1, 9), dt.datetime(9999, 12, 31, 1),
              dt.datetime(9999, 12, 27), dt.datetime(9999, 12, 20)):
        for dow in range(0, 8):
            for name, fn in (('this', DateUtils.this), ('next', DateUtils.next), ('last', DateUtils.last)):
                lines.append('du.%s\t%s\t%d' % (name, ref_fields(R), dow))
                impl.append(guarded(lambda: fmt_dt(fn(R, dow))))
    model = common.driver(lines)
    ctx.count('DateUtils.this/next/last', len(lines))
    for l, a, b in zip(lines, impl, model):
        if a != b:
            f = l.split('\t')
            R = dt.datetime(int(f[1]), int(f[2]), int(f[3])) + dt.timedelta(seconds=int(f[4]))
            k = {'du.this': 0, 'du.next': 1, 'du.last': -1}[f[0]]
            want = None
            if not a.startswith('err'):
                want = fmt_dt(monday_of(R) + dt.timedelta(days=7 * k + (int(f[5]) or 7) - 1))
            ctx.report('correspondence', 'dateutils-' + f[0][3:], '%s: implementation %s, model %s, property %s' % (
                l, a, b, want), failing_input={'op': l, 'implementation': a, 'model': b, 'property_expects': want},
                property_fails=(want is not None and a != want))
            break
    ctx.sample({'op': lines[1000], 'implementation': impl[1000]})


def unit_agolater(ctx, days):
    from recognizers_date_time.date_time.utilities import AgoLaterUtil, AgoLaterMode
    r = ctx.rng('ago-unit')
    lines, impl = [], []
    for i, d in enumerate(days):
        R = at(d, calcorr.TIMES[i % 3])
        for unit in ('D', 'W', 'MON', 'Y'):
            for n in (NS if i % 5 == 0 else [NS[i % 6], r.randint(1, 5000)]):
                if unit in ('MON', 'Y') and n > 400:
                    n = n % 400 + 1
                for fut in (True, False):
                    lines.append('du.ago\t%s\t%d\t%s\t%d' % (unit, n, ref_fields(R), 1 if fut else 0))

                    def run():
                        res = AgoLaterUtil.get_date_result(unit, n, R, fut, AgoLaterMode.DATE)
                        return '%s\t%s' % (res.timex, fmt_dt(res.future_value)) if res.success else 'no'
                    impl.append(guarded(run))
    model = common.driver(lines)
    ctx.count('AgoLaterUtil.get_date_result', len(lines))
    for l, a, b in zip(lines, impl, model):
        if a != b:
            ctx.report('correspondence', 'agolater-get_date_result', '%s: implementation %s, model %s' % (l, a, b),
                       failing_input={'op': l, 'implementation': a, 'model': b})
            break
    ctx.sample({'op': lines[len(lines) // 3], 'implementation': impl[len(impl) // 3]})


def unit_parsers(ctx, days):
    """parse_implicit_date / _parse_one_word_period / parse_basic_regex called directly."""
    from recognizers_date_time.date_time.english.common_configs import EnglishCommonDateTimeParserConfiguration
    cfg = EnglishCommonDateTimeParserConfiguration()
    dp, pp, dtp = cfg.date_parser, cfg.date_period_parser, cfg.date_time_parser
    dow_map = dict(dp.config.day_of_week)
    names = sorted(dow_map)
    lines, impl, meta = [], [], []

    def res2(r):
        return '%s\t%s' % (r.timex, fmt_dt(r.future_value)) if r.success and r.future_value == r.past_value else 'no:%r' % r.success

    def res3(r):
        if not r.success or r.future_value != r.past_value:
            return 'no'
        return '%s\t%s\t%s' % (r.timex, fmt_dt(r.future_value[0]), fmt_dt(r.future_value[1]))
    for i, d in enumerate(days):
        R = at(d, calcorr.TIMES[i % 3])
        rf = ref_fields(R)
        for expr, sw in SPECIAL + [('the day after tomorrow', 2), ('the day before yesterday', -2)]:
            lines.append('du.special\t%s\t%d' % (rf, sw))
            impl.append(guarded(lambda: res2(dp.parse_implicit_date(expr, R))))
            meta.append(expr)
        for pre, _ in SWIFTS:
            for nm in (names if i % 4 == 0 else WEEKDAYS):
                lines.append('du.wd\t%s\t%s\t%d' % (pre, rf, dow_map[nm]))
                impl.append(guarded(lambda: res2(dp.parse_implicit_date(pre + ' ' + nm, R))))
                meta.append(pre + ' ' + nm)
        for pre, sw in SWIFTS:
            for unit in ('week', 'month', 'year'):
                lines.append('du.%s\t%s\t%d' % (unit, rf, sw))
                impl.append(guarded(lambda: res3(pp._parse_one_word_period(pre + ' ' + unit, R))))
                meta.append(pre + ' ' + unit)
        if i % 7 == 0:
            r = dtp.parse_basic_regex('now', R)
            if not (r.success and r.timex == 'PRESENT_REF' and r.future_value == R and r.past_value == R):
                ctx.report('property', 'now-not-reference', "parse_basic_regex('now', %s) -> %r %r" % (R, r.timex, r.future_value),
                           failing_input={'expression': 'now', 'reference': str(R)}, property_fails=True)
            ctx.count('parse_basic_regex(now)')
    model = common.driver(lines)
    ctx.count('parse_implicit_date/_parse_one_word_period', len(lines))
    diff = [i for i, (a, b) in enumerate(zip(impl, model)) if a != b]
    mdiff = [i for i in diff if lines[i].startswith('du.month\t')]
    if mdiff:
        # does the tree follow the repaired variant (shift the first of the month)?  DESIGN 2.5
        fixed = common.driver([lines[i].replace('du.month\t', 'du.monthfixed\t', 1) for i in mdiff])
        ok = {i for i, f in zip(mdiff, fixed) if impl[i] == f}
        if len(ok) == len(mdiff):
            ctx.extra['month_period_variant'] = 'repaired (first of the month shifted)'
        diff = [i for i in diff if i not in ok]
    else:
        ctx.extra['month_period_variant'] = 'current (reference + datedelta(months=swift))'
    for i in diff[:3]:
        ctx.report('correspondence', 'parser-' + lines[i].split('\t')[0][3:], '%s (%r): implementation %s, model %s' % (
            lines[i], meta[i], impl[i], model[i]),
            failing_input={'op': lines[i], 'expression': meta[i], 'implementation': impl[i], 'model': model[i]})
    ctx.sample({'op': lines[7], 'expression': meta[7], 'implementation': impl[7]})


# ------------------------------------------------------------------ pipeline level

def ago_forms(n, r):
    day = 'day' if n == 1 else 'days'
    week = 'week' if n == 1 else 'weeks'
    return [('%d %s ago' % (n, day), ('day', n, -1)), ('in %d %s' % (n, day), ('day', n, 1)),
            ('%d %s from now' % (n, day), ('day', n, 1)), ('%d %s ago' % (n, week), ('week', n, -1)),
            ('in %d %s' % (n, week), ('week', n, 1))]


def build_cases(ctx):
    r = ctx.rng('pipeline')
    bdays = calcorr.boundary_days()
    n_b, n_s = (700, 500) if ctx.thorough else (190, 90)
    picked = r.sample(bdays, min(n_b, len(bdays))) + calcorr.seeded_days(r, n_s)
    # the month-end days at which the recorded finding lives must always be present
    must = [dt.date(2020, 1, 31), dt.date(2019, 1, 29), dt.date(2021, 8, 31), dt.date(2024, 2, 29), dt.date(2020, 12, 31),
            dt.date(2021, 1, 3), dt.date(2026, 12, 31), dt.date(2000, 2, 29)]
    refs = [WITNESS_NEXT_MONTH] + [at(d, calcorr.TIMES[i % 3]) for i, d in enumerate(must + picked)]
    cases = []
    for i, R in enumerate(refs):
        for expr, sw in SPECIAL:
            cases.append((expr, R, 'special', sw))
        for pre, k in SWIFTS:
            for wi, nm in enumerate(WEEKDAYS):
                if ctx.thorough or i < 40 or (wi + i) % 2 == 0 or wi == R.weekday():
                    cases.append(('%s %s' % (pre, nm), R, 'weekday', (k, wi + 1)))
            for unit in ('week', 'month', 'year'):
                cases.append(('%s %s' % (pre, unit), R, unit, k))
        cases.append(('now', R, 'now', None))
        ns = [NS[i % 6], r.randint(1, 5000)] if i >= 12 else NS
        for n in ns:
            for expr, par in ago_forms(n, r):
                cases.append((expr, R, 'ago', par))
    return cases


def pipeline(ctx):
    cases = build_cases(ctx)
    results = calcorr.run_pipeline([(c[0], c[1]) for c in cases])
    mlines, midx = [], []
    for i, (expr, R, fam, par) in enumerate(cases):
        l = model_line(fam, par, R)
        if l:
            mlines.append(l)
            midx.append(i)
        if fam == 'month':
            mlines.append('du.monthfixed\t%s\t%d' % (ref_fields(R), par))
            midx.append(-i - 1)
    answers = common.driver(mlines)
    model, fixed = {}, {}
    for i, a in zip(midx, answers):
        if i >= 0:
            model[i] = a
        else:
            fixed[-i - 1] = a
    fam_hist = {}
    for i, ((expr, R, fam, par), res) in enumerate(zip(cases, results)):
        ctx.count('pipeline:' + fam)
        want = oracle(fam, par, R)
        ent = calcorr.whole_entity(res, expr)
        got = ent[4] if ent else None
        if got is not None:
            ctx.nontriv((fam, expr, str(R)))
        fi = {'op': 'recognize_datetime', 'query': expr, 'culture': 'en-us', 'reference': R.strftime('%Y-%m-%d %H:%M:%S'),
              'family': fam, 'implementation': got if ent else res, 'property_expects': want}
        mv = model_values(fam, model[i]) if i in model else want
        if i in model:
            fi['model'] = mv
        if got != want:
            if month_overflow(fam, par, R) and got == mv:
                sig = 'next-month-day-overflow'
            else:
                sig = 'relative-%s' % fam
            ctx.report('property', sig, '%r at %s: got %r, the property states %r' % (expr, fi['reference'], got, want),
                       failing_input=fi, property_fails=True)
        elif fam == 'month' and mv != got:
            # the tree follows the repaired variant (first of the month shifted): fine, as long as it is that variant
            if model_values(fam, fixed[i]) != got:
                ctx.report('correspondence', 'pipeline-month', '%r at %s: implementation %r, model %r' % (
                    expr, fi['reference'], got, mv), failing_input=fi)
        elif mv != got:
            ctx.report('correspondence', 'pipeline-' + fam, '%r at %s: implementation %r, model %r' % (
                expr, fi['reference'], got, mv), failing_input=fi)
        fam_hist[fam] = fam_hist.get(fam, 0) + 1
    ctx.sample({'query': cases[5][0], 'reference': str(cases[5][1]), 'implementation': results[5]})
    ctx.sample({'query': cases[-1][0], 'reference': str(cases[-1][1]), 'implementation': results[-1]})
    ctx.extra['pipeline_cases'] = len(cases)


def correspond(ctx):
    common.setup_repo_imports()
    import warnings
    warnings.simplefilter('ignore')
    import recognizers_date_time
    from recognizers_date_time.date_time.utilities import DateUtils
    common.assert_tree_modules(recognizers_date_time)
    from recognizers_date_time.date_time.utilities import AgoLaterUtil, DateTimeFormatUtil
    from recognizers_date_time.date_time.base_date import BaseDateParser
    from recognizers_date_time.date_time.base_dateperiod import BaseDatePeriodParser
    from recognizers_date_time.date_time.base_datetime import BaseDateTimeParser
    calcorr.fingerprints(ctx, {
        'DateUtils.this': DateUtils.this, 'DateUtils.next': DateUtils.next, 'DateUtils.last': DateUtils.last,
        'DateUtils.safe_create_from_value': DateUtils.safe_create_from_value, 'DateUtils.is_valid_date': DateUtils.is_valid_date,
        'AgoLaterUtil.get_date_result': AgoLaterUtil.get_date_result, 'DateTimeFormatUtil.luis_date': DateTimeFormatUtil.luis_date,
        'BaseDateParser.parse_implicit_date': BaseDateParser.parse_implicit_date,
        'BaseDatePeriodParser._parse_one_word_period': BaseDatePeriodParser._parse_one_word_period,
        'BaseDateTimeParser.parse_basic_regex': BaseDateTimeParser.parse_basic_regex}, FINGERPRINTS)
    calcorr.calendar_unit(ctx, 'c08')
    bdays = calcorr.boundary_days()
    dense = calcorr.all_days(2019, 2021) + calcorr.all_days(2000, 2000)
    calcorr.datedelta_unit(ctx, calcorr.all_days() if ctx.thorough else bdays + dense)
    unit_dateutils(ctx, DateUtils, calcorr.all_days())
    unit_agolater(ctx, bdays + (calcorr.all_days(1996, 2024) if ctx.thorough else dense))
    r = ctx.rng('unit-parsers')
    unit_parsers(ctx, bdays + dense + (calcorr.all_days() if ctx.thorough else calcorr.seeded_days(r, 1500)))
    pipeline(ctx)
