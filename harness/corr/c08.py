"""C08 — relative date expressions are calendar arithmetic on the reference date.

Tie: (unit) CPython's calendar and the datedelta shim vs RTV.Model.Cal; DateUtils.this/next/last,
AgoLaterUtil.get_date_result, BaseDateParser.parse_implicit_date (special days, next/this/last weekday),
BaseDatePeriodParser._parse_one_word_period (week/month/year) and parse_basic_regex('now') of the working tree vs
RTV.Model.DateUtils through the Lean driver; (pipeline) recognize_datetime(expr, 'en-us', reference=R) vs the
property statement computed independently here and vs the model's prediction."""
import calendar
import datetime as dt
import re

from lib import common, calcorr, periodcorr, zhcorr
from lib.calcorr import fmt_dt, ref_fields, guarded, at
from lib import cultureconfigcorr

PROP = 'C08'
LEVEL = 'proof'
PROPS_MODULES = ['RTV.Props.C08', 'RTV.Props.C08Zh']
PROPS_MODULES += ['RTV.Props.C08Config', 'RTV.Props.C08ConfigWords', 'RTV.Props.C08ConfigLast']   # culture configurations, regenerated
GEN = []
GEN += ['cultureconfig']
REQUIRED_THEOREMS = ['this_in_iso_week', 'next_is_following_week', 'last_is_preceding_week', 'today_is_reference_date',
                     'next_defined', 'last_defined', 'weekday_branches_defined', 'special_day_defined', 'week_period_defined',
                     'year_period_defined', 'zh_n_years_ago', 'zh_n_years_later', 'zh_n_months_ago', 'zh_n_months_later',
                     'tomorrow_is_next_day', 'yesterday_is_previous_day', 'n_days_ago', 'in_n_days', 'n_weeks_is_7n_days',
                     'this_week_is_monday_to_monday', 'week_timex_matches_isocalendar', 'year_period',
                     'month_period_fixed', 'month_period_prefix_partial', 'next_month_prefix_regression', 'now_is_reference',
                     'hms_ago_later', 'hms_units', 'week_prefix_period', 'weekend_is_saturday_to_monday',
                     'weekend_timex_fixed', 'weekend_timex_prefix_partial', 'weekend_timex_prefix_regression',
                     'month_prefix_period', 'year_prefix_period', 'year_to_date', 'month_to_date',
                     'month_to_date_prefix', 'month_to_date_prefix_regression', 'rest_of_week', 'rest_of_month', 'rest_of_year', 'rest_of_witnesses',
                     'zh_special_day', 'zh_next_weekday', 'zh_n_days_ago', 'zh_n_weeks_is_7n_days', 'zh_week_period', 'zh_month_period',
                     'zh_year_period', 'zh_this_year_is_year_to_date', 'zh_n_months_ago', 'zh_n_months_later', 'zh_n_years_ago',
                     'zh_n_years_later', 'zh_months_years_prefix_regression', 'zh_simple_cases_definite_ok',
                     'zh_simple_cases_relative_month_fixed', 'zh_simple_cases_prefix_regression', 'zh_quarter_ok',
                     'zh_quarter4_prefix_regression', 'zh_past_n_days_weeks_ok', 'zh_next_n_days_weeks_ok']
REQUIRED_THEOREMS += ['swift_values_all_texts', 'get_hour_stays_in_day', 'special_day_words', 'english_swift_day_table',
                      'next_words_swift_plus_one', 'next_words_year_plus_one', 'spanish_next_year_partial',
                      'last_words_swift_minus_one', 'this_words_swift_zero', 'next_last_disjoint',
                      'extractor_last_words_swift_minus_one', 'prefix_snapshot_is_the_unrepaired_tree', 'german_last_words_not_previous',
                      'italian_last_words_partial', 'is_future_english', 'is_last_cardinal_english']
RULE = ('unit: every ordinal of 1950..2090 + stride 97 over 0001..9999 (thorough: every ordinal) for ord2ymd/weekday/'
        'isocalendar; datedelta shim x 22 deltas on boundary days + all days of 2019-2021; this/next/last on every day of '
        '1950..2090 x dow 0..7; get_date_result D/W/MON/Y x N x both directions; parse_implicit_date and '
        '_parse_one_word_period on boundary days (month ends/starts, leap days, year boundaries, ISO week 52/53/1, all '
        'weekdays) + seeded days x reference times {00:00:00, 14:30:00, 23:59:59}; pipeline: recognize_datetime on the '
        'families of the property x boundary-first references x N in {1,2,7,30,365,5000} + seeded; non-trivial = a '
        'distinct (family, expression, reference) case that produced an entity. Round 2: hours/minutes/seconds ago/later, '
        'early/mid/late week|month|year, weekend, year/month to date, rest of the week|month|year at unit and pipeline level; '
        'contracts/C08.json: the expressions the cross-platform Specs contain for es-es, es-mx, fr-fr, pt-br, it-it, de-de, '
        'nl-nl, zh-cn, en-us (classified with the property itself at the Specs reference) x boundary-first references, '
        'numbers varied, same independent oracle')
ASSUMPTIONS = ['other cultures: only the pipeline is checked (culture configurations are not modelled); which expression is '
               'demanded of which culture is fixed by contracts/C08.json (derived from the Specs, committed)',
               'datedelta is absent from the sandbox: harness/shims/datedelta implements the documented semantics '
               '(roll forward to the 1st when adding, clamp to month end when subtracting); the next-month finding '
               'depends on it', 'English culture only at pipeline level (the arithmetic is culture independent; '
               'get_swift_* of other cultures is not modelled)',
               'for early/mid/late prefixes and rest-of the oracle is the model (what the code computes), not a property']

FINGERPRINTS = {'DateUtils.this': '6ae1c138c40e9f11', 'DateUtils.next': 'cf69080177d11982', 'DateUtils.last': '7e979dffc1250d33',
                'DateUtils.safe_create_from_value': '7911b510a7fb4914', 'DateUtils.is_valid_date': 'b009b164560df4ab',
                'AgoLaterUtil.get_date_result': 'ce946d43a40675ee', 'DateTimeFormatUtil.luis_date': 'c0bdccb0169441fc',
                'BaseDateParser.parse_implicit_date': '4f2120247cbf4084',
                'BaseDatePeriodParser._parse_one_word_period': '1592f984d1fa399b',
                'BaseDatePeriodParser._parse_duration': 'a5a357822876327e',
                'BaseDateTimeParser.parse_basic_regex': 'fb42b4e84e270260'}
EXPLANATION = ('Lean theorems about the model of the date arithmetic (every reference, every N, no bound) + correspondence '
               'of that model with the working tree (CPython calendar, datedelta shim, DateUtils, AgoLaterUtil, the two '
               'parser functions; unit + pipeline) + the property computed independently on recognize_datetime output. '
               'The model mirrors the code after the five recorded fixes; the pre-fix variants stay modelled so that a revert is named.')
WEEKDAYS = ['monday', 'tuesday', 'wednesday', 'thursday', 'friday', 'saturday', 'sunday']
SPECIAL = [('today', 0), ('tomorrow', 1), ('yesterday', -1)]
SWIFTS = [('this', 0), ('next', 1), ('last', -1)]
NS = [1, 2, 7, 30, 365, 5000]

# the negative witnesses proved in RTV/Props/C08.lean (replayed on the implementation every run)
WITNESS_NEXT_MONTH = dt.datetime(2020, 1, 31, 0, 0, 0)          # next_month_prefix_regression
WITNESS_WEEKEND = [dt.datetime(2020, 12, 31, 0, 0, 0), dt.datetime(2021, 1, 3, 0, 0, 0)]   # weekend_timex_prefix_regression
WITNESS_MTD = dt.datetime(2020, 5, 20, 14, 30, 0)               # month_to_date_prefix_regression
PREFIXES = [('early', (1, 0, 0)), ('mid', (0, 1, 0)), ('late', (0, 0, 1))]


# ------------------------------------------------------------------ the property (lib/calcorr.c08_oracle) and the model

monday_of, iso, shift_month = calcorr.monday_of, calcorr.iso, calcorr.shift_month
MODEL_ONLY = ('weekp', 'monthp', 'yearp', 'restof')      # families whose oracle is the model: "what the code computes"


def oracle(fam, par, R):
    return None if fam in MODEL_ONLY else calcorr.c08_oracle(fam, par, R)


def model_line(fam, par, R):
    rf = ref_fields(R)
    if fam == 'special':
        return 'du.special\t%s\t%d' % (rf, par)
    if fam == 'ago':
        unit, n, sign = par
        return 'du.ago\t%s\t%d\t%s\t%d' % ('W' if unit == 'week' else 'D', n, rf, 1 if sign > 0 else 0)
    if fam == 'hms':
        unit, n, sign = par
        return 'du.hms\t%s\t%d\t%s\t%d' % (unit[0].upper(), n, rf, 1 if sign > 0 else 0)
    if fam == 'weekday':
        k, wd = par
        return 'du.wd\t%s\t%s\t%d' % ({0: 'this', 1: 'next', -1: 'last'}[k], rf, wd % 7)   # culture map: sunday = 0
    if fam in ('week', 'month', 'year', 'weekend'):
        return 'du.%s\t%s\t%d' % (fam, rf, par)
    if fam == 'weekp':
        k, fl = par
        return 'du.weekp\t%s\t%d\t%d\t%d\t%d' % (rf, k, fl[0], fl[1], fl[2])
    if fam in ('monthp', 'yearp'):
        k, fl = par
        return 'du.%s\t%s\t%d\t%d\t%d' % (fam, rf, k, fl[0], fl[2])
    if fam == 'ytd':
        return 'du.ytd\t%s' % rf
    if fam == 'mtd':
        return 'du.mtd\t%s' % rf
    if fam == 'restof':
        return 'du.restof\t%s\t%s' % (par, rf)
    return None


def pad_date(s):
    """driver `Y-M-D@secs` -> `YYYY-MM-DD`."""
    y, m, d = s.split('@')[0].split('-')
    return '%04d-%02d-%02d' % (int(y), int(m), int(d))


def pad_datetime(s):
    d, secs = s.split('@')
    secs = int(secs)
    return '%s %02d:%02d:%02d' % (pad_date(d), secs // 3600, secs % 3600 // 60, secs % 60)


def model_values(fam, ans):
    """What the model predicts the pipeline prints (the resolution step formats dates with luis_date)."""
    if ans.startswith('err:') or ans == 'bad-op':
        return ans
    if ans == 'none':
        return []
    f = ans.split('\t')
    if fam in ('special', 'ago', 'weekday'):
        return [{'timex': f[0], 'type': 'date', 'value': pad_date(f[1])}]
    if fam == 'hms':
        return [{'timex': f[0], 'type': 'datetime', 'value': pad_datetime(f[1])}]
    if fam == 'mtd':       # past value first, one value when both print the same
        a = {'timex': f[0], 'type': 'daterange', 'start': pad_date(f[2]), 'end': pad_date(f[3])}
        b = {'timex': f[0], 'type': 'daterange', 'start': pad_date(f[1]), 'end': pad_date(f[3])}
        return [a] if a == b else [a, b]
    return [{'timex': f[0], 'type': 'daterange', 'start': pad_date(f[1]), 'end': pad_date(f[2])}]


def strip_mod(vals):
    if not isinstance(vals, list):
        return vals
    return [{k: v for k, v in x.items() if k != 'Mod'} for x in vals]


def month_overflow(fam, par, R):
    if fam != 'month' or par <= 0:
        return False
    y, m = shift_month(R.year, R.month, par)
    return R.day > calendar.monthrange(y, m)[1]


# ------------------------------------------------------------------ unit level

def unit_dateutils(ctx, DateUtils, days):
    lines, impl = [], []
    for i, d in enumerate(days):
        R = at(d, calcorr.TIMES[i % 3])
        rf = ref_fields(R)
        for dow in range(0, 8):
            for name, fn in (('this', DateUtils.this), ('next', DateUtils.next), ('last', DateUtils.last)):
                lines.append('du.%s\t%s\t%d' % (name, rf, dow))
                impl.append(fmt_dt(fn(R, dow)))
    for R in (dt.datetime(1, 1, 1), dt.datetime(1, 1, 3, 5), dt.datetime(1, 1, 9), dt.datetime(9999, 12, 31, 1),
              dt.datetime(9999, 12, 27), dt.datetime(9999, 12, 20)):
        for dow in range(0, 8):
            for name, fn in (('this', DateUtils.this), ('next', DateUtils.next), ('last', DateUtils.last)):
                lines.append('du.%s\t%s\t%d' % (name, ref_fields(R), dow))
                impl.append(guarded(lambda: fmt_dt(fn(R, dow))))
    model = common.driver(lines)
    ctx.count('DateUtils.this/next/last', len(lines))
    for l, a, b in zip(lines, impl, model):
        if a != b:
            f = l.split('\t')
            R = dt.datetime(int(f[1]), int(f[2]), int(f[3])) + dt.timedelta(seconds=int(f[4]))
            k = {'du.this': 0, 'du.next': 1, 'du.last': -1}[f[0]]
            want = None
            if not a.startswith('err'):
                want = fmt_dt(monday_of(R) + dt.timedelta(days=7 * k + (int(f[5]) or 7) - 1))
            ctx.report('correspondence', 'dateutils-' + f[0][3:], '%s: implementation %s, model %s, property %s' % (
                l, a, b, want), failing_input={'op': l, 'implementation': a, 'model': b, 'property_expects': want},
                property_fails=(want is not None and a != want))
            break
    ctx.sample({'op': lines[1000], 'implementation': impl[1000]})


def unit_agolater(ctx, days):
    from recognizers_date_time.date_time.utilities import AgoLaterUtil, AgoLaterMode
    r = ctx.rng('ago-unit')
    lines, impl = [], []
    for i, d in enumerate(days):
        R = at(d, calcorr.TIMES[i % 3])
        for unit in ('D', 'W', 'MON', 'Y'):
            for n in (NS if i % 5 == 0 else [NS[i % 6], r.randint(1, 5000)]):
                if unit in ('MON', 'Y') and n > 400:
                    n = n % 400 + 1
                for fut in (True, False):
                    lines.append('du.ago\t%s\t%d\t%s\t%d' % (unit, n, ref_fields(R), 1 if fut else 0))

                    def run():
                        res = AgoLaterUtil.get_date_result(unit, n, R, fut, AgoLaterMode.DATE)
                        return '%s\t%s' % (res.timex, fmt_dt(res.future_value)) if res.success else 'no'
                    impl.append(guarded(run))
    for i, d in enumerate(days):
        R = at(d, calcorr.TIMES[i % 3])
        for unit in ('H', 'M', 'S'):
            for n in ([1, 24, 60, 3600, 86400, 100000] if i % 5 == 0 else [r.randint(1, 200000)]):
                for fut in (True, False):
                    lines.append('du.hms\t%s\t%d\t%s\t%d' % (unit, n, ref_fields(R), 1 if fut else 0))

                    def run2():
                        res = AgoLaterUtil.get_date_result(unit, n, R, fut, AgoLaterMode.DATETIME)
                        return '%s\t%s' % (res.timex, fmt_dt(res.future_value)) if res.success else 'no'
                    impl.append(guarded(run2))
    model = common.driver(lines)
    ctx.count('AgoLaterUtil.get_date_result', len(lines))
    for l, a, b in zip(lines, impl, model):
        if a != b:
            ctx.report('correspondence', 'agolater-get_date_result', '%s: implementation %s, model %s' % (l, a, b),
                       failing_input={'op': l, 'implementation': a, 'model': b})
            break
    ctx.sample({'op': lines[len(lines) // 3], 'implementation': impl[len(impl) // 3]})


def unit_parsers(ctx, days):
    """parse_implicit_date / _parse_one_word_period / parse_basic_regex called directly."""
    from recognizers_date_time.date_time.english.common_configs import EnglishCommonDateTimeParserConfiguration
    cfg = EnglishCommonDateTimeParserConfiguration()
    dp, pp, dtp = cfg.date_parser, cfg.date_period_parser, cfg.date_time_parser
    dow_map = dict(dp.config.day_of_week)
    names = sorted(dow_map)
    lines, impl, meta = [], [], []
    # the regression witnesses of the recorded fixes come first, so that a revert is reported with them
    days = [WITNESS_NEXT_MONTH] + WITNESS_WEEKEND + [WITNESS_MTD] + list(days)

    def res2(r):
        return '%s\t%s' % (r.timex, fmt_dt(r.future_value)) if r.success and r.future_value == r.past_value else 'no:%r' % r.success

    def res3(r):
        if not r.success or r.future_value != r.past_value:
            return 'no'
        return '%s\t%s\t%s' % (r.timex, fmt_dt(r.future_value[0]), fmt_dt(r.future_value[1]))
    for i, d in enumerate(days):
        R = d if isinstance(d, dt.datetime) else at(d, calcorr.TIMES[i % 3])
        rf = ref_fields(R)
        for expr, sw in SPECIAL + [('the day after tomorrow', 2), ('the day before yesterday', -2)]:
            lines.append('du.special\t%s\t%d' % (rf, sw))
            impl.append(guarded(lambda: res2(dp.parse_implicit_date(expr, R))))
            meta.append(expr)
        for pre, _ in SWIFTS:
            for nm in (names if i % 4 == 0 else WEEKDAYS):
                lines.append('du.wd\t%s\t%s\t%d' % (pre, rf, dow_map[nm]))
                impl.append(guarded(lambda: res2(dp.parse_implicit_date(pre + ' ' + nm, R))))
                meta.append(pre + ' ' + nm)
        for pre, sw in SWIFTS:
            for unit in ('week', 'month', 'year'):
                lines.append('du.%s\t%s\t%d' % (unit, rf, sw))
                impl.append(guarded(lambda: res3(pp._parse_one_word_period(pre + ' ' + unit, R))))
                meta.append(pre + ' ' + unit)
        if i % 3 == 0 or i < 4:
            for pw, fl in PREFIXES:
                for pre, sw in SWIFTS:
                    lines.append('du.weekp\t%s\t%d\t%d\t%d\t%d' % (rf, sw, fl[0], fl[1], fl[2]))
                    impl.append(guarded(lambda: res3(pp._parse_one_word_period('%s %s week' % (pw, pre), R))))
                    meta.append('%s %s week' % (pw, pre))
                    for unit in ('month', 'year'):
                        lines.append('du.%sp\t%s\t%d\t%d\t%d' % (unit, rf, sw, fl[0], fl[2]))
                        impl.append(guarded(lambda: res3(pp._parse_one_word_period('%s %s %s' % (pw, pre, unit), R))))
                        meta.append('%s %s %s' % (pw, pre, unit))
            for pre, sw in SWIFTS:
                lines.append('du.weekend\t%s\t%d' % (rf, sw))
                impl.append(guarded(lambda: res3(pp._parse_one_word_period('%s weekend' % pre, R))))
                meta.append('%s weekend' % pre)
            lines.append('du.ytd\t%s' % rf)
            impl.append(guarded(lambda: res3(pp._parse_one_word_period('year to date', R))))
            meta.append('year to date')
            lines.append('du.mtd\t%s' % rf)

            def mtd():
                x = pp._parse_one_word_period('month to date', R)
                if not (x.success and x.future_value[1] == x.past_value[1]):
                    return 'no'
                return '%s\t%s\t%s\t%s' % (x.timex, fmt_dt(x.future_value[0]), fmt_dt(x.past_value[0]), fmt_dt(x.future_value[1]))
            impl.append(guarded(mtd))
            meta.append('month to date')
            for u, word in (('W', 'week'), ('MON', 'month'), ('Y', 'year')):
                lines.append('du.restof\t%s\t%s' % (u, rf))

                def rest():
                    x = pp._parse_duration('rest of the %s' % word, R)
                    if not x.success:
                        return 'none'
                    return '%s\t%s\t%s' % (x.timex, fmt_dt(x.future_value[0]), fmt_dt(x.future_value[1]))
                impl.append(guarded(rest))
                meta.append('rest of the %s' % word)
        if i % 7 == 0:
            r = dtp.parse_basic_regex('now', R)
            if not (r.success and r.timex == 'PRESENT_REF' and r.future_value == R and r.past_value == R):
                ctx.report('property', 'now-not-reference', "parse_basic_regex('now', %s) -> %r %r" % (R, r.timex, r.future_value),
                           failing_input={'expression': 'now', 'reference': str(R)}, property_fails=True)
            ctx.count('parse_basic_regex(now)')
    model = common.driver(lines)
    ctx.count('parse_implicit_date/_parse_one_word_period', len(lines))
    diff = [i for i, (a, b) in enumerate(zip(impl, model)) if a != b]
    mdiff = [i for i in diff if lines[i].startswith('du.month\t')]
    if mdiff:
        # a revert of d8aa8bf73?  the pre-fix variant reads the month off reference + datedelta(months=swift)
        prefix = common.driver([lines[i].replace('du.month\t', 'du.monthprefix\t', 1) for i in mdiff])
        for i, pf in zip(mdiff, prefix):
            if impl[i] == pf:
                f = lines[i].split('\t')
                R = dt.datetime(int(f[1]), int(f[2]), int(f[3])) + dt.timedelta(seconds=int(f[4]))
                want = oracle('month', int(f[5]), R)
                ctx.report('property', 'next-month-day-overflow', "_parse_one_word_period(%r, %s) -> %s; the property states %r "
                           '(the code reads the month off reference + datedelta(months=swift) again)' % (meta[i], R, impl[i], want),
                           failing_input={'op': '_parse_one_word_period', 'expression': meta[i], 'reference': str(R),
                                          'implementation': impl[i], 'model': model[i], 'property_expects': want},
                           property_fails=True)
                diff.remove(i)
                break
    # a revert of a recorded round-2 fix?  the pre-fix variants are still modelled (du.weekendprefix, du.mtdprefix)
    for op, pre_op, sig in (('du.weekend\t', 'du.weekendprefix\t', 'weekend-timex-reference-year'),
                            ('du.mtd\t', 'du.mtdprefix\t', 'month-to-date-past-start')):
        sub = [i for i in diff if lines[i].startswith(op)]
        if not sub:
            continue
        pre = common.driver([lines[i].replace(op, pre_op, 1) for i in sub])
        for i, pf in zip(sub, pre):
            if impl[i] == pf:
                g = impl[i].split('\t')
                if op == 'du.mtd\t' and g[1].split('@')[0] == g[2].split('@')[0]:
                    diff.remove(i)          # January: day number = month number = 1, the printed dates still agree
                    continue
                f = lines[i].split('\t')
                R = dt.datetime(int(f[1]), int(f[2]), int(f[3])) + dt.timedelta(seconds=int(f[4]))
                want = oracle('weekend', int(f[5]), R) if op == 'du.weekend\t' else oracle('mtd', None, R)
                ctx.report('property', sig, '_parse_one_word_period(%r, %s) -> %s; the property states %r (pre-fix behaviour)' % (
                    meta[i], R, impl[i], want),
                    failing_input={'op': '_parse_one_word_period', 'expression': meta[i], 'reference': str(R),
                                   'implementation': impl[i], 'model': model[i], 'property_expects': want},
                    property_fails=True)
                diff.remove(i)
    for i in diff[:3]:
        ctx.report('correspondence', 'parser-' + lines[i].split('\t')[0][3:], '%s (%r): implementation %s, model %s' % (
            lines[i], meta[i], impl[i], model[i]),
            failing_input={'op': lines[i], 'expression': meta[i], 'implementation': impl[i], 'model': model[i]})
    ctx.sample({'op': lines[7], 'expression': meta[7], 'implementation': impl[7]})


# ------------------------------------------------------------------ pipeline level

def ago_forms(n, r):
    day = 'day' if n == 1 else 'days'
    week = 'week' if n == 1 else 'weeks'
    return [('%d %s ago' % (n, day), ('day', n, -1)), ('in %d %s' % (n, day), ('day', n, 1)),
            ('%d %s from now' % (n, day), ('day', n, 1)), ('%d %s ago' % (n, week), ('week', n, -1)),
            ('in %d %s' % (n, week), ('week', n, 1)), ('%d %s from today' % (n, day), ('day', n, 1)),
            ('%d %s from today' % (n, week), ('week', n, 1)), ('%d %s from now' % (n, week), ('week', n, 1))]


def hms_forms(n):
    out = []
    for unit in ('hour', 'minute', 'second'):
        w = unit if n == 1 else unit + 's'
        out += [('%d %s ago' % (n, w), (unit, n, -1)), ('in %d %s' % (n, w), (unit, n, 1)),
                ('%d %s from now' % (n, w), (unit, n, 1))]
    return out


def pick_refs(ctx, tag, n_b, n_s, must):
    r = ctx.rng(tag)
    bdays = calcorr.boundary_days()
    picked = r.sample(bdays, min(n_b, len(bdays))) + calcorr.seeded_days(r, n_s)
    return [at(d, calcorr.TIMES[i % 3]) for i, d in enumerate(must + picked)]


MUST = [dt.date(2020, 1, 31), dt.date(2019, 1, 29), dt.date(2021, 8, 31), dt.date(2024, 2, 29), dt.date(2020, 12, 31),
        dt.date(2021, 1, 3), dt.date(2026, 12, 31), dt.date(2000, 2, 29), dt.date(2021, 1, 1), dt.date(2020, 5, 20)]


def build_cases(ctx):
    """(query, reference, family, params, culture, demanded)"""
    r = ctx.rng('pipeline')
    n_b, n_s = (700, 500) if ctx.thorough else (120, 50)
    refs = [WITNESS_NEXT_MONTH] + WITNESS_WEEKEND + [WITNESS_MTD] + pick_refs(ctx, 'pipeline-refs', n_b, n_s, MUST)
    cases = []
    for i, R in enumerate(refs):
        def add(q, fam, par):
            cases.append((q, R, fam, par, 'en-us', True, None))
        for expr, sw in SPECIAL:
            add(expr, 'special', sw)
        for pre, k in SWIFTS:
            for wi, nm in enumerate(WEEKDAYS):
                if ctx.thorough or i < 40 or (wi + i) % 2 == 0 or wi == R.weekday():
                    add('%s %s' % (pre, nm), 'weekday', (k, wi + 1))
            for unit in ('week', 'month', 'year'):
                add('%s %s' % (pre, unit), unit, k)
            add('%s weekend' % pre, 'weekend', k)
            if ctx.thorough or i < 30 or i % 3 == 0:
                for pw, fl in PREFIXES:
                    add('%s %s week' % (pw, pre), 'weekp', (k, fl))
                    add('%s %s month' % (pw, pre), 'monthp', (k, fl))
                    add('%s %s year' % (pw, pre), 'yearp', (k, fl))
        add('now', 'now', None)
        add('year to date', 'ytd', None)
        add('month to date', 'mtd', None)
        for u, w in (('W', 'week'), ('MON', 'month'), ('Y', 'year')):
            add('rest of the %s' % w, 'restof', u)
        ns = [NS[i % 6], r.randint(1, 5000)] if i >= 12 else NS
        for n in ns:
            for expr, par in ago_forms(n, r):
                add(expr, 'ago', par)
        for n in ([1, 24, 90] if i < 12 else [r.randint(1, 5000)]):
            for expr, par in hms_forms(n):
                add(expr, 'hms', par)
    return cases


def vary_number(text, n2):
    return re.sub(r'\d+', str(n2), text, count=1)


def contract_cases(ctx):
    """The expressions of contracts/C08.json (every culture, the culture's own words) x references; numbers varied."""
    contract = calcorr.load_contract('C08')['cultures']
    r = ctx.rng('contract')
    cases = []
    for culture in sorted(contract):
        n_b, n_s = (120, 60) if ctx.thorough else ((22, 8) if culture != 'en-us' else (14, 6))
        refs = [WITNESS_NEXT_MONTH] + pick_refs(ctx, 'contract-' + culture, n_b, n_s, MUST[:6])
        for e in contract[culture]:
            fam, par = e['family'], e['params']
            if isinstance(par, list):
                par = tuple(par)
            for i, R in enumerate(refs):
                q, pp_ = e['text'], par
                if fam in ('ago', 'hms') and i % 2 == 1:
                    n2 = 100 if i == 1 else (r.choice([1, 2, 7, 30, 365]) if i % 4 == 1 else r.randint(2, 3000))
                    q, pp_ = vary_number(e['text'], n2), (par[0], n2, par[2])
                cases.append((q, R, fam, pp_, culture, e.get('level') == 'model', e.get('input') if q == e['text'] else None))
    return cases


def pipeline(ctx):
    cases = build_cases(ctx) + contract_cases(ctx)
    results = calcorr.run_pipeline([((c[0], c[4]), c[1]) for c in cases])
    carried = calcorr.retry_in_carrier(cases, results, [c[6] for c in cases])
    mlines, midx = [], []
    for i, (expr, R, fam, par, cul, dem, _car) in enumerate(cases):
        l = model_line(fam, par, R)
        if l:
            mlines.append(l)
            midx.append(i)
        if fam in ('month', 'weekend'):
            mlines.append('du.%sprefix\t%s\t%d' % (fam, ref_fields(R), par))
            midx.append(-i - 1)
        elif fam == 'mtd':
            mlines.append('du.mtdprefix\t%s' % ref_fields(R))
            midx.append(-i - 1)
    answers = common.driver(mlines)
    model, prefix = {}, {}
    for i, a in zip(midx, answers):
        if i >= 0:
            model[i] = a
        else:
            prefix[-i - 1] = a
    unrecognized = {}
    skipped = ctx.extra.setdefault('skipped_by_reason', {})
    for i, ((expr, R, fam, par, cul, dem, _car), res) in enumerate(zip(cases, results)):
        ctx.count('pipeline:%s:%s' % (cul, fam))
        want = oracle(fam, par, R)
        ent = calcorr.whole_entity(res, expr) or carried.get(i)
        got = strip_mod(ent[4]) if ent else None
        if got is not None:
            ctx.nontriv((cul, fam, expr, str(R)))
        mv = model_values(fam, model[i]) if i in model else want
        if want is None:
            want = mv               # model-only family: "what the code computes"
        fi = {'op': 'recognize_datetime', 'query': expr, 'culture': cul, 'reference': R.strftime('%Y-%m-%d %H:%M:%S'),
              'family': fam, 'params': par, 'implementation': got if ent else res, 'property_expects': want, 'model': mv}
        if fam in MODEL_ONLY:
            if got is None and isinstance(res, list) and mv == []:
                continue            # the code yields no resolution (rest of the month asked on its last day at 00:00:00)
            if got != mv and not (got == [] and mv == []):
                ctx.report('correspondence', 'pipeline-' + fam, '%r at %s: implementation %r, model %r' % (
                    expr, fi['reference'], got, mv), failing_input=fi)
            continue
        if got == want:
            if mv != got and isinstance(mv, list):
                ctx.report('correspondence', 'pipeline-' + fam, '%r (%s) at %s: implementation %r, model %r' % (
                    expr, cul, fi['reference'], got, mv), failing_input=fi)
            continue
        # the property fails on this input: classify
        if month_overflow(fam, par, R) and i in prefix and got == model_values(fam, prefix[i]):
            sig = 'next-month-day-overflow'
        elif fam == 'weekend' and i in prefix and got == model_values(fam, prefix[i]):
            sig = 'weekend-timex-reference-year'
        elif fam == 'mtd' and i in prefix and got == model_values(fam, prefix[i]):
            sig = 'month-to-date-past-start'
        elif cul == 'zh-cn' and fam == 'ago' and par[1] >= 100 and got == calcorr.c08_oracle(
                fam, (par[0], int(str(par[1])[:2]), par[2]), R):
            sig = 'zh-ago-number-truncated'
        elif got is None:
            unrecognized.setdefault((cul, expr), 0)
            unrecognized[(cul, expr)] += 1
            if not dem:
                # text known from parser-level Specs only (contract `level: parser`): the extractor is not bound to find it
                # on its own — nothing is claimed, but every such case is counted (evidence `skipped_by_reason`)
                k = 'not recognised, contract level parser (not demanded): %s' % cul
                skipped[k] = skipped.get(k, 0) + 1
                continue
            sig = 'unrecognized-%s-%s' % (cul, fam)
        elif cul == 'en-us':
            sig = 'relative-%s' % fam
        else:
            sig = 'relative-%s-%s' % (cul, fam)
        ctx.report('property', sig, '%r (%s) at %s: got %r, the property states %r' % (expr, cul, fi['reference'], got, want),
                   failing_input=fi, property_fails=True)
    ctx.sample({'query': cases[5][0], 'reference': str(cases[5][1]), 'implementation': results[5]})
    ctx.sample({'query': cases[-1][0], 'culture': cases[-1][4], 'reference': str(cases[-1][1]), 'implementation': results[-1]})
    ctx.extra['pipeline_cases'] = len(cases)
    ctx.extra['unrecognized_contract_expressions'] = sorted('%s: %s' % k for k in unrecognized)


def correspond(ctx):
    calcorr.cap_reports(ctx)
    common.setup_repo_imports()
    import warnings
    warnings.simplefilter('ignore')
    import recognizers_date_time
    from recognizers_date_time.date_time.utilities import DateUtils
    common.assert_tree_modules(recognizers_date_time)
    from recognizers_date_time.date_time.utilities import AgoLaterUtil, DateTimeFormatUtil
    from recognizers_date_time.date_time.base_date import BaseDateParser
    from recognizers_date_time.date_time.base_dateperiod import BaseDatePeriodParser
    from recognizers_date_time.date_time.base_datetime import BaseDateTimeParser
    calcorr.fingerprints(ctx, {
        'DateUtils.this': DateUtils.this, 'DateUtils.next': DateUtils.next, 'DateUtils.last': DateUtils.last,
        'DateUtils.safe_create_from_value': DateUtils.safe_create_from_value, 'DateUtils.is_valid_date': DateUtils.is_valid_date,
        'AgoLaterUtil.get_date_result': AgoLaterUtil.get_date_result, 'DateTimeFormatUtil.luis_date': DateTimeFormatUtil.luis_date,
        'BaseDateParser.parse_implicit_date': BaseDateParser.parse_implicit_date,
        'BaseDatePeriodParser._parse_one_word_period': BaseDatePeriodParser._parse_one_word_period,
        'BaseDatePeriodParser._parse_duration': BaseDatePeriodParser._parse_duration,
        'BaseDateTimeParser.parse_basic_regex': BaseDateTimeParser.parse_basic_regex}, FINGERPRINTS)
    calcorr.calendar_unit(ctx, 'c08')
    bdays = calcorr.boundary_days()
    dense = calcorr.all_days(2019, 2021) + calcorr.all_days(2000, 2000)
    calcorr.datedelta_unit(ctx, calcorr.all_days() if ctx.thorough else bdays + dense)
    unit_dateutils(ctx, DateUtils, calcorr.all_days())
    unit_agolater(ctx, bdays + (calcorr.all_days(1996, 2024) if ctx.thorough else dense))
    r = ctx.rng('unit-parsers')
    unit_parsers(ctx, bdays + dense + (calcorr.all_days() if ctx.thorough else calcorr.seeded_days(r, 1500)))
    zhcorr.run(ctx)               # the Chinese parsers (RTV.Model.ZhDateTime; theorems in Props/C08Zh): unit + zh-cn pipeline
    periodcorr.unit(ctx)          # the other computations of BaseDatePeriodParser (RTV.Model.Periods; theorems in Props/C10Periods)
    cultureconfigcorr.run(ctx)    # culture configuration methods: translated definitions vs the real methods; the cultures' own next/last/this words through the pipeline
    pipeline(ctx)


def search(ctx, proof_problems):
    cultureconfigcorr.search(ctx, proof_problems)
