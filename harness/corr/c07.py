"""C07 — clock times resolve to the right 24-hour time, alone or attached to a date.

Ties: (1) unit correspondence of RTV.Model.DtRes (Lean driver) with the working tree's `DateTimeFormatUtil.*`,
`BaseTimeParser.match_to_time` (called through the real English parser on real regex matches; the model is fed the
same group values), `BaseMergedParser._date_time_resolution/_resolve_ampm`, `BaseDateTimeParser.merge_date_and_time`;
(2) pipeline: `DateTimeModel.parse` on generated clock-time expressions against the property's own oracle."""
import datetime
import itertools

from lib import common, dtres, timeperiodcorr, timefrontcorr
from lib.common import cps

PROP = 'C07'
LEVEL = 'proof'
PROPS_MODULES = ['RTV.Props.C07', 'RTV.Props.C07Ranges', 'RTV.Props.C07TimePeriod', 'RTV.Props.C07Front']
GEN = ['chartables', 'dtmaps']
REQUIRED_THEOREMS = ['clock24', 'clock24_partial', 'clock24_hour0_unresolved', 'clock24_hour0_repaired', 'clock12',
                     'clock12_partial', 'ambiguous_two_readings', 'date_at_time', 'date_at_time_unambiguous',
                     'date_at_time_ambiguous', 'date_at_time_relative', 'date_at_time_yearless', 'toPm_twelve_apart', 'short_time_shape', 'clock_cultures',
                     'date_at_time_cultures', 'designator_cultures', 'afternoon_12_both_readings', 'afternoon_12_repaired',
                     'clock24_zh', 'zh_ampm_any_hour_witness', 'zh_1913_guarded', 'zh_designator_examples',
                     'date_at_designator', 'date_at_designator_cultures', 'date_word_shift', 'night_alone_is_2am',
                     'night_attached_shift', 'time_of_today_pm_word', 'time_of_today_morning', 'tonight_examples',
                     'time_range_unambiguous', 'time_range_span', 'time_range_resolution_plain', 'time_range_resolution_ampm',
                     'timerange_pm_overflow_witness', 'timerange_loose_timex_witness', 'time_range_duration_guard',
                     'time_range_duration_repaired',
                     # Props/C07TimePeriod (BaseTimePeriodParser / BaseDateTimeParser computations)
                     'pure_pm_rule', 'pure_am_rule', 'pure_triple_consistent', 'specific_both_described',
                     'specific_triple_consistent', 'specific_right_pm_rule', 'specific_12am_end_witness', 'specific_seconds_witness',
                     'specific_minute_side_witness', 'parse_specific_shadows_merge', 'tod_table_rows', 'tod_windows',
                     'now_is_reference_datetime', 'end_of_day_is_235959', 'ago_later_seconds', 'ago_later_spec',
                     # Props/C07Front (text -> groups: parse_basic_regex_match on the regenerated English time regexes)
                     'front_groups_en', 'front_clock24', 'front_clock12', 'front_ambiguous_two_readings', 'front_hhmmss_engine',
                     'front_2500_rejected', 'front_765_rejected', 'layouts_shape', 'front_12am_12pm']
RULE = ('unit: DateTimeFormatUtil over full ranges (luis_time/short_time 24x60x{none,0..59}, luis_date, format_*, '
        'to_pm, all_str_to_pm); match_to_time on every match of AtRegex/TimeRegex1..11/ConnectNumRegex over generated '
        'English time strings (digits x minutes x seconds x am/pm spellings x prefixes x suffixes x written forms); '
        '_date_time_resolution on synthetic slots; merge_date_and_time on <date> at <time>. pipeline: HH:MM:SS '
        '(thorough all 86,400; quick boundary set {0,1,9,10,11,12,13,23}x{0,1,30,59}x{none,0,59} + 1,500 seeded), H:MM, '
        '12-hour spellings x {am,pm,a.m.,p.m.,none}, <date expr> at <time> x references; contracts/C07.json: 24-hour and '
        'am/pm-designator spellings of es, es-mx, fr, pt, it, de, nl, zh (every hour 1..12 x clock forms x designators); unit: '
        'match_to_time incl. adjust_by_prefix/suffix on real matches of every culture (Specs texts with every hour substituted), '
        'ChineseTimeParser.parse on ~4k extractor results; non-trivial = distinct case with a resolved time/datetime entity')
ASSUMPTIONS = ['group values and regex outcomes (desc/prefix/suffix classification, token regexes of German/Dutch) are inputs '
               'of the model, the regex engine is not modelled',
               'str.isspace/isnumeric and Unicode decimal values exported from the running CPython',
               'adjust_by_prefix/adjust_by_suffix of all eight BaseTimeParser cultures are modelled as data-driven styles whose '
               'phrase literals are hand-copied from the code and tied by unit correspondence',
               'ChineseTimeParser: handle_digit/handle_chinese/add_description/pack_time_result modelled, handle_less not']

REFS = [(2016, 11, 7, 0, 0, 0), (2016, 11, 7, 10, 30, 0), (2020, 2, 29, 23, 59, 59), (1950, 1, 1, 12, 0, 0),
        (2089, 12, 31, 6, 7, 8)]
AMPM = ['', ' am', ' pm', 'am', 'pm', ' a.m.', ' p.m.', ' a', ' p']
PREFIXES = ['half past ', 'quarter past ', 'a quarter to ', 'quarter to ', 'three quarters past ', 'ten to ', '20 past ',
            'twenty five to ', '5 minutes to ', 'ten mins past ']
SUFFIXES = [" o'clock", ' oclock', ' in the morning', ' in the afternoon', ' in the evening', ' at night', ' in the night',
            ' at lunchtime', ' in the afternoon today']
WRITTEN = ['seven thirty pm', 'three twenty', 'eleven fifty five am', 'twelve oh five', 'midnight', 'noon', 'midday',
           'mid-morning', 'mid afternoon', 'mid-night', 'twelve noon', '12 midnight', 'seven', 'at seven', 'zero',
           'twenty four', 'half past seven', 'a quarter to eleven pm', 'eight thirty in the evening', '5ish', 'noonish']


def load_contract():
    import json
    import os
    with open(os.path.join(common.VERIF, 'contracts', 'C07.json'), encoding='utf-8') as f:
        return json.load(f)


def ref_dt(t):
    return datetime.datetime(*t)


def time_strings(ctx):
    """English time strings around every branch of match_to_time."""
    out = []
    hours = list(range(0, 26))
    mins = ['', ':00', ':01', ':09', ':30', ':59', ':60', ':5']
    secs = ['', ':00', ':07', ':59']
    for h in hours:
        for hs in {str(h), '%02d' % h}:
            for m in mins:
                for s in (secs if m else ['']):
                    for d in AMPM:
                        out.append(hs + m + s + d)
            for p in PREFIXES:
                out.append(p + hs)
                out.append(p + hs + ' pm')
            for sf in SUFFIXES:
                out.append(hs + sf)
                out.append(hs + ':30' + sf)
            out.append('at ' + hs)
            out.append(hs + 'h')
            out.append(hs + '.30')
            out.append(hs + ' : 30 p m')
    out += WRITTEN
    # Unicode digits (\d is Unicode-aware), full-width colon
    out += ['٣:٣٠', '١٢:٠٠ pm', '７:３０', '０:３０', '7：30']
    r = ctx.rng('timestr')
    for _ in range(6000 if ctx.thorough else 500):
        h, m, s = r.randint(0, 24), r.randint(0, 59), r.randint(0, 59)
        form = r.choice(['%d:%02d', '%02d:%02d', '%d:%02d:%02d', '%02d:%02d:%02d', '%d', '%d.%02d'])
        core = form % ((h, m, s)[:form.count('%')])
        out.append(r.choice(['', '', r.choice(PREFIXES)]) + core + r.choice(AMPM + SUFFIXES))
    seen, uniq = set(), []
    for s in out:
        if s not in seen:
            seen.add(s)
            uniq.append(s)
    return uniq


def variant_of_tree(T):
    """Which variant of the hour-0 test the working tree follows: '1' = `if not hour` (00:30 unresolved)."""
    tp = T.time_parser()
    m = T.regex.search(tp.config.time_regexes[3], '00:30') or T.regex.search(tp.config.at_regex, '00:30')
    for pat in tp.config.time_regexes:
        m = T.regex.search(pat, '00:30')
        if m and T.RegExpUtility.get_group(m, 'hour') == '00' and T.RegExpUtility.get_group(m, 'min') == '30':
            break
    else:
        raise common.InfraError('no English time regex matches 00:30 with hour/min groups')
    try:
        r = tp.match_to_time(m, ref_dt(REFS[1]))
    except Exception:
        return '1'
    return '0' if r.success else '1'


# ---------------------------------------------------------------- the property's own oracle for plain clock groups

def clock_expectation(groups):
    """Expected (timex, ambiguous, (h, m, s)) for a match whose groups are digits + plain am/pm; None when the
    property says nothing about this match (prefix/suffix/written forms, out-of-range fields)."""
    if set(groups) - {'hour', 'min', 'sec', 'desc'}:
        return None
    hs, ms, ss, desc = groups.get('hour', ''), groups.get('min', ''), groups.get('sec', ''), groups.get('desc', '')
    if not hs or not hs.isascii() or not hs.isdigit():
        return None
    if ms and not (ms.isascii() and ms.isdigit()) or ss and not (ss.isascii() and ss.isdigit()):
        return None
    h, m, s = int(hs), int(ms or 0), int(ss or 0)
    d = desc.replace('.', '').replace(' ', '')
    if d not in ('', 'am', 'pm') or m > 59 or s > 59:
        return None
    d = {'a': 'am', 'p': 'pm'}.get(d, d)
    if d == '':
        if h > 23:
            return None
        ambiguous = 1 <= h <= 12
        hh = h
    else:
        if not 1 <= h <= 12:
            return None
        ambiguous = False
        hh = (0 if h == 12 else h) + (12 if d == 'pm' else 0)
    timex = 'T%02d' % hh + (':%02d' % m if ms else '') + (':%02d' % s if ss else '')
    return timex, ambiguous, (hh, m, s)


def unit_format(ctx, T):
    F = T.utilities.DateTimeFormatUtil
    C = T.Constants
    lines, impl = [], []

    def add(line, f):
        lines.append(line)
        try:
            impl.append(cps(f()))
        except Exception as e:
            impl.append(dtres.err_kind(e))

    for h in range(24):
        for m in range(60):
            secs = [None] + (list(range(60)) if ctx.thorough or h in (0, 1, 9, 10, 12, 13, 23) or m in (0, 1, 30, 59) else [0, 59])
            for s in secs:
                if s is None:
                    add('dt.dtfmt\tluistime\t%d\t%d\tnone' % (h, m), lambda: F.luis_time(h, m))
                    add('dt.dtfmt\tshorttime\t%d\t%d\tnone' % (h, m), lambda: F.short_time(h, m))
                else:
                    add('dt.dtfmt\tluistime\t%d\t%d\t%d' % (h, m, s), lambda: F.luis_time(h, m, s))
                    add('dt.dtfmt\tshorttime\t%d\t%d\t%d' % (h, m, s), lambda: F.short_time(h, m, s))
                    d = datetime.datetime(2016, 11, 7, h, m, s)
                    add('dt.dtfmt\tfmttime\t' + dtres.dt_field(d), lambda: F.format_time(d))
                    add('dt.dtfmt\tfmtdt\t' + dtres.dt_field(d), lambda: F.format_date_time(d))
                    add('dt.dtfmt\ttopm\t' + cps('%02d:%02d:%02d' % (h, m, s)), lambda: F.to_pm('%02d:%02d:%02d' % (h, m, s)))
        add('dt.dtfmt\tshorttime\t%d\tnone\tnone' % h, lambda: F.short_time(h))
        add('dt.dtfmt\tshorttime\t%d\tnone\t5' % h, lambda: F.short_time(h, C.INVALID_MINUTE, 5))
        for tx in ('T%02d' % h, 'T%02d:30' % h, '%02d' % h, 'T%d' % h, '2019-03-05T%02d:30' % h, 'PT%02dH' % h,
                   '(T%02d,T%02d,PT2H)' % (h, (h + 2) % 24), 'XXXX-WXX-1T%02d:15:10' % h, ''):
            add('dt.dtfmt\ttopm\t' + cps(tx), lambda: F.to_pm(tx))
            add('dt.dtfmt\tallpm\t' + cps(tx), lambda: F.all_str_to_pm(tx))
    for w in (1, 2, 4):
        for i in list(range(-20, 130)) + [999, 1000, 2019, 9999, 10000, -2147483648]:
            add('dt.dtfmt\tfmtd\t%d\t%d' % (w, i), lambda: F.to_str(i, w))
    for s in ['5', ' 5 ', '05', '٣', '٣٠', '７', '', ' ', 'x', '5x', '²', '½', '12']:
        lines.append('dt.dtfmt\tint\t' + cps(s))
        try:
            impl.append(str(int(s)))
        except ValueError:
            impl.append('err:ValueError')
    model = dtres.drive(lines)
    ctx.count('DateTimeFormatUtil', len(lines))
    for l, a, m in zip(lines, impl, model):
        if a != m:
            dtres.report(ctx, 'correspondence', 'format-util', '%s: implementation %s, model %s' % (l.replace('\t', ' '), a, m),
                       failing_input={'op': l, 'implementation': a, 'model': m})
    ctx.sample({'op': lines[1000], 'implementation': impl[1000]})


def culture_time_strings(ctx, T, culture, contract):
    """Strings for a culture's time regexes: every Python-supported Specs text of the culture's Time extractor / parser
    suites, the same texts with their first number replaced by every hour 0..24, and the contract's clock forms with
    every designator."""
    import re
    from lib import specs
    if culture == 'en-us':
        out = time_strings(ctx)
    else:
        out = []
    lang = {v: k for k, v in specs.CULTURES.items()}.get(culture)
    texts = []
    for c in specs.iter_cases():
        if c['recognizer'] == 'DateTime' and c['language'] == lang and c['model'] in ('Time', 'DateTime', 'TimePeriod') and c['supported']:
            for r_ in (c['results'] or []):
                if r_.get('Text'):
                    texts.append(r_['Text'].lower())
    texts = sorted(set(texts))
    out += texts
    for t in texts:
        m = re.search(r'\d+', t)
        if m and len(t) < 40:
            for h in range(0, 25):
                out.append(t[:m.start()] + str(h) + t[m.end():])
    h12 = contract['h12'].get(culture, {})
    for clock in h12.get('clock', []):
        for h in range(0, 14):
            core = clock.replace('{h}', str(h)).replace('{MM}', '30').replace('{SS}', '15')
            out.append(core)
            for d, _ in h12.get('am', []) + h12.get('pm', []):
                out.append(core + d)
    for tpl, _ in contract['h24'].get(culture, []):
        for h in (0, 1, 9, 12, 13, 23, 24):
            out.append(tpl.replace('{HH}', '%02d' % h).replace('{H}', str(h)).replace('{MM}', '05').replace('{SS}', '59'))
    seen, uniq = set(), []
    for x in out:
        if x not in seen:
            seen.add(x)
            uniq.append(x)
    return uniq


def unit_match_to_time(ctx, T, variant):
    contract = load_contract()
    refs = [ref_dt(REFS[1]), ref_dt(REFS[2])]
    lines, impl, meta = [], [], []
    for culture, spec in dtres.TIME_SPEC.items():
        tp = T.time_parser(culture)
        cfg = tp.config
        else_pm = T.suffix_else_variant(culture)
        patterns = [('AtRegex', cfg.at_regex)] + [('TimeRegex#%d' % i, p) for i, p in enumerate(cfg.time_regexes)]
        seen = set()
        for s in culture_time_strings(ctx, T, culture, contract):
            low = s.lower()
            for name, pat in patterns:
                m = T.regex.search(pat, low)
                if m is None or not m.group():
                    continue
                fields, groups = T.time_call_fields(m, culture)
                key = tuple(fields)
                if key in seen:
                    continue
                seen.add(key)
                ref = refs[len(seen) % 2]
                try:
                    a = dtres.res_str(tp.match_to_time(m, ref))
                except Exception as e:
                    a = dtres.err_kind(e)
                lines.append('\t'.join(['dt.m2t', dtres.dt_field(ref), spec['tag'], variant, else_pm] + fields))
                impl.append(a)
                meta.append((culture, name, m.group(), groups, ref))
    model = dtres.drive(lines)
    ctx.count('match_to_time', len(lines))
    hist, per = {}, {}
    pending = []
    for (culture, name, text, groups, ref), l, a, mo in zip(meta, lines, impl, model):
        kind = 'error' if a.startswith('err') else ('unresolved' if a.startswith('0|') else 'resolved')
        hist[kind] = hist.get(kind, 0) + 1
        per[culture] = per.get(culture, 0) + 1
        if kind == 'resolved':
            ctx.nontriv(('m2t', culture, tuple(sorted(groups.items()))))
        exp = clock_expectation(groups) if culture == 'en-us' else None
        bad = None
        if exp is not None:
            timex, ambiguous, (hh, mm, ss) = exp
            want = '1|%s|%s|%s|%s' % (cps(timex), cps('ampm' if ambiguous else ''),
                                      dtres.dt_field(ref.replace(hour=hh, minute=mm, second=ss)),
                                      dtres.dt_field(ref.replace(hour=hh, minute=mm, second=ss)))
            if a != want:
                bad = 'groups %r: match_to_time gives %s, the property demands %s' % (groups, a, want)
        fi = {'op': 'BaseTimeParser.match_to_time', 'culture': culture, 'matched_text': text, 'regex': name, 'groups': groups,
              'reference': str(ref), 'implementation': a, 'model': mo, 'property': bad}
        if a != mo:
            dtres.report(ctx, 'correspondence', 'match_to_time-' + culture,
                         'match_to_time[%s] on %r (%s) groups %r: implementation %s, model %s' % (culture, text, name, groups, a, mo),
                         failing_input=fi, property_fails=bad is not None)
        elif bad:
            zero = groups.get('hour', '').strip('0') == '' and a.startswith('0|')
            pending.append(('hour0-unresolved' if zero else 'match_to_time-property', bad, fi))
    emit(ctx, pending)
    ctx.extra['match_to_time_outcomes'] = hist
    ctx.extra['match_to_time_calls_per_culture'] = per
    ctx.extra['suffix_else_variant'] = {c: T.suffix_else_variant(c) for c in dtres.TIME_SPEC}
    ctx.sample({'op': lines[len(lines) // 3], 'implementation': impl[len(lines) // 3]})


def unit_word_hour(ctx, T):
    """The pure number-word branch of parse_basic_regex_match (`numbers.get(source, -1)`), for every key of the
    English numbers table that does not go through match_to_time, plus non-keys."""
    tp = T.time_parser()
    orig = tp.match_to_time
    hit = []

    def rec(m, r):
        hit.append(m.group())
        return orig(m, r)

    words = list(tp.config.numbers) + ['twenty five', 'nought', 'seven ', ' seven', 'SEVEN', '']
    lines, impl = [], []
    tp.match_to_time = rec
    try:
        for i, w in enumerate(words):
            ref = ref_dt(REFS[i % len(REFS)])
            del hit[:]
            try:
                r = tp.parse_basic_regex_match(w, ref)
                a = dtres.res_str(r) if r.success else 'none'
            except Exception as e:
                a = dtres.err_kind(e)
            if hit:
                continue
            # the function strips and lower-cases its argument before the lookup
            lines.append('dt.wordhour\t%s\t%s' % (dtres.dt_field(ref), cps(w.strip().lower())))
            impl.append(a)
    finally:
        del tp.match_to_time
    model = dtres.drive(lines)
    ctx.count('number-word hour', len(lines))
    for l, a, m in zip(lines, impl, model):
        if a != 'none':
            ctx.nontriv(('wordhour', l))
        if a != m:
            dtres.report(ctx, 'correspondence', 'word-hour', '%s: implementation %s, model %s' % (l.replace('\t', ' '), a, m),
                         failing_input={'op': l, 'implementation': a, 'model': m})


def zh_variant(T):
    """'1' when ChineseTimeParser comments a description-less 19:13 `ampm` (finding zh-ampm-any-hour), '0' when guarded."""
    tp = T.time_parser('zh-cn')
    ref = ref_dt(REFS[1])
    er = tp.inner_extractor.extract('19:13', ref)[0]
    return '1' if tp.parse(er, ref).value.comment == 'ampm' else '0'


def unit_zh_time(ctx, T):
    """ChineseTimeParser.parse (handle_digit / handle_chinese, add_description, pack_time_result) on the extractor's own
    results for generated digit and 汉字 clock times; `handle_less` results are skipped (not modelled)."""
    tp = T.time_parser('zh-cn')
    variant = zh_variant(T)
    ctx.extra['zh_ampm_variant'] = 'every hour (as found)' if variant == '1' else 'guarded 0 < hour <= 12'
    han = ['零', '一', '二', '两', '三', '四', '五', '六', '七', '八', '九', '十', '十一', '十二', '十三', '十五', '十九', '二十', '二十一',
           '二十三', '二十四']
    descs = ['', '上午', '下午', '晚上', '中午', '早上', '凌晨', '傍晚', '午后', '夜里']
    strings = []
    for d in descs:
        for h in list(range(0, 25)):
            for tail in (':00', ':05', ':30', ':59', ':30:15', '点', '点半', '点一刻', '点三刻', '点15分', '点05分30秒', '时', '点整'):
                strings.append('%s%d%s' % (d, h, tail))
        for hh in han:
            for tail in ('点', '点半', '点一刻', '点十五分', '点二十分', '点五十九分', '时三十分', '点零五分'):
                strings.append(d + hh + tail)
    strings += ['12点pm', '3点pm', '7:30pm', '23:59:59', '24:00', '0:0', '9:5']
    lines, impl, meta = [], [], []
    seen = set()
    for i, s in enumerate(strings):
        ref = ref_dt(REFS[i % len(REFS)])
        try:
            ers = tp.inner_extractor.extract(s, ref)
        except Exception:
            continue
        for er in ers:
            extra = er.data
            if extra is None or extra.data_type.name == 'LessTime':
                continue
            ne = extra.named_entity
            g = [next(iter(ne.get(k, [])), '') for k in ('hour', 'min', 'sec', 'quarter', 'half', 'daydesc')]
            key = (extra.data_type.name,) + tuple(g)
            if key in seen:
                continue
            seen.add(key)
            try:
                inner = tp.parse(er, ref).value
                a = dtres.res_str(inner)
            except Exception as e:
                inner = e
                a = dtres.err_kind(e)
            fields = [dtres.dt_field(ref), variant, dtres.b(extra.data_type.name == 'ChineseTime')] + [cps(x) for x in g]
            lines.append('\t'.join(['dt.zhtime'] + fields))
            impl.append(a)
            meta.append((s, er.text, key))
            # the entity-level composition the theorems are about (RTV.DtRes.resolveTimeZh: … -> _date_time_resolution)
            lines.append('\t'.join(['dt.rtimezh'] + fields))
            impl.append(dtres.entity_values(T, 'time', inner, 'zh-cn'))
            meta.append((s, er.text, key))
    model = dtres.drive(lines)
    ctx.count('ChineseTimeParser.parse', len(lines))
    for (s, text, key), l, a, m in zip(meta, lines, impl, model):
        if a.startswith('1|'):
            ctx.nontriv(('zh', key))
        if a != m:
            dtres.report(ctx, 'correspondence', 'zh-time-parser', 'ChineseTimeParser.parse(%r) groups %r: implementation %s, model %s' % (
                text, key, a, m), failing_input={'op': l, 'text': text, 'groups': list(key), 'implementation': a, 'model': m})
    if lines:
        ctx.sample({'op': lines[len(lines) // 2], 'implementation': impl[len(lines) // 2]})


def unit_resolution(ctx, T):
    """_date_time_resolution (+ _resolve_ampm, _generate_from_resolution) on synthetic slots."""
    from recognizers_date_time.date_time.parsers import DateTimeParseResult
    merged = T.merged()
    U = T.utilities
    F = U.DateTimeFormatUtil
    TT = T.TimeTypeConstants
    key = {'date': TT.DATE, 'time': TT.TIME, 'datetime': TT.DATETIME}
    fmt = {'date': F.format_date, 'time': F.format_time, 'datetime': F.format_date_time}
    cases = []
    dates = [(2019, 3, 5), (1, 1, 1), (2020, 2, 29), (1, 1, 2), (9999, 12, 31)]
    times = [(h, m, s) for h in (0, 1, 7, 11, 12, 13, 23) for m, s in ((0, 0), (30, 0), (59, 59))]
    for dtype in ('time', 'datetime', 'date'):
        for comment in ('', 'ampm'):
            for (h, m, s) in times:
                for d1, d2 in ((dates[0], dates[0]), (dates[0], dates[2]), (dates[1], dates[1]), (dates[1], dates[0]),
                               (dates[0], dates[1]), (dates[3], dates[4])):
                    tparts = ['T%02d' % h, 'T%02d:%02d' % (h, m), 'T%02d:%02d:%02d' % (h, m, s)]
                    for tp_ in tparts:
                        timex = {'time': tp_, 'datetime': '%04d-%02d-%02d' % d1 + tp_, 'date': '%04d-%02d-%02d' % d1}[dtype]
                        cases.append((dtype, True, timex, comment, datetime.datetime(*d2, h, m, s), datetime.datetime(*d1, h, m, s)))
                    if dtype == 'date':
                        break
    cases.append(('time', False, 'T07', '', datetime.datetime(2019, 3, 5), datetime.datetime(2019, 3, 5)))
    cases.append(('time', True, '', 'ampm', datetime.datetime(2019, 3, 5, 7), datetime.datetime(2019, 3, 5, 7)))
    cases.append(('datetime', True, 'XXXX-WXX-1T07', 'ampm', datetime.datetime(2019, 3, 5, 7), datetime.datetime(2019, 2, 26, 7)))
    cases.append(('datetime', True, 'PRESENT_REF', 'ampm', datetime.datetime(2019, 3, 5, 7), datetime.datetime(2019, 3, 5, 7)))
    seen = set()
    lines, impl = [], []
    for c in cases:
        if c in seen:
            continue
        seen.add(c)
        dtype, ok, timex, comment, fut, past = c
        from recognizers_text.extractor import ExtractResult
        src = ExtractResult()
        src.start, src.length, src.text, src.type = 0, 1, 'x', dtype
        slot = DateTimeParseResult(src)
        slot.type = dtype
        if ok:
            val = U.DateTimeResolutionResult()
            val.success = True
            val.timex = timex
            val.comment = comment
            val.future_value, val.past_value = fut, past
            val.future_resolution = {key[dtype]: fmt[dtype](fut)}
            val.past_resolution = {key[dtype]: fmt[dtype](past)}
            slot.value = val
            slot.timex_str = timex
        else:
            slot.value = None
            slot.timex_str = ''
        try:
            a = dtres.values_str(merged._date_time_resolution(slot, False, False, False))
        except Exception as e:
            a = dtres.err_kind(e)
        lines.append('\t'.join(['dt.res', dtype, dtres.b(ok), cps(timex), cps(comment), dtres.dt_field(fut), dtres.dt_field(past)]))
        impl.append(a)
    model = dtres.drive(lines)
    ctx.count('_date_time_resolution', len(lines))
    for l, a, m in zip(lines, impl, model):
        if a not in ('none',) and not a.startswith('err'):
            ctx.nontriv(('res', l))
        if a != m:
            dtres.report(ctx, 'correspondence', 'date_time_resolution', '%s: implementation %s, model %s' % (l.replace('\t', ' '), a, m),
                       failing_input={'op': l, 'implementation': a, 'model': m})
    ctx.sample({'op': lines[7], 'implementation': impl[7]})


DATE_EXPRS = ['march 5, 2019', '2019-03-05', '3/5/2019', 'february 29th 2020', 'tomorrow', 'today', 'yesterday',
              'next monday', 'dec 31 2089', '1/1/1950', 'may 5', 'on friday']


def merge_variant(T):
    """'0' when merge_date_and_time shifts an hour the time parser already resolved ('tomorrow at 2 in the night' ->
    T14, finding night-attached-shift), '1' when the shift is applied to ambiguous times only."""
    r = T.datetime_parser().merge_date_and_time('tomorrow at 2 in the night', ref_dt(REFS[1]))
    return '0' if (r.success and r.timex.endswith('T14')) else '1'


def unit_merge(ctx, T, variant):
    """merge_date_and_time: record the two sub-parse results the real function obtains, feed them to the model."""
    dtp = T.datetime_parser()
    cfg = dtp.config
    calls = {}
    dp, tp = cfg.date_parser, cfg.time_parser
    odp, otp = dp.parse, tp.parse

    def rec_d(er, ref=None):
        r = odp(er, ref)
        calls['d'] = r
        return r

    def rec_t(er, ref=None):
        r = otp(er, ref)
        # snapshot: merge_date_and_time rewrites parse_result2.timex_str / .value.comment afterwards
        calls['t'] = {'ok': bool(r.value), 'timex': r.timex_str or '', 'comment': (r.value.comment or '') if r.value else '',
                      'future': r.value.future_value if r.value else None}
        return r

    times = ['7', '7:30', '12:00', '0:30', '00:15', '13:45:10', '5 pm', '12 am', '12:30 pm', '11:59:59 p.m.', '24:00',
             '7 in the morning', '7 in the evening', "7 o'clock", 'noon', 'midnight', 'half past 3', '2 in the night',
             '12 in the night', '1 at night', '11 at night', '10 in the morning', '12 in the morning', '3 in the afternoon',
             '12 in the afternoon', '11 at lunchtime', '14:00 in the morning']
    mv = merge_variant(T)
    ctx.extra['merge_word_shift_variant'] = 'only for an ambiguous time' if mv == '1' else 'always (as found)'
    lines, impl, meta = [], [], []
    dp.parse, tp.parse = rec_d, rec_t
    try:
        for de in DATE_EXPRS:
            for te in times:
                for conn in (' at ', ' '):
                    for ref in (ref_dt(REFS[1]), ref_dt(REFS[2])):
                        src = (de + conn + te).lower()
                        calls.clear()
                        try:
                            r = dtp.merge_date_and_time(src, ref)
                            a = dtres.res_str(r)
                        except Exception as e:
                            a = dtres.err_kind(e)
                        if 'd' not in calls or 't' not in calls:
                            continue   # the function returned before parsing both parts: nothing to compare
                        d, t = calls['d'], calls['t']
                        pm = T.regex.search(cfg.pm_time_regex, src) is not None
                        am = T.regex.search(cfg.am_time_regex, src) is not None
                        dv = d.value
                        f = [dtres.b(bool(dv)), cps(d.timex_str or ''),
                             dtres.dt_field(dv.future_value) if dv else '1,1,1,0,0,0',
                             dtres.dt_field(dv.past_value) if dv else '1,1,1,0,0,0',
                             dtres.b(t['ok']), cps(t['timex']), cps(t['comment']),
                             dtres.dt_field(t['future']) if t['ok'] else '1,1,1,0,0,0', dtres.b(pm), dtres.b(am)]
                        lines.append('\t'.join(['dt.merge', mv] + f))
                        impl.append(a)
                        meta.append((src, ref))
    finally:
        dp.parse, tp.parse = odp, otp
    model = dtres.drive(lines)
    ctx.count('merge_date_and_time', len(lines))
    for (src, ref), l, a, m in zip(meta, lines, impl, model):
        if a.startswith('1|'):
            ctx.nontriv(('merge', src))
        if a != m:
            dtres.report(ctx, 'correspondence', 'merge_date_and_time', 'merge_date_and_time(%r, %s): implementation %s, model %s' % (
                src, ref, a, m), failing_input={'op': l, 'source': src, 'reference': str(ref), 'implementation': a, 'model': m})
    if lines:
        ctx.sample({'op': lines[3], 'implementation': impl[3]})


def unit_time_of_today(ctx, T):
    """BaseDateTimeParser.parse_time_of_today with the English hooks (get_swift_day, get_hour): the whole-match
    groups, the time parser's result and the specific-time-of-day match are recorded / recomputed as the model's inputs."""
    dtp = T.datetime_parser()
    cfg = dtp.config
    rx = T.regex
    g = T.RegExpUtility.get_group
    tp = cfg.time_parser
    otp = tp.parse
    calls = {}

    def rec_t(er, ref=None):
        r = otp(er, ref)
        calls['t'] = {'ok': bool(r.value), 'timex': r.timex_str or '', 'future': r.value.future_value if r.value else None}
        return r

    parts = ['tonight', 'this morning', 'this afternoon', 'this evening', 'this night', 'last night', 'next morning',
             'tomorrow night', 'yesterday afternoon', 'next night', 'last evening', 'in the morning']
    times = [str(h) for h in range(0, 25)] + ['7:30', '12:00', '0:30', '13:45:10', '5 pm', '12 am', 'eight', 'twelve',
                                             'half past 3', 'noon', 'midnight', "7 o'clock", '7ish']
    srcs = []
    for p_ in parts:
        for t in times:
            srcs += ['%s at %s' % (p_, t), '%s %s' % (t, p_), 'at %s %s' % (t, p_), '%s %s' % (p_, t)]
    lines, impl, meta = [], [], []
    tp.parse = rec_t
    try:
        for i, src in enumerate(srcs):
            ref = ref_dt(REFS[i % len(REFS)])
            calls.clear()
            try:
                inner = dtp.parse_time_of_today(src, ref)
                a = dtres.res_str(inner)
            except Exception as e:
                inner = e
                a = dtres.err_kind(e)
            s_ = src.strip().lower()
            wm = next(rx.finditer(cfg.simple_time_of_today_after_regex, s_), None)
            if wm is None or wm.group() != s_:
                wm = next(rx.finditer(cfg.simple_time_of_today_before_regex, s_), None)
            if wm and wm.group() == s_:
                hs = g(wm, 'hour', None)
                f = ['whole', cps(hs) if hs else 'none', cps((g(wm, 'hournum') or '').lower()), '0', '-', '1,1,1,0,0,0']
            elif 't' in calls:
                t = calls['t']
                f = ['parsed', 'none', '-', dtres.b(t['ok']), cps(t['timex']), dtres.dt_field(t['future']) if t['ok'] else '1,1,1,0,0,0']
            else:
                f = ['nothing', 'none', '-', '0', '-', '1,1,1,0,0,0']
            m = next(rx.finditer(cfg.specific_time_of_day_regex, s_), None)
            fields = [dtres.dt_field(ref)] + f + [dtres.b(m is not None), cps(m.group().lower()) if m else '-']
            lines.append('\t'.join(['dt.tod'] + fields))
            impl.append(a)
            meta.append((src, ref))
            # the entity-level composition the theorems are about (RTV.DtRes.resolveTimeOfToday)
            lines.append('\t'.join(['dt.rtod'] + fields))
            impl.append(dtres.entity_values(T, 'datetime', inner))
            meta.append((src, ref))
    finally:
        tp.parse = otp
    model = dtres.drive(lines)
    ctx.count('parse_time_of_today', len(lines))
    for (src, ref), l, a, m in zip(meta, lines, impl, model):
        if a.startswith('1|'):
            ctx.nontriv(('tod', src))
        if a != m:
            dtres.report(ctx, 'correspondence', 'parse_time_of_today', 'parse_time_of_today(%r, %s): implementation %s, model %s' % (
                src, ref, a, m), failing_input={'op': l, 'source': src, 'reference': str(ref), 'implementation': a, 'model': m})
    ctx.sample({'op': lines[5], 'implementation': impl[5]})


def unit_time_ranges(ctx, T):
    """BaseTimePeriodParser.merge_two_time_points (the two time-point parses are snapshotted before the function rewrites
    them) and the timerange branch of _date_time_resolution / _resolve_ampm."""
    from recognizers_date_time.date_time.parsers import DateTimeParseResult
    from recognizers_text.extractor import ExtractResult
    merged = T.merged()
    tpp = merged.config.time_period_parser
    tp = tpp.config.time_parser
    otp = tp.parse
    snaps = []

    def rec_t(er, ref=None):
        r = otp(er, ref)
        snaps.append({'ok': bool(r.value), 'timex': r.timex_str or '', 'comment': (r.value.comment or '') if r.value else '',
                      'future': r.value.future_value if r.value else None})
        return r

    try:
        probe = tpp.merge_two_time_points('half past 3 to 1:05', ref_dt(REFS[1]))
        padded = '0' if (probe.success and 'T13:5,' in probe.timex) else '1'
    except Exception:
        padded = '0'
    ctx.extra['time_range_variants'] = {'to_pm wraps modulo 24': dtres.PM_WRAPS, 'merge_two_time_points pads its timex': padded == '1'}
    points = ['7', '7:30', '5:05', '12', '12:05', '11:30', '1', '3pm', '5:30pm', '11pm', '2am', '10:05', '9:07', '12am', '12pm',
              '13:15', '23:59', '0:10', 'noon', 'midnight', '7 in the morning', '9 at night', 'half past 3', '6:45 p.m.', '7:30:15']
    lines, impl, meta = [], [], []
    presults = []
    tp.parse = rec_t
    try:
        k = 0
        for a_ in points:
            for b_ in points:
                for form in ('from %s to %s', '%s to %s', 'between %s and %s', '%s - %s', '%s until %s'):
                    src = (form % (a_, b_)).lower()
                    ref = ref_dt(REFS[k % len(REFS)])
                    k += 1
                    del snaps[:]
                    try:
                        r = tpp.merge_two_time_points(src, ref)
                        if r.success:
                            mid = ref.replace(hour=0, minute=0, second=0)
                            st = int((r.future_value.start - mid).total_seconds())
                            en = int((r.future_value.end - mid).total_seconds())
                            a = '1|%s|%s|%d|%d' % (cps(r.timex), cps(r.comment or ''), st, en)
                            presults.append((r.timex, r.comment or '', r.future_value.start, r.future_value.end, st, en))
                        else:
                            a = '0|-|-|0|0'
                    except Exception as e:
                        a = dtres.err_kind(e)
                    if len(snaps) != 2:
                        continue
                    f = []
                    for sn in snaps:
                        f += [dtres.b(sn['ok']), cps(sn['timex']), cps(sn['comment']),
                              dtres.dt_field(sn['future']) if sn['ok'] else '1,1,1,0,0,0']
                    lines.append(f)
                    impl.append(a)
                    meta.append(src)
    finally:
        tp.parse = otp
    import re as _re3
    # variant of the duration text: repaired code prints integer minutes and an `…S` component
    secs = '1' if any(a.startswith('1|') and _re3.search(r'\d+S\)$', common.uncps(a.split('|')[1])) for a in impl) else '0'
    ctx.extra['time_range_variants']['integer seconds component'] = secs == '1'
    lines = ['\t'.join(['dt.m2tp', padded, secs] + f) for f in lines]
    model = dtres.drive(lines)
    ctx.count('merge_two_time_points', len(lines))
    floats = 0

    def fill_float(m):
        """the model prints `{diff}` where the code prints the interpreter's float minutes"""
        if not m.startswith('1|'):
            return m, False
        parts = m.split('|')
        tx = common.uncps(parts[1])
        if '{' not in tx:
            return m, False

        def rep(mm):
            x = int(mm.group(1)) / 60 % 60
            return str(float(x) if x % 1 else int(x))
        parts[1] = cps(_re3.sub(r'\{(\d+)\}', rep, tx))
        return '|'.join(parts), True

    for src, l, a, m in zip(meta, lines, impl, model):
        m, was_float = fill_float(m)
        floats += was_float
        if a.startswith('1|'):
            ctx.nontriv(('m2tp', src))
        if a != m:
            dtres.report(ctx, 'correspondence', 'merge_two_time_points', 'merge_two_time_points(%r): implementation %s, model %s' % (
                src, a, m), failing_input={'op': l, 'source': src, 'implementation': a, 'model': m})
    ctx.extra['time_range_spans_with_float_minutes'] = floats
    # resolution of the ranges obtained above
    TT = T.TimeTypeConstants
    F = T.utilities.DateTimeFormatUtil
    seen = set()
    lines, impl = [], []
    for timex, comment, start, end, st, en in presults:
        key = (timex, comment, st, en)
        if key in seen:
            continue
        seen.add(key)
        src = ExtractResult()
        src.start, src.length, src.text, src.type = 0, 1, 'x', 'timerange'
        slot = DateTimeParseResult(src)
        slot.type = 'timerange'
        val = T.utilities.DateTimeResolutionResult()
        val.success, val.timex, val.comment = True, timex, comment
        val.future_resolution = {TT.START_TIME: F.format_time(start), TT.END_TIME: F.format_time(end)}
        val.past_resolution = dict(val.future_resolution)
        slot.value, slot.timex_str = val, timex
        try:
            res = merged._date_time_resolution(slot, False, False, False)
            a = ';'.join('%s~%s~%s~%s' % (cps(v.get('timex', '')), cps(v.get('type', '')), cps(v.get('start', '')), cps(v.get('end', '')))
                         for v in res['values'])
        except Exception as e:
            a = dtres.err_kind(e)
        lines.append('\t'.join(['dt.tpres', '1', cps(timex), cps(comment), str(st), str(en)]))
        impl.append(a)
    model = dtres.drive(lines) if lines else []
    ctx.count('_date_time_resolution(timerange)', len(lines))
    for l, a, m in zip(lines, impl, model):
        ctx.nontriv(('tpres', l))
        if a != m:
            dtres.report(ctx, 'correspondence', 'timerange-resolution', '%s: implementation %s, model %s' % (l.replace('\t', ' '), a, m),
                         failing_input={'op': l, 'implementation': a, 'model': m})


# ---------------------------------------------------------------- pipeline

def one_entity(results, query, want_type):
    """The property's shape demand: exactly one entity, of the wanted type, covering the expression."""
    if isinstance(results, str):
        return None, results
    ents = [r for r in results]
    if len(ents) != 1:
        return None, 'expected one entity, got %d: %r' % (len(ents), [(r[2], r[3]) for r in ents])
    start, end, text, type_name, vstr, resolution = ents[0]
    if type_name != 'datetimeV2.' + want_type:
        return None, 'entity type %s, expected datetimeV2.%s' % (type_name, want_type)
    return ents[0], None


# date expressions of contracts/C07.json `words` whose date is determined by the text and the reference alone: an offset
# in days from the reference, or the calendar date written (m/d/y in en-us, d/m/y in fr-fr / it-it)
WORD_DATES = {('en-us', 'tomorrow'): 1, ('en-us', 'today'): 0, ('en-us', 'yesterday'): -1,
              ('en-us', 'march 5, 2019'): (2019, 3, 5), ('en-us', '3/5/2019'): (2019, 3, 5), ('en-us', '2019-03-05'): (2019, 3, 5),
              ('en-us', 'the 5th of may 2020'): (2020, 5, 5),
              ('fr-fr', 'demain'): 1, ('fr-fr', '5/3/2019'): (2019, 3, 5), ('it-it', 'domani'): 1, ('it-it', '5/3/2019'): (2019, 3, 5),
              ('nl-nl', 'morgen'): 1, ('zh-cn', '明天'): 1, ('zh-cn', '2019年3月5日'): (2019, 3, 5)}


def word_date(culture, d, ref):
    """-> [(timex, value)] of the date expression alone, computed from the text and the reference (None: not determined)."""
    w = WORD_DATES.get((culture, d))
    if w is None:
        return None
    day = (datetime.date(*ref[:3]) + datetime.timedelta(days=w)) if isinstance(w, int) else datetime.date(*w)
    return [(day.isoformat(), day.isoformat())]


def emit(ctx, pending, cap=25):
    """Report deferred property failures: other signatures before the (many) hour-0 cases, each signature capped so
    that one frequent finding cannot crowd the others out of the evidence."""
    n = {}
    for sig, detail, fi in sorted(pending, key=lambda p: p[0] == 'hour0-unresolved'):
        n[sig] = n.get(sig, 0) + 1
        if n[sig] <= cap or ctx.is_known(sig, common.input_key(fi)):
            dtres.report(ctx, 'property', sig, detail, failing_input=fi, property_fails=True)
    for sig, k in n.items():
        ctx.extra['failures:' + sig] = ctx.extra.get('failures:' + sig, 0) + k


def pipeline(ctx, variant):
    r = ctx.rng('pipeline')
    cases = []   # (family, query, ref, expr, want_type, expected list of (timex, value))

    culture_of = {}

    def add(family, expr, ref, want_type, expected, carrier='%s', culture='en-us'):
        culture_of[len(cases)] = culture
        cases.append((family, carrier % expr, ref, expr, want_type, expected))

    def expect_time(h, m, s, has_m, has_s, ambiguous):
        def one(hh):
            return ('T%02d' % hh + (':%02d' % m if has_m else '') + (':%02d' % s if has_s else ''), '%02d:%02d:%02d' % (hh, m, s))
        return [one(h), one((h + 12) % 24)] if ambiguous else [one(h)]

    carriers = ['%s', "let's meet at %s", 'the alarm rang at %s, nobody moved']
    # 24-hour HH:MM:SS
    if ctx.thorough:
        hms = [(h, m, s) for h in range(24) for m in range(60) for s in range(60)]
    else:
        B = [(h, m, s) for h in (0, 1, 9, 10, 11, 12, 13, 23) for m in (0, 1, 30, 59) for s in (None, 0, 59)]
        hms = B + [(r.randrange(24), r.randrange(60), r.randrange(60)) for _ in range(1500)]
    for i, (h, m, s) in enumerate(hms):
        ref = REFS[i % len(REFS)]
        carrier = carriers[i % len(carriers)] if not ctx.thorough else '%s'
        if s is None:
            add('HH:MM', '%02d:%02d' % (h, m), ref, 'time', expect_time(h, m, 0, True, False, 1 <= h <= 12), carrier)
        else:
            add('HH:MM:SS', '%02d:%02d:%02d' % (h, m, s), ref, 'time', expect_time(h, m, s, True, True, 1 <= h <= 12), carrier)
    # H:MM
    for h in range(24):
        for m in ((0, 5, 30, 59) if not ctx.thorough else range(60)):
            add('H:MM', '%d:%02d' % (h, m), REFS[(h + m) % len(REFS)], 'time', expect_time(h, m, 0, True, False, 1 <= h <= 12),
                carriers[(h + m) % len(carriers)])
    # 12-hour spellings x {am, pm, a.m., p.m., none}
    for h in range(1, 13):
        for form, has_m, m in (('%d', False, 0), ('%d:00', True, 0), ('%d:30', True, 30), ('%02d:59', True, 59)):
            for d, sp in (('am', ' am'), ('pm', ' pm'), ('am', 'am'), ('pm', 'pm'), ('am', ' a.m.'), ('pm', ' p.m.'),
                          ('am', ' AM'), ('pm', ' PM'), (None, '')):
                if d is None and not has_m:
                    continue   # a bare number is not a time expression
                core = form % h + sp
                if d is None:
                    exp = expect_time(h, m, 0, has_m, False, True)
                else:
                    hh = (0 if h == 12 else h) + (12 if d == 'pm' else 0)
                    exp = expect_time(hh, m, 0, has_m, False, False)
                add('12h-' + (d or 'none'), core, REFS[h % len(REFS)], 'time', exp, carriers[h % len(carriers)])
    # <date expr> at <time>
    date_exprs = [('march 5, 2019', lambda ref: (2019, 3, 5)), ('2019-03-05', lambda ref: (2019, 3, 5)),
                  ('3/5/2019', lambda ref: (2019, 3, 5)), ('february 29th, 2020', lambda ref: (2020, 2, 29)),
                  ('december 31 2089', lambda ref: (2089, 12, 31)),
                  ('tomorrow', lambda ref: plus(ref, 1)), ('today', lambda ref: plus(ref, 0)),
                  ('yesterday', lambda ref: plus(ref, -1))]

    def plus(ref, k):
        d = datetime.date(*ref[:3]) + datetime.timedelta(days=k)
        return (d.year, d.month, d.day)

    tlist = [(0, 15, None), (0, 0, None), (7, 30, None), (12, 0, None), (13, 45, 10), (23, 59, 59), (9, 5, None), (12, 30, 15)]
    if ctx.thorough:
        tlist += [(h, m, None) for h in range(24) for m in (0, 29)]
    for de, fn in date_exprs:
        for (h, m, s) in tlist:
            for ref in REFS:
                y, mo, d = fn(ref)
                rel = de in ('tomorrow', 'today', 'yesterday')
                dtx = '%04d-%02d-%02d' % (y, mo, d)
                tt = expect_time(h, m, s or 0, True, s is not None, 1 <= h <= 12)
                exp = [(dtx + tx, dtx + ' ' + val) for tx, val in tt]
                tstr = '%02d:%02d' % (h, m) + (':%02d' % s if s is not None else '')
                add('date-at-time' + ('-relative' if rel else ''), de + ' at ' + tstr, ref, 'datetime', exp,
                    'we land %s' if (h + m) % 2 else '%s')
    # the contract's spellings of every culture (contracts/C07.json)
    contract = load_contract()

    def fill(tpl, h, m, s):
        return (tpl.replace('{HH}', '%02d' % h).replace('{H}', str(h)).replace('{h}', str(h))
                .replace('{MM}', '%02d' % m).replace('{SS}', '%02d' % s))

    k = 0
    for culture, tpls in contract['h24'].items():
        hs = range(24) if (ctx.thorough or culture == 'en-us') else (0, 1, 9, 11, 12, 13, 19, 23)
        for tpl, _ev in tpls:
            for h in hs:
                for m, sec in (((0, 0), (30, 59), (59, 1)) if ctx.thorough else ((5 * (h % 12), 59 - h),)):
                    k += 1
                    add('h24:' + culture, fill(tpl, h, m, sec), REFS[k % len(REFS)], 'time',
                        expect_time(h, m, sec if '{SS}' in tpl else 0, '{MM}' in tpl, '{SS}' in tpl, 1 <= h <= 12), '%s', culture)
    for culture, spec in contract['h12'].items():
        for clock in spec['clock']:
            for h in range(1, 13):
                for which in ('am', 'pm'):
                    for d, _ev in spec[which]:
                        k += 1
                        m, sec = (7 * h + k) % 60, (11 * h + k) % 60
                        hh = (0 if h == 12 else h) + (12 if which == 'pm' else 0)
                        add('h12-%s:%s' % (which, culture), fill(clock, h, m, sec) + d, REFS[k % len(REFS)], 'time',
                            expect_time(hh, m if '{MM}' in clock else 0, sec if '{SS}' in clock else 0, '{MM}' in clock,
                                        '{SS}' in clock, False), '%s', culture)
    zh = contract['zh-cn']
    for tpl, _ev in zh['h24']:
        for h in (range(24) if ctx.thorough else (0, 1, 9, 11, 12, 13, 19, 23)):
            k += 1
            m = (7 * h) % 60
            add('h24:zh-cn', fill(tpl, h, m, 0), REFS[k % len(REFS)], 'time',
                expect_time(h, m, 0, True, False, 1 <= h <= 12), '%s', 'zh-cn')
    for clock in zh['h12']['clock']:
        for h in range(1, 13):
            for which, key in (('am', 'am_prefix'), ('pm', 'pm_prefix')):
                if which == 'am' and h not in zh['h12'].get('am_hours', range(1, 13)):
                    continue
                for d, _ev in zh['h12'][key]:
                    k += 1
                    m = (5 * h) % 60
                    hh = (0 if h == 12 else h) + (12 if which == 'pm' else 0)
                    add('h12-%s:zh-cn' % which, d + fill(clock, h, m, 0), REFS[k % len(REFS)], 'time',
                        expect_time(hh, m if '{MM}' in clock else 0, 0, '{MM}' in clock, False, False), '%s', 'zh-cn')
    # word times (midnight / noon …) alone and attached to date expressions, hour-12 designators after a date
    words = contract['words']
    wrefs = [REFS[1], REFS[2], REFS[3]]
    pre = []
    for culture, spec in words.items():
        if culture.startswith('_'):
            continue
        for d in spec.get('dates', []):
            for ref in wrefs:
                pre.append((culture, d, ref))
    npre = len(pre)
    for culture, spec in words.items():
        if not culture.startswith('_'):
            for w in spec.get('resolved_times', []):
                pre.append((culture, w, wrefs[0]))
    pre_res = dtres.run_queries(pre) if pre else []
    # Metamorphic part of the word-time oracle (contracts/C07.json `words`): "what the date / time expression resolves to
    # ALONE".  That expectation comes from the tree under test, so (audit item 25) (i) every expression that cannot be used
    # is counted by reason in the evidence (`word_time_skipped_by_reason`) instead of being dropped silently, and (ii) where
    # the date is determined by the text and the reference (WORD_DATES: today / tomorrow / yesterday words, full dates) the
    # expectation is computed here, independently — the tree's own reading is only compared with it (`…differs…` counter).
    skips = ctx.extra.setdefault('word_time_skipped_by_reason', {})

    def skip(reason):
        skips[reason] = skips.get(reason, 0) + 1

    def why_unusable(rr, text, tname, vtype, one_value):
        if isinstance(rr, str):
            return 'raises / times out'
        if len(rr) != 1:
            return '%d entities' % len(rr)
        if rr[0][3] != tname:
            return 'type ' + str(rr[0][3])
        if rr[0][0] != 0 or rr[0][1] != len(text) - 1:
            return 'span is not the whole expression'
        if rr[0][5] is None:
            return 'no resolution'
        if one_value and len(rr[0][5]['values']) != 1:
            return '%d values' % len(rr[0][5]['values'])
        if vtype and not all(v.get('type') == vtype and v.get('value') and v.get('value') != 'not resolved'
                             for v in rr[0][5]['values']):
            return 'unresolved / other value type'
        return None
    time_alone = {}
    for (culture, w, ref), rr in list(zip(pre, pre_res))[npre:]:
        why = why_unusable(rr, w, 'datetimeV2.time', None, True)
        if why is None:
            v = rr[0][5]['values'][0]
            time_alone[(culture, w)] = (v['timex'], v['value'])
        else:
            skip('time alone %s %r: %s' % (culture, w, why))
    pre, pre_res = pre[:npre], pre_res[:npre]
    date_alone = {}
    n_indep = 0
    for (culture, d, ref), rr in zip(pre, pre_res):
        why = why_unusable(rr, d, 'datetimeV2.date', 'date', False)
        tree = None if why else [(v['timex'], v['value']) for v in rr[0][5]['values']]
        indep = word_date(culture, d, ref)
        if indep is not None:
            n_indep += 1
            if tree != indep:
                skip('date alone %s %r: the tree reads %s, the text and the reference determine %s (the latter is demanded)' % (
                    culture, d, 'nothing usable (%s)' % why if why else tree, indep))
            date_alone[(culture, d, ref)] = indep
        elif tree is not None:
            date_alone[(culture, d, ref)] = tree
        else:
            skip('date alone %s %r: %s' % (culture, d, why))
    ctx.extra['word_time_dates_usable'] = '%d of %d (%d determined independently of the tree)' % (len(date_alone), len(pre), n_indep)
    for culture, spec in words.items():
        if culture.startswith('_'):
            continue
        for w, hh in spec.get('alone', []):
            for ref in wrefs[:2]:
                add('word-alone:' + culture, w, ref, 'time', [('T%02d' % hh, '%02d:00:00' % hh)], '%s', culture)
        for d in spec.get('dates', []):
            for ref in wrefs:
                dv = date_alone.get((culture, d, ref))
                if dv is None:
                    continue           # counted above (`word_time_skipped_by_reason`)
                for w, hh in spec.get('attach', []):
                    for form in spec.get('forms', []):
                        add('word-attached:' + culture, form.format(d=d, w=w), ref, 'datetime',
                            [(tx + 'T%02d' % hh, val + ' %02d:00:00' % hh) for tx, val in dv], '%s', culture)
                for w in spec.get('resolved_times', []):
                    if (culture, w) in time_alone:      # (unusable ones are counted above)
                        ttx, tval = time_alone[(culture, w)]
                        add('time-kept-after-date:' + culture, '%s at %s' % (d, w), ref, 'datetime',
                            [(tx + ttx, val + ' ' + tval) for tx, val in dv], '%s', culture)
                for w, hh, mm in spec.get('designators', []):
                    for form in spec.get('designator_forms', []):
                        tpart = 'T%02d' % hh + (':%02d' % mm if ':' in w else '')
                        add('designator-attached:' + culture, form.format(d=d, w=w), ref, 'datetime',
                            [(tx + tpart, val + ' %02d:%02d:00' % (hh, mm)) for tx, val in dv], '%s', culture)
        for word, kind, lo, hi in spec.get('today_words', []):
            for h in range(lo, hi + 1):
                for mi in (None, 5 * h % 60):
                    for ref in wrefs:
                        hh = h + (12 if kind == 'pm' else 0)
                        dtx = '%04d-%02d-%02d' % ref[:3]
                        tstr = '%d' % h + (':%02d' % mi if mi is not None else '')
                        add('today-word:' + culture, '%s at %s' % (word, tstr), ref, 'datetime',
                            [(dtx + 'T%02d' % hh + (':%02d' % mi if mi is not None else ''),
                              dtx + ' %02d:%02d:00' % (hh, mi or 0))], '%s', culture)
        for w, hh, mm in spec.get('designators', []):
            add('designator-alone:' + culture, w, wrefs[0], 'time',
                [('T%02d' % hh + (':%02d' % mm if ':' in w else ''), '%02d:%02d:00' % (hh, mm))], '%s', culture)
    # time ranges from two clock points (companion family: values must be well formed, C11-style; exact triple when both
    # points carry am / pm)
    range_cases = []
    rpoints = ['7', '7:30', '5:05', '12:05', '11:30', '1:05', 'half past 3', '10:05', '9:07', '3pm', '5:30pm', '11pm', '2am', '12am', '12pm']
    for i, a_ in enumerate(rpoints):
        for j, b_ in enumerate(rpoints):
            if i != j and (ctx.thorough or (i * 7 + j) % 3 == 0):
                for form in ('from %s to %s', '%s to %s'):
                    range_cases.append(('en-us', form % (a_, b_), REFS[(i + j) % len(REFS)]))
    for q_ in ('five past 1 to 3pm', 'from five past one to 3pm', '5 past 1 to 3 pm', 'half past 3 to 1:05', '1:05 to 3pm',
               'half past 3 pm to 5:00:30 pm', 'half past 3 to 5:00:20', 'noon to 5:00:30 pm', 'from noon to 1:15:45 pm'):
        range_cases.append(('en-us', q_, REFS[1]))
    ctx.extra['pipeline_cases'] = len(cases)
    results = dtres.run_queries([(culture_of[i], c[1], c[2]) for i, c in enumerate(cases)] + range_cases)
    range_results = results[len(cases):]
    results = results[:len(cases)]
    import re as _re2
    tpart = r'T([01]\d|2[0-3])(:[0-5]\d){0,2}'
    range_timex = _re2.compile(r'^\(' + tpart + ',' + tpart + r',PT(\d+H)?(\d+M)?(\d+S)?\)$')
    clock = _re2.compile(r'^([01]\d|2[0-3]):[0-5]\d:[0-5]\d$')
    rpend = []
    nrange = 0
    for (culture, q, ref), rr in zip(range_cases, range_results):
        if isinstance(rr, str):
            continue
        for ent in rr:
            if ent[3] != 'datetimeV2.timerange' or ent[5] is None:
                continue
            nrange += 1
            for v in ent[5]['values']:
                st, en, tx = v.get('start', ''), v.get('end', ''), v.get('timex', '')
                bad = None
                if not clock.match(st) or not clock.match(en):
                    bad, sig = 'start %r / end %r is not a clock time' % (st, en), 'timerange-pm-overflow'
                elif tx.startswith('(') and not range_timex.match(tx):
                    bad = 'TIMEX %r is not (Thh[:mm[:ss]],Thh[:mm[:ss]],PT[nH][nM][nS])' % tx
                    sig = 'timerange-float-minutes' if '.' in tx.split(',')[-1] else 'timerange-loose-timex'
                else:
                    # the duration must be end - start (modulo a day)
                    mm = _re2.match(r'.*,PT(?:(\d+)H)?(?:(\d+)M)?(?:(\d+)S)?\)$', tx)
                    if mm and tx.startswith('('):
                        dur = int(mm.group(1) or 0) * 3600 + int(mm.group(2) or 0) * 60 + int(mm.group(3) or 0)
                        sec = lambda t: int(t[0:2]) * 3600 + int(t[3:5]) * 60 + int(t[6:8])
                        if (sec(en) - sec(st)) % 86400 != dur % 86400:
                            bad, sig = 'duration %d s is not end - start (%s .. %s)' % (dur, st, en), 'timerange-duration-mismatch'
                if bad:
                    rpend.append((sig, 'parse[en-us](%r, ref %s): value %r: %s' % (q, ref, v, bad),
                                  {'op': 'recognize_datetime', 'culture': 'en-us', 'query': q, 'reference': list(ref),
                                   'value': v, 'observed': bad}))
                else:
                    ctx.nontriv(('range', q, tx))
    ctx.count('pipeline:time-range-wellformed:en-us', len(range_cases))
    ctx.extra['time_range_entities'] = nrange
    emit(ctx, rpend)
    fam = {}
    pending = []
    for idx, ((family, q, ref, expr, want_type, expected), res) in enumerate(zip(cases, results)):
        culture = culture_of[idx]
        fam[family] = fam.get(family, 0) + 1
        ent, bad = one_entity(res, q, want_type)
        got = None
        if ent is not None:
            start, end, text, type_name, vstr, resolution = ent
            lo = q.lower().find(expr.lower())
            if not (start <= lo and end >= lo + len(expr) - 1):
                bad = 'entity [%d,%d] %r does not cover the expression %r' % (start, end, text, expr)
            elif resolution is None:
                bad = 'entity %r has no resolution (resolution = None)' % text
            else:
                got = [(v.get('timex'), v.get('value')) for v in resolution['values']]
                types = {v.get('type') for v in resolution['values']}
                # C07 demands exactly the readings (for an ambiguous clock time: the two readings twelve hours apart),
                # NOT an order of them (C09 is the property that orders the past and the future candidate of a date)
                unordered = lambda l: sorted(l, key=lambda x: (str(x[0]), str(x[1])))
                if unordered(got) != unordered(expected) or types != {want_type}:
                    bad = 'values %r, expected (in any order) %r of type %s' % (got, expected, want_type)
        if bad is None:
            ctx.nontriv(('pipe', q))
            ctx.passed(common.input_key({'culture': culture, 'query': q, 'reference': list(ref)}))
            continue
        hour0 = expected[0][0].split('T')[1].startswith('00') and ('no resolution' in bad)
        # finding afternoon-12: `12 <plain pm designator>` comes back with both readings (12:00 and 00:00)
        noon12 = (family.startswith('h12-pm') and expected[0][0].startswith('T12') and got is not None and len(got) == 2
                  and got[0] == expected[0] and got[1][0].startswith('T00'))
        # finding zh-ampm-any-hour: ChineseTimeParser comments every description-less time `ampm`, so hour 0 and hours
        # 13..23 get a second reading twelve hours later (`T25:31`)
        zh_ampm = (culture == 'zh-cn' and family.startswith('h24') and got is not None and len(expected) == 1
                   and len(got) == 2 and got[0] == expected[0])
        sig = ('hour0-unresolved' if hour0 else 'afternoon-12' if noon12 else 'zh-ampm-any-hour' if zh_ampm
               else 'clock-%s' % family)
        if family.startswith('time-kept-after-date'):
            # finding night-attached-shift: the PM word `night` shifts an hour the time parser had resolved to am
            sig = 'night-attached-shift' if 'night' in q else 'time-kept-after-date-%s' % culture
        if family.startswith('word-attached'):
            import re as _re
            # stable signatures of the word-time findings of the unchanged tree
            if culture == 'nl-nl' and 'middernacht' in q and got and all(t.endswith('T12') for t, _ in got):
                sig = 'nl-midnight-noon'
            elif culture == 'en-us' and (_re.search(r'\d{4}-\d{2}-\d{2} at ', q) or _re.match(r'[a-z0-9 -]+ \d+/\d+/\d{4}$', q)) \
                    and 'expected one entity' not in (bad or '') and 'type datetimeV2.date' in (bad or ''):
                sig = 'digit-date-word-time'
            elif culture == 'it-it' and 'mezzanotte' in q:
                sig = 'it-midnight-attached'
            elif culture == 'en-us' and _re.search(r' at 12 (noon|midnight)$', q):
                sig = 'date-at-12-word'
            else:
                sig = 'word-time-%s' % culture
        pending.append((sig, 'parse[%s](%r, ref %s): %s' % (culture, q, ref, bad),
                        {'op': 'recognize_datetime', 'culture': culture, 'query': q, 'reference': list(ref),
                         'expected_values': expected, 'observed': bad}))
    emit(ctx, pending)
    for k, v in fam.items():
        ctx.count('pipeline:' + k, v)
    ctx.sample({'query': cases[0][1], 'reference': list(cases[0][2]), 'expected': cases[0][5]})
    ctx.sample({'query': cases[-1][1], 'reference': list(cases[-1][2]), 'expected': cases[-1][5]})


def replay_witness(ctx, T, variant):
    """The negative theorem's witness (clock24_hour0_unresolved: 00:30) replayed on the public API of the working tree."""
    obs = {}
    for q in ('00:30', 'tomorrow at 00:15'):
        rs = T.model('en-us').parse(q, ref_dt(REFS[1]))
        obs[q] = [(r.text, r.type_name, None if r.resolution is None else
                   [(v.get('timex'), v.get('value')) for v in r.resolution['values']]) for r in rs]
    ctx.extra['witness_replay'] = obs
    want = {'00:30': [('00:30', 'datetimeV2.time', [('T00:30', '00:30:00')])],
            'tomorrow at 00:15': [('tomorrow at 00:15', 'datetimeV2.datetime', [('2016-11-08T00:15', '2016-11-08 00:15:00')])]}
    for q, w in want.items():
        if obs[q] != w:
            unresolved = len(obs[q]) == 1 and obs[q][0][2] is None
            dtres.report(ctx, 'property', 'hour0-unresolved' if unresolved else 'hour0-witness',
                       'parse(%r, ref %s): %r, the property demands %r (model variant of the tree: %s)' % (
                           q, REFS[1], obs[q], w, 'if not hour' if variant == '1' else 'repaired'),
                       failing_input={'op': 'recognize_datetime', 'culture': 'en-us', 'query': q, 'reference': list(REFS[1]),
                                      'expected_values': w, 'observed': str(obs[q])}, property_fails=True)


def correspond(ctx):
    T = dtres.Tree()
    ctx.extra['fingerprints'] = dtres.fingerprints(T, ['time', 'merged'])
    variant = variant_of_tree(T)
    replay_witness(ctx, T, variant)
    ctx.extra['hour0_variant'] = 'if not hour (00:30 unresolved)' if variant == '1' else 'repaired (is None)'
    unit_format(ctx, T)
    unit_match_to_time(ctx, T, variant)
    unit_word_hour(ctx, T)
    unit_zh_time(ctx, T)
    unit_resolution(ctx, T)
    unit_merge(ctx, T, variant)
    unit_time_of_today(ctx, T)
    unit_time_ranges(ctx, T)
    timefrontcorr.run(ctx, T, variant)   # parse_basic_regex_match: text -> groups (RTV.Model.TimeFront; Props/C07Front)
    timeperiodcorr.run(ctx, T)   # BaseTimePeriodParser / BaseDateTimeParser computations (RTV.Model.TimePeriod; Props/C07TimePeriod)
    pipeline(ctx, variant)


def search(ctx, proof_problems):
    timefrontcorr.search(ctx, proof_problems, variant_of_tree)   # front-end obligations: layout x time grid, replayed on the pipeline
