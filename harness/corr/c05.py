"""C05 — every listed unit spelling maps to its canonical unit and keeps the number.

Tie of RTV.Model.Unit to the working tree:
  unit level   (f) recorded calls of the real `NumberWithUnitExtractor.extract` / `_select_candidates` /
                   `BaseMergedUnitExtractor.extract` (lib/uxrec.py: matcher, number-extractor and regex inputs recorded from the
                   harness process) replayed through RTV.Model.UnitExtract — every table row and seeded multi-entity sentences;
               (a) `bind_dictionary` over the tables wired into every registered model's parser configuration ==
                   the model's `buildUnitMap` (whole bound map, order included);
               (b) real `NumberWithUnitParser.parse` on hand-built extract results `"7 <form>"` / `"<form> 7"` for every
                   row == the model's `parseUnit`;  (c) unit-key assembly on seeded texts;  (e) compound amounts: the REAL
                   `BaseCurrencyParser.parse` -> `__merge_compound_unit` on hand-built compound extract results of every
                   culture (15-digit boundary amounts, every ratio class incl. 5 / 4 / 20 / 10^8, SYS_NUM parts, unknown and
                   fake-ISO main units, foreign fractions, several groups) == `RTV.Unit.mergeCompound` (`uc.merge`).
  pipeline     every (culture, entity type, unit, spelling) row of the prefix/suffix tables through
               recognize_currency/dimension/temperature/age with the property's own oracle: one entity spanning the
               expression, unit = the canonical name of the FIRST ROW OF THE TABLES (suffix table, then prefix table) that
               lists the spelling — computed from the tables, not from the implementation's unit_map (`unitmap_lookup` is the
               theorem that the bound map does the same), value = what the number model gives for the numeral, ISO
               code = the table's; every main/fraction pair of CurrencyFractionMapping × amounts (value demanded to the 15
               significant digits of the number model: `compound_precision_witness`).
Rows that the unchanged tree already fails are listed one by one in known_findings.json (signature = the row)."""
import multiprocessing as mp
import os
from decimal import Decimal
from fractions import Fraction

from lib import common, recog, uxrec
from lib.common import cps, uncps

PROP = 'C05'
LEVEL = 'proof'
PROPS_MODULES = ['RTV.Props.C05', 'RTV.Props.C05Compound']
GEN = ['chartables']
REQUIRED_THEOREMS = ['unitmap_lookup', 'unitmap_listed', 'key_assembly_suffix', 'key_assembly_prefix',
                     'parse_suffix_unit', 'parse_prefix_unit', 'iso_code_is_table_code', 'iso_fake_code_dropped',
                     'iso_unlisted_is_none', 'currency_suffix_unit_and_iso',
                     # RTV.Props.C05Compound: __merge_compound_unit on the Dec layer (15-digit context, every ratio)
                     'compound_value_exact', 'fraction_quotient_exact', 'compound_precision_witness', 'merge_main_fraction',
                     'compound_end_to_end', 'compound_cents_lost_witness',
                     # the value side (RTV.Unit.parseFull)
                     'parseFull_unit', 'parse_value_is_number_resolution', 'parse_half_adds_point_five',
                     'parse_half_concatenates_witness', 'extract_then_parse_value',
                     # the extractor (RTV.Model.UnitExtract)
                     'nwu_longest_suffix_wins', 'nwu_furthest_reach_partial', 'nwu_furthest_reach_counterexample',
                     'nwu_suffix_span', 'nwu_prefix_span', 'nwu_result_text_is_slice', 'nwu_result_text_is_slice_full',
                     'nwu_relative_number_start', 'extract_then_parse_unit', 'select_no_conflict_identity',
                     'select_results_from_input', 'select_returns_partial', 'select_misaligned_raises',
                     'extractPre_lockstep_returns', 'filter_ambiguity_only_removes', 'filter_ambiguity_preserves_pairwise',
                     'filter_ambiguity_entry', 'filter_ambiguity_identity',
                     'separate_units_appended_disjoint', 'separate_units_pairwise_disjoint', 'expand_half_shape',
                     'expand_half_text_is_slice_partial', 'nwu_extract_text_is_slice', 'nwu_expand_half_stale_witness',
                     'nwu_prefix_only_result', 'nwu_prefix_only_suppressed_witness', 'merged_result_text_is_slice']
RULE = ('exhaustive over every (culture, model, prefix|suffix, unit, spelling) row of the tables wired into the registered '
        'NumberWithUnit models (first extractor/parser pair of each model) × numerals {7} (quick) or {7, 1,234, 0.5 in the '
        'culture\'s marks} (thorough); all main/fraction pairs of CurrencyFractionMapping with an English spelling × '
        'N in {1,5,1999} × M; non-trivial = distinct row that produced at least one entity; extractor unit level: every '
        'row × every extractor/parser pair of every registered model + seeded multi-entity sentences (160 per pair quick, '
        '1500 thorough) through the recorded real NumberWithUnitExtractor.extract')
ASSUMPTIONS = ['NumberWithUnitExtractor.extract / _extract_separate_units / _select_candidates / expand_half_suffix are modelled '
               '(RTV.Model.UnitExtract) as a function of their inputs from un-modelled parts, which are PARAMETERS of the '
               'model and universally quantified in the theorems: StringMatcher results (the matcher itself is C16), the '
               'number extractor\'s results, the matches of non_unit_regex / separate_regex / '
               'ambiguous_unit_number_multiplier_regex / half_unit_regex, and for _filter_ambiguity (modelled) the outcomes of '
               'its key / value / single-char-unit regexes per result text; the correspondence records them on every '
               'replayed call',
               'BaseMergedUnitExtractor grouping (__merge_pure_number / __merged_compound_units) is modelled as span '
               'arithmetic with the connector-regex test per gap as a parameter (theorem: merged_result_text_is_slice)',
               'str.lower is modelled per code point (final-sigma rule not modelled)']
CJK = ('zh-cn', 'ja-jp')


def configs():
    """[(model_type, culture, parser_config, extractor_config)] for the first (own-culture) pair of every model."""
    out = []
    for (rec, mt, cul) in recog.all_pairs():
        if rec != 'NumberWithUnit':
            continue
        m = recog.get_model(rec, mt, cul)
        ep = m.extractor_parser[0]
        out.append((mt, cul, ep.parser.config, ep.extractor.config, ep.parser))
    return out


def rows_of(exc):
    rows = []
    for kind, tbl in (('suffix', exc.suffix_list), ('prefix', exc.prefix_list)):
        for unit, forms in (tbl or {}).items():
            for f in forms.strip().split('|'):
                if f:
                    rows.append((kind, unit, f))
    return rows


def first_listing(exc):
    """spelling -> canonical name of the FIRST row, suffix table then prefix table, that lists it (rows with an empty key
    are skipped, as bind_dictionary does) — read from the tables only"""
    out = {}
    for tbl in (exc.suffix_list, exc.prefix_list):
        for unit, forms in (tbl or {}).items():
            if not unit:
                continue
            for f in forms.strip().split('|'):
                if f and f not in out:
                    out[f] = unit
    return out


def numerals(culture, thorough):
    if not thorough:
        return [('int', '7', '7')]
    comma_dot = culture in ('en-us', 'zh-cn', 'ja-jp', 'es-mx')
    if comma_dot:
        return [('int', '7', '7'), ('grouped', '1,234', '1234'), ('decimal', '0.5', '0.5')]
    return [('int', '7', '7'), ('grouped', '1.234', '1234'), ('decimal', '0,5', '0,5')]


def query_for(culture, kind, form, num):
    sep = '' if culture in CJK else ' '
    return (num + sep + form) if kind == 'suffix' else (form + sep + num)


def _pipeline_chunk(chunk):
    out = []
    for (mt, cul, kind, unit, form, nk, num, q) in chunk:
        try:
            rs = recog.parse('NumberWithUnit', mt, cul, q)
            got = [(r.start, r.end, r.text, dict(r.resolution) if r.resolution else None) for r in rs]
        except Exception as e:  # the models swallow their own exceptions; anything here is unexpected
            got = 'EXC %s: %s' % (type(e).__name__, e)
        out.append(got)
    return out


def table_fields(tbl):
    f = [str(len(tbl))]
    for k, v in tbl.items():
        f += [cps(k), cps(v)]
    return f


def parser_tables(cfg_cls_tables):
    return cfg_cls_tables


def correspond(ctx):
    common.setup_repo_imports()
    import recognizers_number_with_unit
    common.assert_tree_modules(recognizers_number_with_unit)
    from recognizers_text.extractor import ExtractResult
    from recognizers_number_with_unit.number_with_unit.parsers import NumberWithUnitParser
    from recognizers_number_with_unit.number_with_unit.utilities import DictionaryUtility
    from recognizers_number_with_unit.resources.base_currency import BaseCurrency
    cfgs = configs()

    # ------------------------------------------------------------------ unit level (a)+(b): bind + parse per config
    lines, expect, meta = [], [], []
    for (mt, cul, pc, exc, parser) in cfgs:
        # the source tables in the order the configuration binds them: recovered by re-binding candidates is not
        # possible in general, so we take the extractor's suffix then prefix tables (what the parser configs of every
        # culture bind, in that order) and let the comparison with the real unit_map decide
        tables = [t for t in (exc.suffix_list, exc.prefix_list) if t]
        real = pc.unit_map
        rebound = {}
        for t in tables:
            DictionaryUtility.bind_dictionary(t, rebound)
        same_source = (list(rebound.items()) == list(real.items()))
        if not same_source:
            # the parser's unit_map is NOT what binding the suffix then the prefix table gives: the bind tie cannot run for
            # this configuration — said in the evidence, never silently; the parse tie below still runs, on one pseudo-table
            # that reproduces the real map (one row per bound spelling, in the map's order)
            ctx.notes.append('%s %s: parser unit_map is not suffix+prefix tables in that order; bind tie skipped' % (mt, cul))
            ctx.extra.setdefault('unit_map_not_rebuilt_from_tables', []).append(
                {'model_type': mt, 'culture': cul, 'bound_entries': len(real), 'rebound_entries': len(rebound),
                 'first_difference': next((list(a) + list(b) for a, b in zip(real.items(), rebound.items()) if a != b), None)})
            ctx.count('bind_dictionary tie skipped (unit_map not from the tables)', 1)
        tf = [str(len(tables))]
        for t in tables:
            tf += table_fields(t)
        if not same_source:
            tf = ['1', str(len(real))]
            for form_, unit_ in real.items():
                tf += [cps(unit_), cps(form_)]
        if same_source:
            lines.append('\t'.join(['bindall'] + tf))
            expect.append(';'.join(cps(k) + '=' + cps(v) for k, v in real.items()))
            meta.append(('bindall', mt, cul, None))
            ctx.count('bind_dictionary', 1)
        # (b) parse rows
        base_parser = parser if isinstance(parser, NumberWithUnitParser) else getattr(parser, 'number_with_unit_parser', None)
        if base_parser is None:
            continue
        qs, exp_units = [], []
        for kind, unit, form in rows_of(exc):
            num = '7'
            sep = '' if cul in CJK else ' '
            text = (num + sep + form) if kind == 'suffix' else (form + sep + num)
            nstart = 0 if kind == 'suffix' else len(form + sep)
            er = ExtractResult()
            er.start, er.length, er.text, er.type = 0, len(text), text, exc.extract_type
            ner = ExtractResult()
            ner.start, ner.length, ner.text, ner.type = nstart, len(num), num, 'builtin.num.integer'
            ner.data = 'Integer' + ('Num' if True else '')
            er.data = ner
            try:
                pr = base_parser.parse(er)
                u = pr.value.unit if pr.value is not None else None
            except Exception as e:
                u = 'EXC:' + type(e).__name__
            qs += [cps(text), str(nstart), str(len(num))]
            exp_units.append(cps(u) if u is not None and not str(u).startswith('EXC:') else ('none' if u is None else u))
        conn = getattr(pc, 'connector_token', '') or ''
        lines.append('\t'.join(['parseunits', cps(conn)] + tf + [str(len(exp_units))] + qs))
        expect.append(';'.join(exp_units))
        meta.append(('parseunits', mt, cul, rows_of(exc)))
        ctx.count('NumberWithUnitParser.parse (unit tier)', len(exp_units))
    model = common.driver(lines)
    for (op, mt, cul, rws), a, b in zip(meta, expect, model):
        if a == b:
            continue
        if op == 'bindall':
            ai, bi = a.split(';'), b.split(';')
            k = next((i for i, (x, y) in enumerate(zip(ai, bi)) if x != y), min(len(ai), len(bi)))
            ctx.report('correspondence', 'bind_dictionary', '%s %s: bound unit map differs at entry %d: implementation %s, model %s' % (
                mt, cul, k, ai[k:k + 1], bi[k:k + 1]), failing_input={'op': op, 'model_type': mt, 'culture': cul, 'entry': k})
        else:
            ai, bi = a.split(';'), b.split(';')
            for i, (x, y) in enumerate(zip(ai, bi)):
                if x != y:
                    kind, unit, form = rws[i]
                    bad = (x == 'none' or uncps(x) != pc_expected(cfgs, mt, cul, form)) if not x.startswith('EXC') else True
                    ctx.report('correspondence', 'parse-unit', '%s %s row (%s, %r, %r): implementation %s, model %s' % (
                        mt, cul, kind, unit, form, x if x in ('none',) or x.startswith('EXC') else uncps(x),
                        y if y == 'none' else uncps(y)),
                        failing_input={'op': 'NumberWithUnitParser.parse', 'model_type': mt, 'culture': cul, 'kind': kind,
                                       'unit': unit, 'form': form}, property_fails=False)
                    break

    # (c) key assembly on seeded texts
    r = ctx.rng('keys')
    lines, expect = [], []
    probe = cfgs[0][4] if isinstance(cfgs[0][4], NumberWithUnitParser) else cfgs[0][4].number_with_unit_parser
    pool = list('ab $/()k7 ') + ['°', '中']
    for _ in range(3000 if ctx.thorough else 600):
        text = ''.join(r.choice(pool) for _ in range(r.randint(1, 12)))
        ns = r.randint(-1, len(text))
        nl = r.randint(0, 3)
        # replicate the loop through the real parser object: it is private, so drive `parse` with an empty unit map
        keys = _real_unit_keys(text, ns, nl)
        lines.append('ukeys\t%s\t%d\t%d' % (cps(text), ns, nl))
        expect.append(';'.join(cps(k) for k in keys))
    model = common.driver(lines)
    ctx.count('unit keys', len(lines))
    for l, a, b in zip(lines, expect, model):
        if a != b:
            ctx.report('correspondence', l.split('\t')[0], '%s: implementation %s, model %s' % (l, a, b),
                       failing_input={'op': l}, property_fails=False)

    # (e) compound amounts: the REAL BaseCurrencyParser.parse (__merge_compound_unit) vs RTV.Unit.mergeCompound
    compound_level(ctx, cfgs)
    # (f) the extractor: recorded calls of NumberWithUnitExtractor.extract replayed through RTV.UnitExtract
    extractor_level(ctx, cfgs)
    # (g) the whole NumberWithUnitParser.parse (unit + number part) on what the real extractor hands over
    parser_level(ctx)

    # ------------------------------------------------------------------ pipeline: every row through recognize_*
    jobs = []
    for (mt, cul, pc, exc, parser) in cfgs:
        um = pc.unit_map
        iso_map = getattr(pc, 'currency_name_to_iso_code_map', None) or {}
        rq = ctx.rng('row-numerals', mt, cul)
        for kind, unit, form in rows_of(exc):
            # quick tier: the numeral 7 on every row, the grouped and the decimal numeral on a seeded tenth of the rows
            more = ctx.thorough or rq.random() < 0.1
            for nk, num, val in numerals(cul, more):
                q = query_for(cul, kind, form, num)
                jobs.append((mt, cul, kind, unit, form, nk, num, q))
            # a spelling that itself contains a digit ('m2', 'km^3', 'ft2'): the numeral made of that digit — the unit key
            # is cut out of the text AROUND the number's position, so the two equal digits must not be confused
            for dch in sorted({c for c in form if c in '0123456789'} - {'0'}):
                jobs.append((mt, cul, kind, unit, form, 'digit:' + dch, dch, query_for(cul, kind, form, dch)))
    chunks = [jobs[i::128] for i in range(128)]
    with mp.Pool(min(16, os.cpu_count() or 4)) as pool_:
        results = pool_.map(_pipeline_chunk, chunks)
    flat = {}
    for ch, res in zip(chunks, results):
        for j, g in zip(ch, res):
            flat[j] = g
    exp_by = {(mt, cul): (first_listing(exc), pc.unit_map, getattr(pc, 'currency_name_to_iso_code_map', None) or {})
              for (mt, cul, pc, exc, parser) in cfgs}
    clashes = 0
    map_vs_table = {}
    for j in jobs:
        (mt, cul, kind, unit, form, nk, num, q) = j
        got = flat[j]
        first, um, iso_map = exp_by[(mt, cul)]
        # the property's expectation comes from the TABLE: the first row (suffix table, then prefix table) listing the spelling
        # (theorem unitmap_lookup: that is what bind_dictionary binds); the implementation's unit_map is only compared
        expected_unit = first.get(form)
        if expected_unit != unit:
            clashes += 1
        if um.get(form) != expected_unit:
            k_ = '%s:%s' % (cul, mt)
            map_vs_table[k_] = map_vs_table.get(k_, 0) + 1
        val = nk[6:] if nk.startswith('digit:') else dict((a, c) for a, b, c in numerals(cul, True)).get(nk)
        ok = False
        why = ''
        if isinstance(got, str):
            why = got
        elif len(got) != 1:
            why = '%d entities' % len(got)
        else:
            s, e, text, res = got[0]
            if not res:
                why = 'no resolution'
            elif res.get('unit') != expected_unit:
                why = 'unit %r' % res.get('unit')
            elif res.get('value') != val:
                why = 'value %r' % res.get('value')
            elif (s, e) != (0, len(q) - 1):
                why = 'span [%d,%d]' % (s, e)
            elif mt == 'CurrencyModel':
                iso = iso_map.get(expected_unit)
                if iso and not iso.startswith('_'):
                    if res.get('isoCurrency') != iso:
                        why = 'isoCurrency %r (table says %r)' % (res.get('isoCurrency'), iso)
                    else:
                        ok = True
                else:
                    ok = True
            else:
                ok = True
        ctx.count('row %s %s' % (mt, cul))
        if ok:
            ctx.nontriv((mt, cul, kind, unit, form))
        else:
            sig = 'row:%s:%s:%s:%s:%s' % (cul, mt, kind, unit, form)
            ctx.report('property', sig, '%s %s: %r expected one entity unit=%r value=%r; %s; got %r' % (
                mt, cul, q, expected_unit, val, why, got if isinstance(got, str) else got[:3]),
                failing_input={'model_type': mt, 'culture': cul, 'query': q, 'expected_unit': expected_unit,
                               'expected_value': val, 'got': got if isinstance(got, str) else got[:3]},
                property_fails=True)
    ctx.extra['spellings_listed_by_an_earlier_row'] = clashes
    ctx.extra['unit_map_entry_differs_from_first_listing_row'] = map_vs_table
    ctx.sample({'query': jobs[len(jobs) // 3][-1], 'result': flat[jobs[len(jobs) // 3]]})

    # ------------------------------------------------------------------ pipeline: compound currency (English spellings)
    from recognizers_number_with_unit.resources.english_numeric_with_unit import EnglishNumericWithUnit as E
    frac_code = E.FractionalUnitNameToCodeMap           # fraction unit name -> CODE
    name_iso = E.CurrencyNameToIsoCodeMap               # main unit name -> ISO
    ratios = BaseCurrency.CurrencyFractionalRatios      # fraction unit name -> ratio
    suffix = E.CurrencySuffixList
    cjobs = []
    for main, iso in name_iso.items():
        codes = (BaseCurrency.CurrencyFractionMapping.get(iso) or '').split('|')
        mforms = [f for f in suffix.get(main, '').split('|') if f and f.isascii() and f.replace(' ', '').isalpha()]
        if not mforms:
            continue
        for fname, code in frac_code.items():
            if code not in codes or fname not in ratios or not ratios[fname]:
                continue
            fforms = [f for f in suffix.get(fname, '').split('|') if f and f.isascii() and f.replace(' ', '').isalpha()]
            if not fforms:
                continue
            ratio = ratios[fname]
            for N in ([1, 5, 1999, 1234567890123, 123456789012345] if ctx.thorough else [1, 5, 123456789012345]):
                ms = sorted(set([1, 7, 14, 57, ratio - 1] if ratio > 60 else range(1, ratio)))
                for M in (ms if ctx.thorough else ms[:4]):
                    if M >= ratio:
                        continue
                    mf = mforms[-1] if N != 1 else mforms[0]
                    ff = fforms[-1] if M != 1 else fforms[0]
                    q = '%d %s and %d %s' % (N, mf, M, ff)
                    cjobs.append(('CurrencyModel', 'en-us', 'compound', main, fname, 'c', '%d/%d/%d' % (N, M, ratio), q))
    # History matters (a parser-level cache would be keyed too coarsely): every legitimate pair is asked AFTER a query
    # that pairs the same fractional unit with a main currency the tables do NOT associate it with, in the same process.
    by_frac = {}
    for j in cjobs:
        by_frac.setdefault(j[4], []).append(j)
    chunks = []
    for fname, js in sorted(by_frac.items()):
        code = frac_code[fname]
        wrong_main = next((mn for mn, iso in name_iso.items()
                           if code not in (BaseCurrency.CurrencyFractionMapping.get(iso) or '').split('|')
                           and any(f.isascii() and f.replace(' ', '').isalpha() for f in suffix.get(mn, '').split('|') if f)), None)
        pre = []
        if wrong_main:
            wf = [f for f in suffix.get(wrong_main, '').split('|') if f and f.isascii() and f.replace(' ', '').isalpha()][-1]
            ff = js[0][-1].split(' and ')[1].split(' ', 1)[1]
            pre = [('CurrencyModel', 'en-us', 'compound', '__mismatch__', fname, 'c', '0/0/1', '3 %s and 50 %s' % (wf, ff))]
        chunks.append(pre + js)
    with mp.Pool(min(16, os.cpu_count() or 4)) as pool_:
        results = pool_.map(_pipeline_chunk, chunks)
    for ch, res in zip(chunks, results):
        for j, got in zip(ch, res):
            (mt, cul, _k, main, fname, _c, nmr, q) = j
            if main == '__mismatch__':
                ctx.count('compound currency (mismatched pair asked first)')
                continue
            N, M, ratio = map(int, nmr.split('/'))
            ctx.count('compound currency')
            # "worth N + M/ratio", to the 15 significant digits the number model resolves (compound_precision_witness)
            from decimal import Context, ROUND_HALF_EVEN
            exact = Context(prec=60).divide(Decimal(N * ratio + M), Decimal(ratio))
            want = Fraction(Context(prec=15, rounding=ROUND_HALF_EVEN).plus(exact))
            ok = False
            why = ''
            if isinstance(got, str) or len(got) != 1 or not got[0][3]:
                why = 'not one resolved entity'
            else:
                s, e, text, res = got[0]
                try:
                    v = Fraction(Decimal(res.get('value')))
                except Exception:
                    v = None
                if v != want:
                    why = 'value %r, expected %s' % (res.get('value'), want)
                elif (s, e) != (0, len(q) - 1):
                    why = 'span [%d,%d]' % (s, e)
                elif res.get('unit') != main:
                    why = 'unit %r, expected the main unit %r' % (res.get('unit'), main)     # "… in the main unit"
                elif name_iso.get(main) and not name_iso[main].startswith('_') and res.get('isoCurrency') != name_iso[main]:
                    why = 'isoCurrency %r, the table assigns %r to %r' % (res.get('isoCurrency'), name_iso[main], main)
                else:
                    ok = True
            if ok:
                ctx.nontriv(('compound', main, fname, N, M))
            else:
                # a value that is printed with a binary-float artefact is the repaired defect coming back
                sig = 'compound:en-us:%s:%s' % (main, fname)
                ctx.report('property', sig, '%r: %s; got %r' % (q, why, got if isinstance(got, str) else got[:3]),
                           failing_input={'query': q, 'expected_value': str(want), 'got': got if isinstance(got, str) else got[:3]},
                           property_fails=True)
    if cjobs:
        ctx.sample({'query': cjobs[0][-1]})


RATIO_TABLE = {100, 1000, 10, 5, 4, 20, 100000000}      # RTV.Unit.ratioTable (Props/C05Compound.lean)


def _dec3(d):
    t = d.as_tuple()
    return '%d,%d,%d' % (t.sign, int(''.join(map(str, t.digits)) or '0'), t.exponent)


def _tbl(d):
    f = [str(len(d))]
    for k, v in d.items():
        f += [cps(k), cps(str(v))]
    return f


def compound_level(ctx, cfgs):
    """Unit level for `RTV.Unit.mergeCompound` (audit item 2): hand-built compound extract results (the shape
    BaseMergedUnitExtractor produces: a SYS_UNIT_CURRENCY result whose `data` is the list of its parts, each part carrying
    its number) go through the REAL `BaseCurrencyParser.parse` -> `__merge_compound_unit` of every culture's currency
    configuration; per part the real `NumberWithUnitParser.parse` answer (unit, number / plain value) is recorded and handed
    to the model, which must return the same list of (start, length, number, unit, ISO code | plain UnitValue) or the same
    exception class.  Amount grid: main amounts at the 15-digit boundary of the `@precision(prec=15)` context, fraction
    amounts 0 .. ratio and beyond, every ratio class of the culture's tables (100, 1000, 10, 5)."""
    from decimal import Decimal, InvalidOperation
    from recognizers_text.extractor import ExtractResult
    from recognizers_number_with_unit.number_with_unit.parsers import BaseCurrencyParser, NumberWithUnitParser
    r = ctx.rng('compound-unit')
    SYS_CUR, SYS_NUM = 'builtin.unit.currency', 'builtin.num'

    def num_er(text, start):
        e = ExtractResult()
        e.start, e.length, e.text, e.type = start, len(text), text, SYS_NUM
        e.data = 'DoubleNum' if any(c in text for c in '.,') else 'IntegerNum'
        return e

    def unit_er(num, form, start, typ=SYS_CUR):
        text = '%s %s' % (num, form)
        e = ExtractResult()
        e.start, e.length, e.text, e.type = start, len(text), text, typ
        e.data = num_er(num, 0)
        return e

    def simple_forms(tbl, name):
        return [f for f in (tbl.get(name) or '').split('|') if f and f.isascii() and f.replace(' ', '').isalpha()]

    lines, impl, meta = [], [], []
    hist = {}
    for (mt, cul, pc, exc, parser) in cfgs:
        if mt != 'CurrencyModel' or cul in CJK:
            continue
        name_iso = pc.currency_name_to_iso_code_map or {}
        code_list = pc.currency_fraction_code_list or {}
        ratios = pc.currency_fraction_num_map or {}
        mapping = pc.currency_fraction_mapping or {}
        suffix = exc.suffix_list or {}
        dm = ',' if cul not in ('en-us', 'es-mx') else '.'
        pairs = []
        for main, iso in name_iso.items():
            mf = simple_forms(suffix, main)
            if not mf:
                continue
            codes = (mapping.get(iso) or '').split('|')
            for fname, code in code_list.items():
                ff = simple_forms(suffix, fname)
                if code in codes and ff and ratios.get(fname):
                    pairs.append((main, mf[-1], fname, ff[-1], ratios[fname]))
        by_ratio = {}
        for pr_ in pairs:
            by_ratio.setdefault(pr_[4], []).append(pr_)
        chosen = []
        for ratio, ps in sorted(by_ratio.items()):
            chosen += ps if ctx.thorough else (ps[:2] + r.sample(ps[2:], max(0, min(2, len(ps) - 2))))
        # a main unit the tables give no ISO code (or a fake one), a fraction unit of another currency
        no_iso = [(u, simple_forms(suffix, u)[-1]) for u in suffix if not name_iso.get(u) and u not in code_list and simple_forms(suffix, u)][:2]
        fake = [(u, simple_forms(suffix, u)[-1]) for u, c in name_iso.items() if c.startswith('_') and simple_forms(suffix, u)][:2]
        ctx.extra.setdefault('compound_ratio_classes', {})[cul] = {str(k): len(v) for k, v in sorted(by_ratio.items())}
        for fname_, ratio_ in ratios.items():
            if ratio_ and ratio_ not in RATIO_TABLE:
                ctx.report('correspondence', 'compound-ratio-unlisted', '%s: currency_fraction_num_map[%r] = %r is not a ratio of '
                           'RTV.Unit.ratioTable (compound_value_exact does not speak about it)' % (cul, fname_, ratio_),
                           failing_input={'culture': cul, 'fraction_unit': fname_, 'ratio': ratio_})
        bparser = BaseCurrencyParser(pc)
        nparser = NumberWithUnitParser(pc)
        big = ['1', '5', '1999', '0', '1000000000000', '9999999999999', '10000000000000', '99999999999999', '123456789012345',
               '999999999999999', '1000000000000000', '1234567890123456', '1' + dm + '5', '0' + dm + '5', '12345678901234' + dm + '5']
        small = ['0', '1', '14', '57', '99', '250', '2' + dm + '5']
        cases = []
        for (main, mf, fname, ff, ratio) in chosen:
            ns = big if (ctx.thorough or ratio != 100) else big[:3] + r.sample(big[3:], 5)
            for N in ns:
                for M in (small + [str(ratio - 1), str(ratio)] if ctx.thorough else r.sample(small, 3) + [str(ratio - 1)]):
                    cases.append(('pair', [('u', N, mf), ('u', M, ff)]))
            cases.append(('main+num', [('u', '5', mf), ('n', '3')]))
            cases.append(('main+num', [('u', '123456789012345', mf), ('n', '3')]))
            cases.append(('main+frac+frac', [('u', '5', mf), ('u', '3', ff), ('u', '4', ff)]))
            cases.append(('frac-first', [('u', '3', ff), ('u', '5', mf)]))
            cases.append(('num-first', [('n', '7'), ('u', '5', mf), ('u', '3', ff)]))
            cases.append(('two-groups', [('u', '5', mf), ('u', '3', ff), ('u', '7', mf), ('u', '9', ff)]))
            cases.append(('main-main', [('u', '5', mf), ('u', '7', mf), ('u', '9', ff)]))
            other = next((p_ for p_ in pairs if p_[0] != main and p_[2] != fname and
                          code_list[p_[2]] not in (mapping.get(name_iso[main]) or '').split('|')), None)
            if other:
                cases.append(('foreign-fraction', [('u', '5', mf), ('u', '3', other[3]), ('u', '2', ff)]))
            for (u, f_) in no_iso:
                cases.append(('no-iso-main', [('u', '5', f_), ('u', '3', ff), ('u', '7', mf), ('u', '1', ff)]))
                cases.append(('no-iso-main-stale', [('u', '5', f_), ('u', '0', mf), ('u', '1', ff)]))
            for (u, f_) in fake:
                cases.append(('fake-iso-main', [('u', '5', f_), ('u', '3', ff)]))
        ci = pc.culture_info
        for kind, parts in cases:
            subs, pos = [], 0
            for p_ in parts:
                if p_[0] == 'u':
                    e = unit_er(p_[1], p_[2], pos)
                else:
                    e = num_er(p_[1], pos)
                subs.append(e)
                pos += e.length + 1
            comp = ExtractResult()
            comp.text = ' '.join(e.text for e in subs)
            comp.start, comp.length, comp.type, comp.data = 0, len(comp.text), SYS_CUR, subs
            items, bad_decimal = [], False
            for e in subs:
                pr = nparser.parse(e)
                v = pr.value
                is_num = e.type == SYS_NUM
                has_value = bool(v) and hasattr(v, 'unit')
                unit = getattr(v, 'unit', None) if v else None
                number = plain = 'none'
                if has_value and v.number:
                    try:
                        number = _dec3(Decimal(v.number))
                    except InvalidOperation:
                        bad_decimal = True
                if is_num:
                    try:
                        plain = _dec3(Decimal(str(v)))
                    except InvalidOperation:
                        bad_decimal = True
                items += ['1' if e.type == SYS_CUR else '0', '1' if is_num else '0', str(e.start), str(e.length),
                          '1' if has_value else '0', cps(unit) if unit is not None else 'none', number, plain]
            try:
                ret = bparser.parse(comp)
                out = []
                for x in ret.value:
                    val = x.value
                    out.append('%d:%d:%s:%s:%s' % (x.start, x.length, cps(val.number) if val.number is not None else 'None',
                                                   cps(val.unit) if val.unit is not None else 'None',
                                                   cps(val.iso_currency) if hasattr(val, 'iso_currency') and val.iso_currency is not None
                                                   else 'none'))
                got = ';'.join(out)
            except Exception as x:
                got = 'err:' + type(x).__name__
            hist[kind] = hist.get(kind, 0) + 1
            if bad_decimal:
                # `Decimal('5,5')`: the number string is printed with the culture's decimal mark, Decimal() cannot read it
                # back — the real method raises; the extractor never merges a decimal main amount, so the pipeline
                # cannot reach it; counted, not compared
                hist['Decimal(number) raises InvalidOperation (%s)' % got] = hist.get('Decimal(number) raises InvalidOperation (%s)' % got, 0) + 1
                continue
            lfs = lf_of(ci)
            lines.append('\t'.join(['uc.merge', '15', lfs] + _tbl(name_iso) + _tbl(mapping) + _tbl(code_list) + _tbl(ratios) +
                                   [str(len(subs))] + items))
            impl.append(got)
            meta.append((cul, kind, comp.text))
    model = common.driver(lines) if lines else []
    ctx.count('BaseCurrencyParser.__merge_compound_unit (real method vs RTV.Unit.mergeCompound)', len(lines))
    for (cul, kind, text), a, b in zip(meta, impl, model):
        if a and not a.startswith('err'):
            ctx.nontriv(('uc', cul, text))
        if a != b:
            ctx.report('correspondence', 'merge-compound-unit', '%s %s: BaseCurrencyParser.parse(%r): implementation %s, model %s' % (
                cul, kind, text, show_merge(a), show_merge(b)),
                failing_input={'op': 'BaseCurrencyParser.__merge_compound_unit', 'culture': cul, 'kind': kind, 'text': text,
                               'implementation': a, 'model': b}, property_fails=False)
    ctx.extra['compound_unit_cases'] = hist
    if lines:
        k = len(lines) // 2
        ctx.sample({'op': 'BaseCurrencyParser.parse (compound)', 'text': meta[k][2], 'culture': meta[k][0], 'implementation': show_merge(impl[k])})


def show_merge(s):
    if s.startswith('err') or not s:
        return s
    out = []
    for f in s.split(';'):
        a, b, n, u, i = f.split(':')
        out.append((int(a), int(b), None if n == 'None' else uncps(n), None if u == 'None' else uncps(u), None if i == 'none' else uncps(i)))
    return repr(out)


def lf_of(ci):
    """the long format `CultureInfo.format` uses: `<decimals mark>,<thousands mark>` (code points), `none` without one"""
    from recognizers_number.culture import SUPPORTED_CULTURES
    lf = SUPPORTED_CULTURES.get(ci.code) if ci is not None else None
    return '%d,%d' % (ord(lf.decimals_mark), ord(lf.thousands_mark)) if lf else 'none'


def extractor_level(ctx, cfgs):
    """Unit level for RTV.Model.UnitExtract: the REAL `NumberWithUnitExtractor.extract` of every extractor/parser pair of
    every registered model runs (in worker processes) with its matcher / number-extractor / regex inputs recorded; the
    recorded inputs are replayed through the Lean model, which must return the same result list
    (start, length, text, relative number start, type), the same `unit_is_prefix` flags and the same rewritten source;
    every recorded `_select_candidates` call is replayed on its own."""
    tasks = []
    r = ctx.rng('ux-seeds')
    n_seeded = 1500 if ctx.thorough else 160
    for (rec_, mt, cul) in recog.all_pairs():
        if rec_ != 'NumberWithUnit':
            continue
        m = recog.get_model(rec_, mt, cul)
        for k, ep in enumerate(m.extractor_parser):
            exc = ep.extractor.config
            rows = rows_of(exc)
            english_pair = k > 0
            cjk = (cul in CJK) and not english_pair
            for kind, unit, form in rows:
                for nk, num, val in numerals(cul, ctx.thorough):
                    sep = '' if cjk else ' '
                    q = (num + sep + form) if kind == 'suffix' else (form + sep + num)
                    tasks.append((mt, cul, k, 'row', q))
            sforms = [f for (kd, u, f) in rows if kd == 'suffix']
            pforms = [f for (kd, u, f) in rows if kd == 'prefix']
            seeded = uxrec.seeded_sentences(r, sforms, pforms, getattr(exc, 'connector_token', '') or '', cjk, n_seeded)
            if cjk:
                # a half-number consumed by a prefix unit whose relative start coincides with the end of an earlier result
                seeded += [uxrec.PROBE_HALF, '5元 $ 半', '7元和 $半', '3元 半', '5元半']
            for q in seeded:
                tasks.append((mt, cul, k, 'seeded', q))
            if type(ep.extractor).__name__ == 'BaseMergedUnitExtractor':
                # grouping of BaseMergedUnitExtractor (it rebuilds its matchers on every call: fewer sentences)
                for q in seeded[:(400 if ctx.thorough else 60)] + ['1 dollar and 14 cents', '5 dollars 3', '$5 usd, $ 7',
                                                                   '2.5 dollars 30 cents and 3 euros, 4']:
                    tasks.append((mt, cul, k, 'merged', q))
    # the negative witness of Props/C05 (`nwu_furthest_reach_counterexample`) is a statement about the function for an
    # arbitrary matcher; the shipped matchers cannot produce it, so it is replayed through the model only (below).
    variant = uxrec.probe_variants()
    ctx.extra['select_candidates_variant'] = ('unit_is_prefix filtered in lockstep with the ambiguity filters' if variant['lockstep']
                                              else 'unit_is_prefix NOT filtered with the results (findings/nwu/'
                                              'select-candidates-misaligned.diff not applied): %r -> %r' % (
                                                  uxrec.PROBE_SELECT, variant['probe']))
    if not variant['lockstep']:
        # fixed in /repo by e3a14a2db: seeing the old variant again is a regression (outside the property's own quantifier,
        # hence no property_fails; the model keeps following the tree so that everything else is still compared)
        ctx.report('correspondence', 'select-candidates-misaligned',
                   '%r: _select_candidates raises IndexError (unit_is_prefix is not filtered with the results), '
                   'recognize_currency returns []; theorem extractPre_lockstep_returns no longer describes the code' % uxrec.PROBE_SELECT,
                   failing_input={'op': 'NumberWithUnitExtractor.extract', 'model_type': 'CurrencyModel', 'culture': 'en-us',
                                  'source': uxrec.PROBE_SELECT, 'observed': variant['probe'], 'expected': [(18, 9, '7 dollars')]},
                   property_fails=False)
    ctx.extra['expand_half_variant'] = ('numbers keep their absolute start (fix half-stale-start)' if variant['pristine_half']
                                        else 'expand_half_suffix sees the relative starts the loop wrote: %r -> %r' % (
                                            uxrec.PROBE_HALF, variant['probe_half']))
    if not variant['pristine_half']:
        # fixed in /repo (7bd823db6); seeing the old variant again is a regression (C01's property; here the theorem
        # nwu_extract_text_is_slice no longer describes the code). The model keeps following the tree.
        ctx.report('correspondence', 'half-stale-start',
                   '%r (zh-cn currency): expand_half_suffix glues the half number onto an unrelated result: %r; theorem '
                   'nwu_extract_text_is_slice no longer describes the code' % (uxrec.PROBE_HALF, variant['probe_half']),
                   failing_input={'op': 'NumberWithUnitExtractor.extract', 'model_type': 'CurrencyModel', 'culture': 'zh-cn',
                                  'source': uxrec.PROBE_HALF, 'observed': variant['probe_half'],
                                  'expected_first': (0, 2, uxrec.PROBE_HALF[:2])}, property_fails=False)
    chunks = [({'lockstep': variant['lockstep'], 'pristine_half': variant['pristine_half']}, tasks[i::64]) for i in range(64)]
    with mp.Pool(min(16, os.cpu_count() or 4)) as pool_:
        results = pool_.map(uxrec.run_chunk, chunks)
    ops, metas = [], []
    hist = {}
    for res in results:
        for (t, tops, stats, err) in res:
            (mt, cul, k, fam, q) = t
            if err is not None:
                raise common.InfraError('recording NumberWithUnitExtractor.extract failed on %r (%s %s): %s' % (q, mt, cul, err))
            ctx.count('NumberWithUnitExtractor.extract recorded (%s)' % fam)
            for key in ('prefix', 'suffix', 'separate', 'comma', 'select_conflict', 'filtered', 'nonunit', 'half', 'cut',
                        'bracket', 'raised', 'filter_raised', 'merged_group', 'pure_number_merged'):
                if stats.get(key):
                    hist[key] = hist.get(key, 0) + 1
            if not stats['wf']:
                hist['not-wellformed'] = hist.get('not-wellformed', 0) + 1
            if stats['n']:
                ctx.nontriv(('ux', mt, cul, k, q))
            if not stats['type_ok']:
                ctx.report('correspondence', 'nwu-extract-type', '%s %s pair %d: %r: a result does not carry the configuration\'s '
                           'extract_type' % (mt, cul, k, q), failing_input={'op': 'NumberWithUnitExtractor.extract',
                                                                           'model_type': mt, 'culture': cul, 'pair': k, 'source': q})
            for op in tops:
                ops.append(op)
                metas.append(t)
    answers = common.driver([op[1] for op in ops])
    ctx.count('RTV.UnitExtract replay (ux.extract / ux.select / ux.merge)', len(ops))
    for op, t, a in zip(ops, metas, answers):
        d = uxrec.compare(op, a)
        if d is None:
            continue
        (mt, cul, k, fam, q) = t
        what = {'extract': 'NumberWithUnitExtractor.extract', 'extract-pre': 'NumberWithUnitExtractor.extract (before '
                'expand_half_suffix)', 'select': 'NumberWithUnitExtractor._select_candidates',
                'merged': 'BaseMergedUnitExtractor.extract (__merge_pure_number + __merged_compound_units)'}[op[0]]
        ctx.report('correspondence', 'nwu-' + op[0], '%s %s pair %d: %s on %r: implementation %s, model %s' % (
            mt, cul, k, what, q, uxrec.show(op[2]), uxrec.show(a)),
            failing_input={'op': what, 'model_type': mt, 'culture': cul, 'pair': k, 'source': q, 'driver_line': op[1][:2000],
                           'implementation': op[2], 'model': a}, property_fails=False)
    ctx.extra['extractor_branches_exercised'] = hist
    # witnesses of Props/C05 replayed through the compiled model (same definitions the theorems are about)
    w = common.driver(['ux.maxsuffix\t53 32 120 40 121 41\t-\t1\t2:3:120 40 121;4:1:121',
                       'ux.maxsuffix\t53 32 120 40 121 41\t-\t1\t4:1:121'])
    if w != ['4', '5']:
        ctx.report('correspondence', 'nwu-witness', 'furthest-reach witness: compiled model answers %r, theorem says [4, 5]' % (w,),
                   failing_input={'op': 'ux.maxsuffix witness'})


def parser_level(ctx):
    """Unit level for `RTV.Unit.parseFull`: every result of the real extractor (rows, seeded sentences, half phrases) goes
    through the REAL `NumberWithUnitParser.parse`; the internal number parser's `resolution_str` for the number and for the
    half are recorded and handed to the model, which must give the same outcome: no value / UnitValue(number, unit) +
    resolution_str / the exception."""
    from recognizers_number_with_unit.number_with_unit.utilities import DictionaryUtility
    r = ctx.rng('ux-parse')
    groups = {}
    for (rec_, mt, cul) in recog.all_pairs():
        if rec_ != 'NumberWithUnit':
            continue
        m = recog.get_model(rec_, mt, cul)
        for k, ep in enumerate(m.extractor_parser):
            exc, pc = ep.extractor.config, ep.parser.config
            tables = [t for t in (exc.suffix_list, exc.prefix_list) if t]
            rebound = {}
            for t in tables:
                DictionaryUtility.bind_dictionary(t, rebound)
            if list(rebound.items()) != list(pc.unit_map.items()):
                continue
            cjk = (cul in CJK) and k == 0
            rows = rows_of(exc)
            qs = []
            for kind, unit, form in rows:
                for nk, num, val in numerals(cul, ctx.thorough):
                    sep = '' if cjk else ' '
                    qs.append((num + sep + form) if kind == 'suffix' else (form + sep + num))
            sforms = [f for (kd, u, f) in rows if kd == 'suffix']
            pforms = [f for (kd, u, f) in rows if kd == 'prefix']
            qs += uxrec.seeded_sentences(r, sforms, pforms, getattr(exc, 'connector_token', '') or '', cjk,
                                         400 if ctx.thorough else 60)
            if cjk:
                qs += [n + f + '半' for f in sforms[:40] for n in ('5', '1.5', '三')] + [uxrec.PROBE_HALF, '5元 $ 半']
            tf = [str(len(tables))]
            for t in tables:
                tf += table_fields(t)
            groups[(mt, cul, k)] = (cps(getattr(pc, 'connector_token', '') or ''), tf, qs)
    tasks = [(mt, cul, k, 'parse', q) for (mt, cul, k), (_c, _tf, qs) in groups.items() for q in qs]
    chunks = [tasks[i::64] for i in range(64)]
    with mp.Pool(min(16, os.cpu_count() or 4)) as pool_:
        results = pool_.map(uxrec.run_parse_chunk, chunks)
    per = {}
    hist = {}
    for res in results:
        for (t, rows) in res:
            for row in rows:
                if row[5] == 'number-parser-raised':
                    hist['internal number parser raised (not compared)'] = hist.get('internal number parser raised (not compared)', 0) + 1
                    continue
                per.setdefault(t[:3], []).append((t[4], row))
    lines, metas = [], []
    for key, items in sorted(per.items()):
        conn, tf, _qs = groups[key]
        for a in range(0, len(items), 1500):
            part = items[a:a + 1500]
            f = []
            for (_q, (text, ns, nl, nres, hf, impl)) in part:
                f += [cps(text), str(ns), str(nl), nres, hf]
            lines.append('\t'.join(['parsefulls', conn] + tf + [str(len(part))] + f))
            metas.append((key, part))
    answers = common.driver(lines) if lines else []
    for (key, part), ans in zip(metas, answers):
        got = ans.split(';')
        for (q, (text, ns, nl, nres, hf, impl)), g in zip(part, got + ['?'] * (len(part) - len(got))):
            ctx.count('NumberWithUnitParser.parse (unit + number part) on real extract results')
            kind = 'half' if hf != 'none' else impl.split(':')[0]
            hist[kind] = hist.get(kind, 0) + 1
            if impl.startswith('u:'):
                ctx.nontriv(('parsefull', key, text))
            if g != impl:
                ctx.report('correspondence', 'nwu-parse-full', '%s %s pair %d: NumberWithUnitParser.parse on %r (from %r): '
                           'implementation %s, model %s' % (key[0], key[1], key[2], text, q, impl, g),
                           failing_input={'op': 'NumberWithUnitParser.parse', 'model_type': key[0], 'culture': key[1],
                                          'pair': key[2], 'source': q, 'extract_text': text, 'number_start': ns,
                                          'number_length': nl, 'number_resolution': nres, 'half': hf,
                                          'implementation': impl, 'model': g}, property_fails=False)
    ctx.extra['parser_outcomes'] = hist


def pc_expected(cfgs, mt, cul, form):
    for (m, c, pc, exc, parser) in cfgs:
        if (m, c) == (mt, cul):
            return pc.unit_map.get(form)
    return None


def _real_unit_keys(text, ns, nl):
    """The `while i <= len(key)` loop of NumberWithUnitParser.parse, executed by the real method: we call `parse` with a
    configuration whose unit_map is empty so that it returns right after the loop, and read the keys through a traced
    `__add_if_not_contained`."""
    from recognizers_text.extractor import ExtractResult
    from recognizers_number_with_unit.number_with_unit.parsers import NumberWithUnitParser

    class Cfg:
        unit_map = {}
        connector_token = ''
        internal_number_parser = None
    p = NumberWithUnitParser(Cfg())
    keys_seen = []
    orig = p._NumberWithUnitParser__add_if_not_contained

    def traced(keys, new_key):
        orig(keys, new_key)
        keys_seen[:] = list(keys)
    p._NumberWithUnitParser__add_if_not_contained = traced
    er = ExtractResult()
    er.start, er.length, er.text, er.type = 0, len(text), text, 'builtin.unit'
    ner = ExtractResult()
    ner.start, ner.length, ner.text, ner.type = ns, nl, 'x', 'builtin.num'
    er.data = ner
    try:
        p.parse(er)
    except IndexError:
        pass  # unit_keys[-1] on an empty list: the model answers no key as well
    return keys_seen
