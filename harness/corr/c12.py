"""C12 — entities returned by one call never overlap.

Tie: (unit) the real extractors run with their regex calls recorded, every recorded call of a modelled function
(number / sequence / IP / percentage sweeps, merged-number grouping, merge_all_tokens, BaseMergedExtractor.add_to,
the NumberWithUnit b_add filter, phone prefix re-spanning) replayed in the Lean model and compared; the theorems'
hypotheses (NegInside, NegClear, NoCrossingAll, start<=end) evaluated on every recorded call.
(pipeline) pairwise disjointness of the real ModelResults of every registered (model, culture) pair over the
Python-supported Specs inputs, generated entity expressions (alone / in carriers / several per sentence) and
noise; the predicate is evaluated in Python and by the Lean definition.  Shares lib/spancorr.py with C01."""
from lib import spancorr
from lib import dtextractcorr
from lib import dtextract2corr

PROP = 'C12'
LEVEL = 'proof'
PROPS_MODULES = ['RTV.Props.C12', 'RTV.Props.C01DtExtract', 'RTV.Props.C01DtExtract2']
GEN = ['chartables', 'preprocess']
REQUIRED_THEOREMS = ['runs_disjoint', 'sweep_disjoint', 'sweep_disjoint_ip', 'sweep_disjoint_number',
                     'sweep_disjoint_number_noNeg', 'sweep_number_neg_counterexample', 'sweep_disjoint_percent',
                     'mergeAllTokens_disjoint', 'nwu_filter_no_containment', 'nwu_filter_keeps_nested', 'nwu_filter_sym_no_nesting',
                     'addTo_crossing_counterexample', 'addTo_disjoint_of_noCrossing', 'overlap_cover_meaning',
                     'mergedExtract_disjoint', 'mergedExtract_disjoint_of_laminar', 'mergedExtract_crossing_counterexample', 'addTo_step_disjoint_iff',
                     'extClearB_iff', 'mergedExtract_disjoint_monitored', 'extClear_violation_witness', 'mergeAllTokens_len_pos',
                     'mergedExtract_disjoint_of_tokens',
                     # RTV.Props.C01DtExtract: sub-extractor tokens inside the text -> disjoint results
                     'subextractor_results_ok', 'rangePairTok_inside', 'rangeLoop_mem', 'range_from_leading_blank',
                     'tagInequality_inside', 'mergeMultipleDuration_inside', 'rangePairTok_fixed_starts_at_word',
                     'rangePairTok_fixed_clear_of_previous',
                     # RTV.Props.C01DtExtract2
                     'extractor_results_ok', 'prefixDayOne_start', 'prefixDay_leading_blank_witness', 'dtpDateWithSuffix_inside', 'tpMergeTwoTimePoints_mem']
RULE = ('pipeline: every Python-supported Specs input through its own (model, culture) pair (thorough: through every '
        'registered pair of its recogniser) + per registered pair generated queries (entity texts of the Specs and '
        'universal literals, English templates; alone / carrier / several / blank-led / adjacent / with '
        'case-expanding prefix / noise from a closed token pool) + boundary queries; oracle = no two results of one '
        'call share a character.  unit: a seeded subset of the same queries through the instrumented extractors; '
        'non-trivial = distinct query with at least one entity / distinct recorded call with at least one result')
ASSUMPTIONS = ['the regex engine is a parameter of the model: theorems quantify over every list of match spans; what '
               'the engine returned is recorded, not modelled',
               'culture configurations, sub-extractor token arithmetic of the date-time package other than '
               'merge_all_tokens / add_to / try_merge_modifier_token, and NumberWithUnit prefix/suffix selection are '
               'reached only by the pipeline monitor',
               'str.isspace / case tables exported from the running CPython']
EXPLANATION = ('add_to keeps a value that crosses a destination it does not cover (negative theorem '
               'addTo_crossing_counterexample; the Specs expect such output, so those inputs are recorded keyed by input); '
               'the negative-number widening of BaseNumberExtractor searches an un-anchored term regex in the whole prefix '
               '(sweep_number_neg_counterexample); try_merge_modifier_token indexes the source with an index into the '
               'stripped prefix (mergeModPrefix_leading_blank).')


def correspond(ctx):
    spancorr.replay_witnesses(ctx, PROP)
    tasks = spancorr.pipeline(ctx, PROP)
    spancorr.unit_level(ctx, PROP, tasks)
    dtextractcorr.run_light(ctx, PROP)
    dtextract2corr.run_light(ctx, PROP)
