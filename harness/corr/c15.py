"""C15 — TimexResolver.resolve / TimexRangeResolver.evaluate only return correct, valid values.

Tie: unit correspondence of RTV.Model.TimexResolve (Lean driver) against the WORKING TREE's
`datatypes_timex_expression` (TimexResolver, TimexValue, TimexDateHelpers, TimexHelpers, DateRange, TimeRange,
TimexConstraintsHelper, TimexRangeResolver), every call in a worker process with a wall-clock limit and
RLIMIT_AS (`evaluate` can loop for ever: that is a finding with its input).  Property oracles, written from the
property text and independent of the model, judge the implementation's outputs."""
import datetime
import decimal
import itertools
import re
import zlib

from lib import common, timexcorr as tc
from lib.common import cps, uncps

PROP = 'C15'
LEVEL = 'proof'
PROPS_MODULES = ['RTV.Props.C15', 'RTV.Props.C15Range']
GEN = ['timexregex', 'timexenglish']
REQUIRED_THEOREMS = ['weekday_resolve', 'duration_seconds', 'year_range', 'month_range', 'month_range_december',
                     'week_range', 'week_range_across_month', 'collapse_terminates', 'collapseDates_returns',
                     'inner_collapse_before_fix_stuck', 'evaluate_triple_returns', 'evaluate_regressions',
                     'evaluate_sound_weekday', 'evaluate_complete_weekday', 'collapse_sound_dates', 'collapse_sound_times',
                     'dates_matching_day_spec', 'evaluate_monthday_stage_sound', 'evaluate_timerange_stage_sound',
                     'evaluate_sound', 'evaluate_dateOnly_eq', 'evaluate_complete_monthday',
                     'stages234_sound', 'evaluate_sound_durations', 'evaluate_complete_hours',
                     'monthday_stage_never_raises', 'evaluate_sound_grammar',
                     # RTV.Props.C15Range (audit item 18): the ranges a constraint denotes, on calendar functions;
                     # fractional durations; collapse never hangs; time-of-day candidates
                     'daterange_year', 'daterange_month', 'daterange_days', 'daterange_weeks', 'timerange_of_start_dur',
                     'timerange_hours', 'timerange_minutes', 'timerange_parts_of_day', 'range_denotation_examples',
                     'range_denotation_observations', 'duration_seconds_frac', 'duration_seconds_frac_examples',
                     'collapseDates_never_hangs', 'collapseTimes_never_hangs', 'evaluate_collapse_never_hangs',
                     'collapse_proper', 'noDate_time_forms', 'evaluate_time_candidates_no_result',
                     'evaluate_time_candidates_sound', 'evaluate_time_candidate_examples']
RULE = ('resolve: weekday TIMEXes XXXX-WXX-0..9 (with and without a time) x every day 1950-01-01..2090-12-31 in '
        'thorough (quick: every day of 2019-2021, the first/last ten days of every year, seeded days), XXXX-MM / '
        'XXXX-MM-DD x one reference per year + seeded, YYYY / YYYY-MM (all 12) / YYYY-Www (00-54) / durations (all '
        'units, integer and fractional) / seasons / definite dates and datetimes / time ranges; unit level: '
        'date_of_last_day / date_of_next_day (day -1..8) x days, dates_matching_day, week/month/year_date_range, '
        'expand_datetime_range, daterange_/timerange_from_timex, timex_date_add, timex_time_add, duration_value, '
        'inner_collapse stepwise on small range lists (exhaustive over a 6-point grid for <=3 ranges); evaluate: '
        'candidate sets (weekday, month-day, time, weekday+time, duration; duration candidates x datetime constraints x date ranges with an independent datetime+duration oracle) x ordered lists of 1-3 constraints (year, '
        'month, (start,end,PnD/W/M/Y), (Thh,Thh,PTnH), part of day, time, datetime) in the window 2020-2021: '
        'exhaustive small grid in thorough, seeded in quick. non-trivial = distinct call that returned >= 1 value')
ASSUMPTIONS = ['datetime / timedelta of the running CPython (modelled in RTV.Model.Cal, cross-checked here)',
               'Time ranges are modelled on whole seconds; Decimal results beyond 28 digits are outside the model',
               'a call that exceeds the wall-clock limit (5 s; 0.5 s where the model predicts non-termination) counts as '
               'not terminating']
TRUSTED_EXTRA = ['harness/lib/timexcorr.py worker pool (setitimer + RLIMIT_AS guard)']

UNIT_SECONDS = {('P', 'Y'): 31536000, ('P', 'M'): 2592000, ('P', 'W'): 604800, ('P', 'D'): 86400,
                ('PT', 'H'): 3600, ('PT', 'M'): 60, ('PT', 'S'): 1}


def D(y, m, d):
    return datetime.date(y, m, d)


def iso(d):
    return '%04d-%02d-%02d' % (d.year, d.month, d.day)


def parse_entries(ans):
    """canonical answer -> list of dicts (or None for an error answer)"""
    if ans.startswith('err:') or ans in ('hang', 'unmodelled'):
        return None
    out = []
    for e in ans.split(';'):
        f = e.split(',')
        out.append({k: (None if v == 'N' else ('<unset>' if v == 'U' else uncps(v[1:])))
                    for k, v in zip(('timex', 'type', 'value', 'start', 'end'), f)})
    return out


# ---------------------------------------------------------------- resolve: oracles

def oracle_resolve(s, ref, ans):
    """-> (signature, message) when the property fails on this output, else None.  Only the families the property
    names are judged: weekday, duration, year, month (and ISO week well-formedness)."""
    es = parse_entries(ans)
    m = re.match(r'^XXXX-WXX-([1-7])$', s)
    if m:
        w = int(m.group(1))
        last = ref - datetime.timedelta(days=1)
        while last.isoweekday() != w:
            last -= datetime.timedelta(days=1)
        nxt = ref + datetime.timedelta(days=1)
        while nxt.isoweekday() != w:
            nxt += datetime.timedelta(days=1)
        if es is None or [e['value'] for e in es] != [iso(last), iso(nxt)] or any(e['type'] != 'date' for e in es):
            return 'weekday-resolve', 'expected values [%s, %s], got %s' % (iso(last), iso(nxt), ans if es is None else [e['value'] for e in es])
        return None
    m = re.match(r'^(PT?)(\d*\.?\d+)([YMWDHS])$', s)
    if m and (m.group(1), m.group(3)) in UNIT_SECONDS:
        from fractions import Fraction
        amount = Fraction(m.group(2))
        if amount == 0 or len(m.group(2)) > 20:
            return None   # zero amounts are not durations for the datatype (C14 finding); > 20 digits: Decimal rounds
        want = amount * UNIT_SECONDS[(m.group(1), m.group(3))]
        ok = es is not None and len(es) == 1 and es[0]['type'] == 'duration'
        if ok:
            try:
                ok = Fraction(es[0]['value']) == want
            except Exception:
                ok = False
        if not ok:
            return 'duration-seconds', 'expected %s seconds, got %s' % (want, ans if es is None else es)
        return None
    m = re.match(r'^\((\d{4})-(\d\d)-(\d\d)T(\d\d)(?::(\d\d))?,[^,]*,PT(\d+)([HM])\)$', s)
    if m:
        try:
            st = datetime.datetime(int(m.group(1)), int(m.group(2)), int(m.group(3)), int(m.group(4)), int(m.group(5) or 0))
            en = st + (datetime.timedelta(hours=int(m.group(6))) if m.group(7) == 'H' else datetime.timedelta(minutes=int(m.group(6))))
        except (ValueError, OverflowError):
            return None
        f = lambda x: '%04d-%02d-%02d %02d:%02d:%02d' % (x.year, x.month, x.day, x.hour, x.minute, x.second)
        got = None if es is None or len(es) != 1 else (es[0]['start'], es[0]['end'])
        if got != (f(st), f(en)):
            return 'time-add-minute-carry' if m.group(7) == 'M' else 'datetimerange-end', 'expected %s, got %s' % (
                (f(st), f(en)), ans if es is None else got)
        return None
    m = re.match(r'^\(T(\d\d)(?::(\d\d))?,[^,]*,PT(\d+)([HMS])\)$', s)
    if m and int(m.group(1)) < 24 and int(m.group(2) or 0) < 60:
        a = int(m.group(1)) * 3600 + int(m.group(2) or 0) * 60
        b = a + int(m.group(3)) * {'H': 3600, 'M': 60, 'S': 1}[m.group(4)]
        f = lambda x: '%02d:%02d:%02d' % (x // 3600, x // 60 % 60, x % 60)
        got = None if es is None or len(es) != 1 else (es[0]['start'], es[0]['end'])
        if got != (f(a), f(b)):
            return 'add-time-misspelt-attribute' if m.group(4) in 'MS' else 'timerange-end', 'expected %s, got %s' % (
                (f(a), f(b)), ans if es is None else got)
        return None
    m = re.match(r'^(\d\d\d\d)$', s)
    if m and 1 <= int(m.group(1)) <= 9998:
        y = int(m.group(1))
        if es is None or len(es) != 1 or (es[0]['start'], es[0]['end']) != ('%04d-01-01' % y, '%04d-01-01' % (y + 1)):
            return 'year-range', 'expected [%04d-01-01, %04d-01-01), got %s' % (y, y + 1, ans if es is None else es)
        return None
    m = re.match(r'^(\d\d\d\d|XXXX)-(\d\d)$', s)
    if m and 1 <= int(m.group(2)) <= 12 and (m.group(1) == 'XXXX' or 1 <= int(m.group(1)) <= 9998):
        mo = int(m.group(2))
        years = [ref.year - 1, ref.year] if m.group(1) == 'XXXX' else [int(m.group(1))]
        want = []
        for y in years:
            ny, nm = (y + 1, 1) if mo == 12 else (y, mo + 1)
            want.append(('%04d-%02d-01' % (y, mo), '%04d-%02d-01' % (ny, nm)))
        got = None if es is None else [(e['start'], e['end']) for e in es]
        if got != want:
            sig = 'month-range-december' if mo == 12 else 'month-range'
            return sig, 'expected %s, got %s' % (want, ans if es is None else got)
        return None
    m = re.match(r'^(\d\d\d\d)-W(\d\d)$', s)
    if m and 1 <= int(m.group(1)) <= 9998 and 1 <= int(m.group(2)) <= 52:
        y, w = int(m.group(1)), int(m.group(2))
        start = datetime.date.fromisocalendar(y, w, 1)
        want = (iso(start), iso(start + datetime.timedelta(days=7)))
        got = None if es is None or len(es) != 1 else (es[0]['start'], es[0]['end'])
        if got != want:
            return 'week-range-end-month', 'expected %s, got %s' % (want, ans if es is None else got)
        return None
    return None


def resolve_cases(ctx):
    r = ctx.rng('resolve')
    days = set()
    lo, hi = D(1950, 1, 1).toordinal(), D(2090, 12, 31).toordinal()
    if ctx.thorough:
        days = set(range(lo, hi + 1))
    else:
        days.update(range(D(2019, 1, 1).toordinal(), D(2021, 12, 31).toordinal() + 1))
        for y in range(1950, 2091):
            for k in range(10):
                days.add(D(y, 1, 1).toordinal() + k)
                days.add(D(y, 12, 31).toordinal() - k)
            days.add(D(y, 2, 28).toordinal())
            days.add(D(y, 3, 1).toordinal())
        days.update(r.randint(lo, hi) for _ in range(1500))
    days = sorted(days)
    ops = []
    weekday = ['XXXX-WXX-%d' % d for d in range(1, 8)]
    for o in days:
        d = datetime.date.fromordinal(o)
        for s in weekday:
            ops.append(('resolve', s, d.year, d.month, d.day))
    sub = days[::5] if ctx.thorough else days[::9]
    for o in sub:
        d = datetime.date.fromordinal(o)
        for s in ('XXXX-WXX-0', 'XXXX-WXX-8', 'XXXX-WXX-9', 'XXXX-WXX-3T10', 'XXXX-WXX-7T23:59:59',
                  'XXXX-%02d' % (1 + o % 12), 'XXXX-12', 'XXXX-%02d-%02d' % (1 + o % 12, 1 + o % 29), 'XXXX-02-29',
                  'XXXX-%02d-%02dT08:30' % (1 + o % 12, 1 + o % 28)):
            ops.append(('resolve', s, d.year, d.month, d.day))
    # reference-independent families
    refs = [D(2020, 5, 6), D(1950, 1, 1), D(2090, 12, 31), D(2000, 2, 29)]
    fixed = []
    years = [1, 2, 999, 1000, 1900, 1999, 2000, 2019, 2020, 2021, 2024, 2090, 9998, 9999, 0] + \
            [r.randint(1, 9998) for _ in range(40 if ctx.thorough else 8)]
    for y in years:
        fixed.append('%04d' % y)
        for m in range(0, 14):
            fixed.append('%04d-%02d' % (y, m))
        for w in list(range(0, 55)) if (ctx.thorough or y in (2019, 2020, 2021, 2024, 1, 9999)) else (0, 1, 2, 26, 52, 53, 54):
            fixed.append('%04d-W%02d' % (y, w))
            if w in (1, 5, 53):
                fixed.append('%04d-W%02d-WE' % (y, w))
        for se in ('SP', 'SU', 'FA', 'WI'):
            fixed.append('%04d-%s' % (y, se))
        fixed += ['%04d-02-28' % y, '%04d-12-31' % y, '%04d-06-15T10' % y, '%04d-06-15T10:20:30' % y, '%04d-06-15TMO' % y]
    for pre, u in UNIT_SECONDS:
        for a in ['1', '2', '7', '10', '36', '100', '1000', '0010', '123456789', '0.5', '.5', '1.5', '1.50', '2.25',
                  '10.0', '0.25', '0', '0.0', '0.0000001', '99999999999999999999', '12345678901234567890123456789']:
            fixed.append('%s%s%s' % (pre, a, u))
    fixed += ['SP', 'SU', 'FA', 'WI', 'TMO', 'TAF', 'TEV', 'TNI', 'TDT', 'T10', 'T10:30', 'T10:30:15', 'T00', 'T24',
              'PRESENT_REF', '', 'garbage', '(T08,T12,PT4H)', '(T08,T18,PT10H)', '(T20,T24,PT10H)', '(T08,T08:30,PT30M)',
              '(T08,x,PT5S)', '(T08:15,x,PT1.5H)', '(2020-01-01,2020-01-05,P4D)', '(2020-01-01,x,P2W)', '(2020-01-31,x,P1M)',
              '(2020-11-15,x,P3M)', '(2020-02-29,x,P1Y)', '(2020-01-01,x,P1.5Y)', '(2020-01-01T05,x,PT30H)',
              '(2020-12-31T23,x,PT2H)', '(9999-12-31T23,x,PT2H)', '(2020-01-01T05:00:00,x,PT55M)', '(2020-01-01T05:10,x,PT20M)',
              '(2020-01-01T05:40,x,PT20M)', '(2020-01-01T05:10,x,PT45M)', '(2020-01-01T05,x,PT90M)', '(2020-01-01T05:50,x,PT5M)', '(T08,x,PT2H)', '(T09:30,x,PT30M)', '(XXXX-WXX-3,x,P2D)', '(XXXX-WXX-6T22,x,PT5H)', '(XXXX-03-31,x,P1D)',
              '(XXXX-02-28,x,P2D)', '(2020-02-30,x,P1D)', '(9999-12-31,x,P1D)', '(0001-01-01,x,P1D)', 'XXXX-05-W02',
              'XXXX-05-WXX-2-3', 'XXXX-05-WXX-2-0', '2020-05-06TEV', 'XXXX-WXX-3TMO', 'XXXX-05-06TNI', '2020-W05TMO',
              '2020T05', '0000-W01', '0000-05', '0000']
    for s in fixed:
        for ref in refs[:(4 if ctx.thorough else 2)]:
            ops.append(('resolve', s, ref.year, ref.month, ref.day))
    return ops


def unit_cases(ctx):
    r = ctx.rng('unit')
    ops = []
    lo, hi = D(1950, 1, 1).toordinal(), D(2090, 12, 31).toordinal()
    days = list(range(lo, hi + 1, 1 if ctx.thorough else 13)) + [1, 2, 3, 7, 8, 3652059, 3652058, 3652053, 3652052]
    for o in days:
        d = datetime.date.fromordinal(o)
        for day in (range(-1, 9) if (ctx.thorough or o % 5 == 0) else (o % 7,)):
            ops.append(('lastday', day, d.year, d.month, d.day))
            ops.append(('nextday', day, d.year, d.month, d.day))
    for _ in range(2000 if ctx.thorough else 300):
        s = r.randint(lo, hi)
        ops.append(('matching', r.randint(-1, 7), s, s + r.choice([0, 1, 6, 7, 8, 30, 366, 800])))
    ops.append(('matching', 2, 3652059 - 20, 3652059))
    ops.append(('matching', 2, 3652059 - 3, 3652059 - 10))      # reversed: OverflowError after 9999-12-31
    for y in list(range(1950, 2091)) + [1, 2, 9998, 9999, 0, 10000]:
        for w in (range(0, 55) if ctx.thorough or y % 10 == 0 else (0, 1, 26, 52, 53)):
            ops.append(('weekrange', y, w))
        for m in range(0, 14):
            ops.append(('monthrange', y, m))
        ops.append(('yearrange', y))
    cons = constraint_pool(ctx, wide=True)
    for s in cons:
        ops.append(('daterange', s))
        ops.append(('timerange', s))
        ops.append(('expand', s))
        ops.append(('durvalue', s))
    starts = ['2020-01-31', '2020-02-28', '2020-12-31', '0001-01-01', '9999-12-31', 'XXXX-03-31', 'XXXX-WXX-3',
              'XXXX-WXX-7', 'T08', 'T23:30', 'T08:51', '2020-01-01T23', '2020-12-31T23:50', 'XXXX-WXX-7T20', '2020',
              '2020-05', 'XXXX-05', '', 'PRESENT_REF', '2020-02-30', 'XXXX-WXX-0']
    durs = ['P1D', 'P0.5D', 'P1.5D', 'P400D', 'P2W', 'P1M', 'P11M', 'P12M', 'P1Y', 'P0.5Y', 'PT1H', 'PT24H', 'PT25H',
            'PT49H', 'PT0.5H', 'PT1M', 'PT9M', 'PT10M', 'PT59M', 'PT60M', 'PT1S', 'P0D', 'PT0H', 'P999999999999D', '2020',
            'P3000000D']
    for a in starts:
        for b in durs:
            ops.append(('dateadd', a, b))
            ops.append(('timeadd', a, b))
    # inner_collapse, stepwise: exhaustive over a small grid for <= 3 ranges, seeded beyond
    pts = [1, 3, 5, 7, 9, 11]
    ranges = [(a, b) for a in pts for b in pts if a < b]
    lists = [[x] for x in ranges] + [[x, y] for x in ranges for y in ranges]
    tri = [[x, y, z] for x in ranges for y in ranges for z in ranges]
    lists += tri if ctx.thorough else r.sample(tri, 500)
    for _ in range(3000 if ctx.thorough else 300):
        n = r.randint(2, 6)
        l = []
        for _ in range(n):
            a = r.randint(0, 30)
            l.append((a, a + r.randint(0, 12)))
        lists.append(l)
    for l in lists:
        ops.append(('collapseD', 24, [(730000 + a, 730000 + b) for a, b in l]))
        ops.append(('collapseT', 24, [(a * 3600000, b * 3600000) for a, b in l]))
    ops.append(('collapseD', 24, []))
    ops.append(('collapseT', 24, []))
    return ops


# ---------------------------------------------------------------- evaluate

class Con:
    """a constraint with the meaning the generator gave it"""

    def __init__(self, text, kind, lo=None, hi=None, sound=True):
        self.text, self.kind, self.lo, self.hi, self.sound = text, kind, lo, hi, sound


def date_constraints(ctx, wide=False):
    out = []
    for y in (2020, 2021):
        out.append(Con('%04d' % y, 'date', D(y, 1, 1), D(y + 1, 1, 1)))
    for (y, m) in [(2020, 1), (2020, 2), (2020, 6), (2020, 11), (2021, 1), (2020, 12)]:
        hi = D(y + (m == 12), m % 12 + 1, 1)
        out.append(Con('%04d-%02d' % (y, m), 'date', D(y, m, 1), hi))
    spans = [(D(2020, 1, 1), 4), (D(2020, 1, 15), 46), (D(2020, 1, 10), 22), (D(2020, 2, 20), 20), (D(2020, 12, 20), 30),
             (D(2021, 6, 1), 7), (D(2020, 1, 1), 20)]
    for s, n in spans:
        e = s + datetime.timedelta(days=n)
        out.append(Con('(%s,%s,P%dD)' % (iso(s), iso(e), n), 'date', s, e))
    out.append(Con('(2020-03-02,2020-03-16,P2W)', 'date', D(2020, 3, 2), D(2020, 3, 16)))
    out.append(Con('(2020-01-01,2020-02-01,P1M)', 'date', D(2020, 1, 1), D(2020, 2, 1)))
    out.append(Con('(2020-06-15,2021-06-15,P1Y)', 'date', D(2020, 6, 15), D(2021, 6, 15)))
    if wide:
        out.append(Con('(2020-11-15,2021-02-15,P3M)', 'date', D(2020, 11, 15), D(2021, 2, 15)))
        out.append(Con('(2020-01-31,2020-02-29,P1M)', 'date', D(2020, 1, 31), D(2020, 2, 29)))
        out.append(Con('(2010-01-01,2010-01-05,P4D)', 'date', D(2010, 1, 1), D(2010, 1, 5)))
        out.append(Con('2020-W05', 'date-unsound', None, None, sound=False))
        out.append(Con('SU', 'date-unsound', None, None, sound=False))
    return out


def time_constraints(ctx, wide=False):
    out = [Con('(T08,T12,PT4H)', 'time', 8 * 3600, 12 * 3600), Con('(T10,T14,PT4H)', 'time', 10 * 3600, 14 * 3600),
           Con('(T16,T20,PT4H)', 'time', 16 * 3600, 20 * 3600), Con('TMO', 'time', 8 * 3600, 12 * 3600),
           Con('TEV', 'time', 16 * 3600, 20 * 3600)]
    if wide:
        out += [Con('(T08,T08:30,PT30M)', 'time', 8 * 3600, 8 * 3600 + 1800), Con('(T20,T24,PT10H)', 'time', 20 * 3600, 30 * 3600),
                Con('TNI', 'time', 20 * 3600, 30 * 3600), Con('(T09:30,T11:30,PT2H)', 'time', 9 * 3600 + 1800, 11 * 3600 + 1800),
                Con('(T08,T09,PT3600S)', 'time', 8 * 3600, 9 * 3600)]
    return out


def denotation_cases(ctx):
    """constraint strings with the range they DENOTE, computed here with `datetime` (independent of the package and of the
    model): years, year-months incl. December, (date,_,PnD), (date,_,PnW), (Thh[:mm],_,PTnH / PTnM), parts of day.
    Mirrors Lean daterange_year / _month / _days / _weeks, timerange_hours / _minutes / _parts_of_day."""
    r = ctx.rng('denotation')
    out = []
    years = [1, 2, 1999, 2000, 2019, 2020, 2021, 2024, 2100, 9998] + [r.randint(1, 9998) for _ in range(20 if ctx.thorough else 6)]
    for y in years:
        out.append(('daterange', '%04d' % y, D(y, 1, 1).toordinal(), D(y + 1, 1, 1).toordinal()))
        for m in range(1, 13):
            hi = D(y + (m == 12), m % 12 + 1, 1)
            out.append(('daterange', '%04d-%02d' % (y, m), D(y, m, 1).toordinal(), hi.toordinal()))
    for _ in range(400 if ctx.thorough else 80):
        s = datetime.date.fromordinal(r.randint(1, 3652059 - 4000))
        n = r.choice([1, 2, 6, 7, 28, 29, 30, 31, 365, 366, 1000, r.randint(1, 3000)])
        out.append(('daterange', '(%s,x,P%dD)' % (iso(s), n), s.toordinal(), s.toordinal() + n))
        w = r.choice([1, 2, 4, 52, r.randint(1, 500)])
        out.append(('daterange', '(%s,x,P%dW)' % (iso(s), w), s.toordinal(), s.toordinal() + 7 * w))
    for h in (0, 8, 12, 20, 23):
        for mi in (0, 30, 59):
            for n in (1, 4, 10, 24):
                t0 = h * 3600 + mi * 60
                tt = 'T%02d' % h + (':%02d' % mi if mi else '')
                out.append(('timerange', '(%s,x,PT%dH)' % (tt, n), t0 * 1000, (t0 + 3600 * n) * 1000))
                out.append(('timerange', '(%s,x,PT%dM)' % (tt, n * 15), t0 * 1000, (t0 + 900 * n) * 1000))
    for p, a, b in (('TMO', 8, 12), ('TAF', 12, 16), ('TEV', 16, 20), ('TNI', 20, 30), ('TDT', 8, 18)):
        out.append(('timerange', p, a * 3600000, b * 3600000))
    return out


def check_range_denotation(ctx):
    """daterange_from_timex / timerange_from_timex of the WORKING TREE against the range the constraint denotes (calendar
    arithmetic of `datetime`, nothing from the package or the model) — the independent characterisation of the range spec
    that evaluate_sound* is stated against."""
    cases = denotation_cases(ctx)
    res = tc.run_ops([(k, s) for k, s, _, _ in cases])
    for (k, s, lo, hi), a in zip(cases, res):
        ctx.count('denotation:' + k)
        ctx.nontriv(('den', k, s))
        want = '%d:%d' % (lo, hi)
        if a != want:
            kind = 'parts-of-day' if not s.startswith('(') and k == 'timerange' else \
                ('year' if re.match(r'^\d{4}$', s) else 'month' if re.match(r'^\d{4}-\d\d$', s) else
                 'span-' + s.rstrip(')')[-1])
            tc.report(ctx, 'property', 'range-denotation:%s:%s' % (k, kind),
                      '%s_from_timex(Timex(%r)) is %s, the constraint denotes %s' % (k, s, a, want),
                      failing_input={'op': 'TimexHelpers.%s_from_timex(Timex(s)) as ordinals / milliseconds' % k, 'string': s,
                                     'observed': a, 'expected': want}, property_fails=True)


def constraint_pool(ctx, wide=False):
    return [c.text for c in date_constraints(ctx, wide) + time_constraints(ctx, wide)] + \
           ['T10', '2020-01-15T10', '2020-01-15', 'XXXX-WXX-3', 'P1D', 'PRESENT_REF', '']


CANDIDATES = ['XXXX-WXX-1', 'XXXX-WXX-3', 'XXXX-WXX-7', 'XXXX-01-15', 'XXXX-12-25', 'XXXX-02-29', 'XXXX-06-30',
              'XXXX-WXX-3T09', 'XXXX-WXX-3T13:30', 'XXXX-01-15T17', 'T09', 'T13:30', 'T17:00:30', 'PT2H', 'P1D',
              'T08', 'T12', 'XXXX-WXX-3T12', 'XXXX-02-01', 'XXXX-01-01']


def cand_info(c):
    """-> (dow, month, day, seconds) with None for absent parts"""
    m = re.match(r'^(?:XXXX-WXX-(\d)|XXXX-(\d\d)-(\d\d))?(?:T(\d\d)(?::(\d\d))?(?::(\d\d))?)?$', c)
    if not m or not c:
        return None
    dow = int(m.group(1)) if m.group(1) else None
    mo = int(m.group(2)) if m.group(2) else None
    dom = int(m.group(3)) if m.group(3) else None
    sec = None
    if m.group(4):
        sec = int(m.group(4)) * 3600 + int(m.group(5) or 0) * 60 + int(m.group(6) or 0)
    return dow, mo, dom, sec


def oracle_evaluate(cands, cons, raw):
    """The property on the implementation's result list `raw` (tuples from op 'evalraw') or an error string.
    -> (signature, message) or None."""
    dcs = [c for c in cons if c.kind == 'date']
    tcs = [c for c in cons if c.kind == 'time']
    if any(not c.sound for c in cons) or any(c.kind not in ('date', 'time') for c in cons):
        return None
    infos = [cand_info(c) for c in cands]
    if any(i is None for i in infos):
        return None          # duration candidates etc.: outside the oracle
    dated = [i for i in infos if i[0] is not None or i[1] is not None]
    if isinstance(raw, str):
        if raw == 'hang':
            return 'collapse-nonterminating', 'evaluate does not return (wall-clock / memory limit)'
        if raw == 'err:ValueError' and any(c.text.endswith('-12') for c in dcs):
            return 'expand-range-december', 'evaluate raises ValueError for a December month constraint'
        if raw == 'err:ValueError' and any(i[1] == 2 and i[2] == 29 for i in infos):
            return 'evaluate-feb29-raises', 'evaluate raises ValueError for the month-day candidate XXXX-02-29'
        if raw == 'err:ValueError' and any(re.search(r'P\d+M\)$', c.text) for c in dcs):
            return 'date-add-month-overflow', 'evaluate raises ValueError for a (start,end,PnM) constraint'
        if raw == 'err:AttributeError':
            return 'add-time-misspelt-attribute', 'evaluate raises AttributeError (TimexHelpers.add_time reads duration.minue)'
        if raw == 'err:TypeError' and any(re.search(r'PT\d+S\)$', c.text) for c in tcs):
            return 'add-time-misspelt-attribute', 'evaluate raises TypeError (TimexHelpers.add_time reads duration.second)'
        return 'evaluate-raises', 'evaluate raises %s' % raw
    for (val, y, mo, dom, h, mi, s, types) in raw:
        if dcs:
            if y is None or mo is None or dom is None:
                if not dated or len(dated) < len(infos):
                    return 'evaluate-blank-timex', 'result %r is not definite (a candidate without a date part met a date-range constraint)' % (val,)
                return 'evaluate-not-definite', 'result %r is not definite' % (val,)
            try:
                dt = D(int(y), int(mo), int(dom))
            except Exception:
                return 'evaluate-invalid-date', 'result %r is not a calendar date' % (val,)
            if not any(c.lo <= dt < c.hi for c in dcs):
                return 'evaluate-outside-date-range', 'result %r lies in none of the date ranges %s' % (val, [c.text for c in dcs])
            sec = None if h is None else int(h) * 3600 + int(mi) * 60 + int(s)
            if not any((i[0] is None or i[0] == dt.isoweekday()) and (i[1] is None or (i[1], i[2]) == (dt.month, dt.day))
                       and (i[0] is not None or i[1] is not None)
                       and (i[3] is None or i[3] == sec) for i in infos):
                return 'evaluate-not-an-instance', 'result %r is an instance of no candidate of %s' % (val, cands)
        if tcs:
            if h is None:
                return 'evaluate-no-time', 'result %r has no time although time ranges were supplied' % (val,)
            sec = int(h) * 3600 + int(mi) * 60 + int(s)
            if not any(c.lo <= sec < c.hi for c in tcs):
                return 'evaluate-outside-time-range', 'result %r lies in none of the time ranges %s' % (val, [c.text for c in tcs])
    # completeness: one date range, weekday candidates only, no time constraints
    if len(dcs) == 1 and not tcs and infos and all(i[0] is not None and i[3] is None and 1 <= i[0] <= 7 for i in infos):
        want = []
        for i in infos:
            d = dcs[0].lo
            while d < dcs[0].hi:
                if d.isoweekday() == i[0]:
                    want.append(iso(d))
                d += datetime.timedelta(days=1)
        got = [v[0] for v in raw]
        if sorted(set(want)) != sorted(got):
            return 'evaluate-incomplete-weekday', 'expected every %s in %s: %s, got %s' % (cands, dcs[0].text, sorted(set(want))[:8], got[:8])
    return None


DUR_CANDS = ['PT2H', 'PT14H', 'PT30H', 'PT45M', 'PT90M', 'PT1500M', 'P1D', 'P20D', 'P2W', 'PT0H', 'P0D']
DATETIME_CONS = ['2020-01-15T10', '2020-01-31T23:30', '2020-12-31T20:15:30', '2020-02-28T12', '2021-06-01T00']


def dur_sum(dur, st):
    """-> (date, seconds or None): `st` (datetime) + duration as the code defines it: hours/minutes carry into days and
    keep the time; day/week durations give the date only (None), a zero day count leaves the datetime as it is"""
    m = re.match(r'^(PT?)(\d+)([HMDW])$', dur)
    n, u = int(m.group(2)), (m.group(1), m.group(3))
    if u == ('PT', 'H'):
        e = st + datetime.timedelta(hours=n)
    elif u == ('PT', 'M'):
        e = st + datetime.timedelta(minutes=n)
    else:
        days = n * (7 if u[1] == 'W' else 1)
        if days == 0:
            return st.date(), st.hour * 3600 + st.minute * 60 + st.second
        return (st + datetime.timedelta(days=days)).date(), None
    return e.date(), e.hour * 3600 + e.minute * 60 + e.second


def oracle_evaluate_dur(cands, cons, raw):
    """duration candidates x datetime constraints x date ranges: every result is a valid date inside a supplied date range
    whose month, day (and time) are those of `S + D` for a supplied datetime S and a candidate D; a date-only sum carries
    the time of one of the datetime constraints (stage 3 attaches it)."""
    dcs = [c for c in cons if c.kind == 'date']
    sts = [c.lo for c in cons if c.kind == 'datetime']
    if not dcs or not sts or any(c.kind not in ('date', 'datetime') for c in cons):
        return None
    if isinstance(raw, str):
        if raw == 'hang':
            return 'collapse-nonterminating', 'evaluate does not return (wall-clock / memory limit)'
        return 'evaluate-raises', 'evaluate raises %s' % raw
    sums = [dur_sum(d, st) for d in cands for st in sts]
    stimes = [st.hour * 3600 + st.minute * 60 + st.second for st in sts]
    for (val, y, mo, dom, h, mi, s, types) in raw:
        if y is None or mo is None or dom is None:
            return 'evaluate-not-definite', 'result %r is not definite' % (val,)
        try:
            dt = D(int(y), int(mo), int(dom))
        except Exception:
            return 'evaluate-invalid-date', 'result %r is not a calendar date' % (val,)
        if not any(c.lo <= dt < c.hi for c in dcs):
            return 'evaluate-outside-date-range', 'result %r lies in none of the date ranges %s' % (val, [c.text for c in dcs])
        sec = None if h is None else int(h) * 3600 + int(mi) * 60 + int(s)
        if not any((sd.month, sd.day) == (dt.month, dt.day) and (sec == ss if ss is not None else sec in stimes)
                   for sd, ss in sums):
            return 'evaluate-duration-sum', 'result %r is not the month/day/time of any datetime constraint + duration candidate %s' % (
                val, [(iso(sd), ss) for sd, ss in sums][:6])
    # completeness: single date range, single datetime: every sum that lies in the range is returned
    if len(dcs) == 1 and len(sts) == 1:
        got = {v[0] for v in raw}
        for sd, ss in sums:
            if dcs[0].lo <= sd < dcs[0].hi:
                t = ss if ss is not None else stimes[0]
                want = iso(sd) + ('T%02d' % (t // 3600) if t % 3600 == 0 else
                                  'T%02d:%02d' % (t // 3600, t // 60 % 60) if t % 60 == 0 else
                                  'T%02d:%02d:%02d' % (t // 3600, t // 60 % 60, t % 60))
                if want not in got:
                    return 'evaluate-duration-incomplete', 'expected %r (datetime + duration inside %s), got %s' % (
                        want, dcs[0].text, sorted(got)[:6])
    return None


def duration_cases(ctx):
    r = ctx.rng('evaluate-dur')
    dts = []
    for t in DATETIME_CONS:
        m = re.match(r'^(\d+)-(\d+)-(\d+)T(\d+)(?::(\d+))?(?::(\d+))?$', t)
        dts.append(Con(t, 'datetime', datetime.datetime(int(m.group(1)), int(m.group(2)), int(m.group(3)), int(m.group(4)),
                                                        int(m.group(5) or 0), int(m.group(6) or 0))))
    dcs = date_constraints(ctx)
    cases = []
    for d in DUR_CANDS:
        for st in dts:
            for dc in dcs:
                cases.append(([d], [st, dc]))
                cases.append(([d], [dc, st]))
    for _ in range(4000 if ctx.thorough else 500):
        cs = r.sample(DUR_CANDS, r.choice([1, 1, 2]))
        l = [r.choice(dts) for _ in range(r.choice([1, 1, 2]))] + [r.choice(dcs) for _ in range(r.choice([1, 1, 2]))]
        r.shuffle(l)
        cases.append((cs, l))
    return cases


def evaluate_cases(ctx):
    r = ctx.rng('evaluate')
    dcs = date_constraints(ctx, wide=True)
    tcs = time_constraints(ctx, wide=True)
    small_d = date_constraints(ctx)[:10]
    small_t = time_constraints(ctx)[:3]
    extra = [Con('T10', 'other'), Con('2020-01-15T10', 'other')]
    cases = []
    cand_sets = [[c] for c in CANDIDATES[:15]] + [['XXXX-WXX-3', 'XXXX-01-15'], ['XXXX-WXX-1', 'XXXX-WXX-3T09'],
                                             ['T09', 'T13:30'], ['XXXX-WXX-7', 'T09'], ['PT2H', 'XXXX-WXX-3']] + \
                [[c] for c in CANDIDATES[15:]]
    # boundary list: every single constraint x every candidate set; the DESIGN.md triple
    for c in dcs + tcs + extra:
        for cs in cand_sets:
            cases.append((cs, [c]))
    trip = [Con('(2010-01-01,2010-01-05,P4D)', 'date', D(2010, 1, 1), D(2010, 1, 5)),
            Con('(2020-01-15,2020-03-01,P46D)', 'date', D(2020, 1, 15), D(2020, 3, 1)),
            Con('(2020-01-01,2020-02-01,P1M)', 'date', D(2020, 1, 1), D(2020, 2, 1))]
    cases.append((['XXXX-WXX-3'], trip))
    pool = small_d + small_t
    if ctx.thorough:
        lists = [list(p) for n in (2, 3) for p in itertools.permutations(pool, n)]
        sets = cand_sets[:9] + cand_sets[15:17]
        for l in lists:
            for cs in (sets if len(l) == 2 else [sets[zlib.crc32('|'.join(c.text for c in l).encode()) % len(sets)], sets[1]]):
                cases.append((cs, l))
    for _ in range(30000 if ctx.thorough else 5000):
        n = r.choice([1, 2, 2, 3, 3])
        src = (dcs + tcs + extra) if r.random() < 0.3 else pool
        l = [r.choice(src) for _ in range(n)]
        cs = r.choice(cand_sets)
        cases.append((cs, l))
    return cases


def correspond(ctx):
    try:
        _correspond(ctx)
    finally:
        tc.close_pool()


def compare(ctx, ops, family_of, nontriv_of=None):
    lines = [tc.line_of(o) for o in ops]
    model = tc.drive(lines)
    impl = tc.run_ops(ops)
    return impl, model


def _correspond(ctx):
    # ------------------------------------------------ resolve
    ops = resolve_cases(ctx)
    impl, model = compare(ctx, ops, None)
    unmod = 0
    for o, a, b in zip(ops, impl, model):
        s = o[1]
        fam = 'resolve:' + ('weekday' if s.startswith('XXXX-WXX') else 'duration' if s.startswith('P') and s != 'PRESENT_REF'
                            else 'range' if s.startswith('(') else 'other')
        ctx.count(fam)
        if not a.startswith('err') and a != 'U,U,U,U,U':
            ctx.nontriv(o)
        bad = oracle_resolve(s, D(o[2], o[3], o[4]), a)
        fi = {'op': 'TimexResolver.resolve([timex], reference)', 'timex': s, 'reference': iso(D(o[2], o[3], o[4])),
              'implementation': a, 'model': b, 'property': bad[1] if bad else None}
        if b == 'unmodelled':
            unmod += 1
        elif a != b:
            tc.report(ctx, 'correspondence', 'resolve', 'resolve(%r, %s): implementation %s ; model %s ; property: %s' % (
                s, fi['reference'], a, b, bad[1] if bad else 'holds / n.a.'), failing_input=fi, property_fails=bad is not None)
            continue
        if bad:
            tc.report(ctx, 'property', bad[0], 'resolve(%r, %s): %s' % (s, fi['reference'], bad[1]), failing_input=fi,
                       property_fails=True)
    ctx.sample({'op': ops[0], 'implementation': impl[0]})
    ctx.sample({'op': ops[-1], 'implementation': impl[-1]})

    # ------------------------------------------------ unit level
    ops = unit_cases(ctx)
    impl, model = compare(ctx, ops, None)
    for o, a, b in zip(ops, impl, model):
        ctx.count('unit:' + o[0])
        if not a.startswith('err'):
            ctx.nontriv(('u',) + tuple(map(str, o)))
        if b == 'unmodelled' or a == 'nonintegral':
            unmod += 1
        elif a != b:
            tc.report(ctx, 'correspondence', 'unit-' + o[0], '%r: implementation %s ; model %s' % (o, a, b),
                       failing_input={'op': o[0], 'args': o[1:], 'implementation': a, 'model': b})
    ctx.sample({'op': ops[len(ops) // 2], 'implementation': impl[len(ops) // 2]})
    check_range_denotation(ctx)

    # ------------------------------------------------ evaluate
    cases = evaluate_cases(ctx) + duration_cases(ctx)
    seen = set()
    uniq = []
    for cs, l in cases:
        key = (tuple(cs), tuple(c.text for c in l))
        if key not in seen:
            seen.add(key)
            uniq.append((cs, l))
    cases = uniq
    ops = [('eval', tuple(cs), tuple(c.text for c in l)) for cs, l in cases]
    model = tc.drive([tc.line_of(o) for o in ops])
    # the model predicts which calls do not return; those run with a short limit and only a bounded number of them
    hang_idx = [i for i, m in enumerate(model) if m == 'hang']
    budget = 640 if ctx.thorough else 96
    keep_hang = set(hang_idx[:8]) | set(ctx.rng('hang').sample(hang_idx, min(len(hang_idx), budget)))
    run_fast = [i for i in range(len(ops)) if model[i] != 'hang']
    run_hang = sorted(keep_hang)
    impl = {}
    for i, a in zip(run_fast, tc.run_ops([ops[i] for i in run_fast], limit=5.0)):
        impl[i] = a
    for i, a in zip(run_hang, tc.run_ops([ops[i] for i in run_hang], limit=0.5, chunk=4)):
        impl[i] = a
    # raw results for the oracles (only where the call returned)
    ret = [i for i in sorted(impl) if impl[i].startswith('ok')]
    raws = dict(zip(ret, tc.run_ops([('evalraw',) + ops[i][1:] for i in ret], limit=5.0)))
    ctx.extra['evaluate_predicted_nonterminating'] = len(hang_idx)
    ctx.extra['evaluate_nonterminating_replayed'] = len(run_hang)
    for i in sorted(impl):
        cs, l = cases[i]
        a, b = impl[i], model[i]
        ctx.count('evaluate:%d-constraints' % len(l))
        if a.startswith('ok') and len(a) > 3:
            ctx.nontriv(('e',) + ops[i][1:])
        raw = raws.get(i, a)
        oracle = oracle_evaluate_dur if any(c.kind == 'datetime' for c in l) else oracle_evaluate
        bad = oracle(cs, l, raw if not isinstance(raw, str) or not raw.startswith('ok') else a)
        fi = {'op': 'TimexRangeResolver.evaluate(candidates, constraints)', 'candidates': list(cs),
              'constraints': [c.text for c in l], 'implementation': a if len(a) < 400 else a[:400] + '…', 'model': b if len(b) < 400 else b[:400] + '…',
              'values': [uncps(v[1:]) for v in a[3:].split(';') if v.startswith('S')][:12] if a.startswith('ok') else None,
              'property': bad[1] if bad else None}
        if b == 'unmodelled':
            unmod += 1
        elif a != b:
            tc.report(ctx, 'correspondence', 'evaluate', 'evaluate(%r, %r): implementation %s ; model %s ; property: %s' % (
                list(cs), fi['constraints'], fi['implementation'], fi['model'], bad[1] if bad else 'holds / n.a.'),
                failing_input=fi, property_fails=bad is not None)
            continue
        if bad:
            tc.report(ctx, 'property', bad[0], 'evaluate(%r, %r): %s' % (list(cs), fi['constraints'], bad[1]),
                       failing_input=fi, property_fails=True)
    ctx.extra['unmodelled_answers'] = unmod
    k = sorted(impl)[len(impl) // 2]
    ctx.sample({'op': ops[k], 'implementation': impl[k][:300]})
