"""C03 — numeric literals resolve to exactly the number written, in every culture; percentage model.

Ties (every run):
  unit      RTV.Dec (add/mul/div/str under a context precision) vs CPython `decimal`;
            RTV.Num.digitalValue vs BaseNumberParser._get_digital_value (10 configurations);
            RTV.Dec.formatStr vs CultureInfo.format; digit-literal resolution and the percentage suffix.
  pipeline  recognize_number / recognize_percentage on every literal shape x boundary magnitude x culture, alone
            and inside a carrier sentence: exactly one entity, whole-literal span, value = the number written
            (numeric value to 15 significant digits, the culture's decimal mark, no grouping mark) and, when the
            literal has at most 15 significant digits, string-equal to the model's resolution.
The oracle demands a (culture, shape) only when that culture's own digit regex definitions generate the form
(FORMS below: a committed contract, not read from the tree at run time)."""
import itertools
from decimal import Decimal, Context, ROUND_HALF_EVEN, localcontext, InvalidOperation, DivisionByZero

from lib import common, numfraccorr, numextractcorr
from lib.common import cps, uncps
from corr import numlib
from corr.numlib import CULTURES

PROP = 'C03'
LEVEL = 'proof'
PROPS_MODULES = ['RTV.Props.C03', 'RTV.Props.C03Frac', 'RTV.Props.C03Extract', 'RTV.Props.C03ExtractBounded',
                 'RTV.Props.C03ExtractPlain', 'RTV.Lemmas.ReNullableNum']
GEN = ['nummaps', 'chartables', 'numfrac', 'numregex', 'regexes', 'numfollow']
REQUIRED_THEOREMS = ['digital_exact', 'digital_exact_neg', 'format_canonical', 'number_literal', 'percent_literal',
                     'digital_round16', 'separators_distinct', 'comma_dot_cultures', 'progressive_rounding_witness',
                     'digital_exact_literal', 'digital_exact_grouped', 'digital_exact_decimal',
                     'digital_exact_grouped_decimal', 'cultures_marks_sane', 'marks_read_are_marks_written',
                     'single_mark_nonstandard_witness', 'format_canonical_general', 'grouping_mark_foreign',
                     'percent_literal_general', 'format_canonical_reads_back', 'number_literal_general',
                     'decimal_mark_foreign', 'zero_fraction_witness', 'constants_regenerated',
                     # RTV.Props.C03Frac: suffix multipliers, point, fractions, powers
                     'suffix_value_rounded', 'suffix_exact_literal', 'point_digits_exact', 'fraction_notation_value',
                     'power_e_exact', 'power_caret_exact', 'power_x10_exact', 'x10_caret_witness', 'mixed_roundth_witness', 'numfrac_constants',
                     # RTV.Props.C03Extract(Bounded): the extraction front end for digit literals
                     'gen_integer_definitions', 'gen_double_definitions', 'families_ok', 'tables_ok',
                     'grouped_literal_extracted', 'grouped_decimal_literal_extracted', 'grouped_literal_sweep',
                     'de_plain_decimal_split_witness', 'nl_plain_decimal_split_witness', 'de_negative_grouped_witness',
                     'esmx_two_groups_split_witness', 'plain_bounded', 'decimal_bounded', 'decimal_bounded_signed',
                     'plain_shapes', 'decimal_shapes', 'other_shapes', 'plain_literal_extracted', 'decimal_literal_extracted',
                     # the carrier contract of the extraction theorems (follower words) and the literal 0
                     'post_b_excluded', 'post_k_excluded', 'post_dozen_excluded', 'post_ordinary_ok',
                     'family_ignores_follower_witness', 'bounded_carrier_admissible', 'number_literal_zero']
RULE = ('unit: decimal ops on boundary coefficients (10^k, 10^k±1, ...5 ties) + seeded operands, p in {15, 28}; '
        '_get_digital_value / format on every literal shape (plain, grouped, decimal, grouped+decimal, ± sign) x '
        'magnitudes 0..10^15 (10^k, 10^k±1, 15- and 16-digit, 10^-6, 10^-7) x 10 configurations + seeded junk '
        'strings; pipeline: the same literals alone and in a carrier sentence through recognize_number and '
        'recognize_percentage; non-trivial = distinct (culture, query) with at least one entity')
ASSUMPTIONS = ['CPython decimal (libmpdec) is compared with the model on every run; exponent limits Emax/Emin are not modelled',
               'extraction of digit literals: modelled for the digit family of the seven BaseNumberParser extractor lists (RTV.NumExtract, regenerated regexes, backtracking matcher RTV.Re assumed to order matches as the regex module does: compared on every run); the extraction theorems are statements about that family on carriers whose right part does not begin with a follower word (RTV/Gen/NumFollow.lean); that the other entries of the real list add nothing on such carriers is sampled (numextractcorr follower / bounded ties), not proved; word / suffix / CJK regexes: pipeline correspondence only',
               'str.isdigit / Decimal(chr) tables exported from the running CPython (RTV/Gen/NumDigits.lean)']

# marks a culture writes: (grouping, decimal) — the long-format table of recognizers_number/culture.py
# (zh-cn has no long format: Western comma/dot as in the Chinese resource's digit regexes)
MARKS = {'en-us': (',', '.'), 'es-es': ('.', ','), 'es-mx': (',', '.'), 'fr-fr': ('.', ','), 'pt-br': ('.', ','),
         'de-de': ('.', ','), 'it-it': ('.', ','), 'nl-nl': ('.', ','), 'zh-cn': (',', '.'), 'ja-jp': (',', '.')}

CARRIER = {'en-us': 'the total was %s yesterday', 'es-es': 'el total fue %s ayer', 'es-mx': 'el total fue %s ayer',
           'fr-fr': 'le total était %s hier', 'pt-br': 'o total foi %s ontem', 'de-de': 'die summe war %s gestern',
           'it-it': 'il totale era %s ieri', 'nl-nl': 'het totaal was %s gisteren', 'zh-cn': '总数是 %s 。',
           'ja-jp': '合計は %s です'}

# The contract of "surface forms supported by the culture" (committed; derived at design time from the rule
# "some single digit-regex definition of the culture's number extractor generates the whole literal", evaluated
# on the unchanged tree over every literal of this check — never read from the tree at run time, so that a
# change of a definition cannot silently shrink what is demanded).  Not generated, hence not demanded:
#  de-de / nl-nl  plain decimal with >= 4 integer digits (`1234,5`): DoubleDecimalPointRegex is
#                 `\d{1,3}(\.\d{3})*(,\d+)?`;
#                 negative plain decimal (`-0,5`) and negative grouped integer (`-1.000`): DoubleDecimalPointRegex
#                 has no sign alternative and no integer format uses '.' as thousands mark in these cultures;
#  es-mx          grouped integer with two or more group marks (`1,000,000`): the Spanish extractor only has
#                 dot-grouping integer formats (one comma group is generated by `\d+[\.,]\d+`).
# Everything else is demanded for all ten cultures, for the number and the percentage model alike.
def demanded(culture, kind, lit):
    if culture in ('de-de', 'nl-nl'):
        if lit['shape'] == 'decimal' and (len(lit['int']) > 3 or lit['neg']):
            return False
        if lit['shape'] == 'grouped' and lit['neg']:
            return False
    if culture == 'es-mx' and lit['shape'] == 'grouped' and len(lit['int']) > 6:
        return False
    return True


def sig_digits(lit):
    """significant digits of the value written (leading zeros and trailing zeros do not count)"""
    return len((lit['int'] + (lit['frac'] or '')).lstrip('0').rstrip('0'))


def render(lit, culture):
    g, d = MARKS[culture]
    ip = lit['int']
    if lit['shape'] in ('grouped', 'groupedDecimal'):
        parts = []
        while len(ip) > 3:
            parts.insert(0, ip[-3:])
            ip = ip[:-3]
        parts.insert(0, ip)
        ip = g.join(parts)
    s = ip
    if lit['frac'] is not None:
        s += d + lit['frac']
    return ('-' if lit['neg'] else '') + s


def exact_value(lit):
    v = Decimal(lit['int'] + ('.' + lit['frac'] if lit['frac'] is not None else ''))
    return -v if lit['neg'] else v


def gen_literals(rng, thorough):
    ints = [str(i) for i in list(range(0, 21)) + [99, 100, 101, 999, 1000, 1001, 1234, 9999, 10000, 12345, 100000]]
    for k in range(3, 16):
        ints += [str(10 ** k - 1), str(10 ** k), str(10 ** k + 1)]
    ints += ['123456789012345', '999999999999999', '1234567890123456', '9999999999999999', '1000000000000001',
             '1234567890123445', '12345678901234451', '100200300', '1000000', '1002003']
    for _ in range(400 if thorough else 60):
        n = rng.randint(1, 15)
        ints.append(str(rng.randint(10 ** (n - 1), 10 ** n - 1)))
    ints = list(dict.fromkeys(ints))
    fracs = ['5', '05', '50', '25', '125', '001', '000001', '0000001', '00000001', '999999', '123456789']
    lits = []
    for ip in ints:
        for neg in (False, True):
            lits.append({'shape': 'plain', 'neg': neg, 'int': ip, 'frac': None})
            if len(ip) > 3:
                lits.append({'shape': 'grouped', 'neg': neg, 'int': ip, 'frac': None})
    dec_ints = ['0', '1', '7', '12', '123', '999', '1000', '1234', '12345', '999999', '1000000', '1234567',
                '123456789012', '99999999999999', '123456789012345']
    for ip in dec_ints:
        fl = list(fracs)
        for _ in range(6 if thorough else 2):
            fl.append(str(rng.randint(1, 10 ** rng.randint(1, 8))).zfill(rng.randint(1, 8)))
        for fr in fl:
            for neg in (False, True):
                lits.append({'shape': 'decimal', 'neg': neg, 'int': ip, 'frac': fr})
                if len(ip) > 3:
                    lits.append({'shape': 'groupedDecimal', 'neg': neg, 'int': ip, 'frac': fr})
    return lits


# ----------------------------------------------------------------------------------------------- unit: decimal

def unit_decimal(ctx):
    r = ctx.rng('dec')
    ops = []
    coeffs = [0, 1, 5, 9, 10, 15, 25, 99, 100, 101]
    for k in (14, 15, 16, 17, 27, 28, 29):
        coeffs += [10 ** k - 1, 10 ** k, 10 ** k + 1, 5 * 10 ** k, 10 ** k + 5, 15 * 10 ** (k - 1), 25 * 10 ** (k - 1),
                   10 ** k + 5 * 10 ** (k - 15) if k >= 15 else 7]
    coeffs += [1000000000000000055511151231257827021181583404541015625, 123456789012345, 1234567890123445,
               1234567890123455, 999999999999999, 9999999999999995, 99999999999999949]
    exps = [0, 1, -1, -14, -15, -16, -55, 3, -3]
    small = [(s, c, e) for s in (0, 1) for c in coeffs for e in exps]
    pairs = []
    for a in r.sample(small, 250 if not ctx.thorough else 600):
        for b in r.sample(small, 6):
            pairs.append((a, b))
    for _ in range(20000 if ctx.thorough else 4000):
        def rnd():
            n = r.choice([1, 2, 5, 14, 15, 16, 17, 20, 28, 29, 40, 55])
            c = r.randint(0, 10 ** n)
            if r.random() < 0.3:
                c = (c // 10 ** (n // 2)) * 10 ** (n // 2)
            return (r.randint(0, 1), c, r.randint(-60, 20))
        pairs.append((rnd(), rnd()))
    lines, impl = [], []
    for (a, b) in pairs:
        for p in (15, 28):
            c = Context(prec=p, rounding=ROUND_HALF_EVEN)
            da, db = numlib.dec_from(*a), numlib.dec_from(*b)
            for op in ('add', 'mul', 'div'):
                lines.append('n.dec\t%s\t%d\t%d\t%d\t%d\t%d\t%d\t%d' % ((op, p) + a + b))
                try:
                    v = {'add': c.add, 'mul': c.multiply, 'div': c.divide}[op](da, db)
                    impl.append(numlib.dec_triple(v))
                except (DivisionByZero, InvalidOperation):
                    impl.append('err:ZeroDivisionError')
    model = common.driver(lines)
    ctx.count('decimal-op', len(lines))
    for l, a, b in zip(lines, impl, model):
        if not a.startswith('err'):
            ctx.nontriv(l)
        if a != b:
            ctx.report('correspondence', 'decimal-op', '%r: decimal %s, model %s' % (l, a, b),
                       failing_input={'op': l, 'implementation': a, 'model': b})
    # str(Decimal)
    lines, impl = [], []
    triples = [(s, c, e) for s in (0, 1) for c in coeffs[:40] for e in range(-25, 8)]
    for _ in range(3000):
        triples.append((r.randint(0, 1), r.randint(0, 10 ** r.randint(1, 20)), r.randint(-30, 12)))
    for t in triples:
        lines.append('n.decstr\t%d\t%d\t%d' % t)
        impl.append(cps(str(numlib.dec_from(*t))))
    model = common.driver(lines)
    ctx.count('decimal-str', len(lines))
    for l, a, b in zip(lines, impl, model):
        if a != b:
            ctx.report('correspondence', 'decimal-str', '%r: str %r, model %r' % (l, uncps(a), uncps(b)),
                       failing_input={'op': l, 'implementation': uncps(a), 'model': uncps(b)})
    ctx.sample({'op': lines[7], 'implementation': uncps(impl[7])})
    # repr(float(Decimal)) for decimals of at most 15 significant digits
    lines, impl = [], []
    for t in triples:
        d = numlib.dec_from(*t)
        if len(str(t[1]).rstrip('0')) > 15 or not (-300 < d.adjusted() < 300):
            continue
        lines.append('n.floatrepr\t%d\t%d\t%d' % t)
        impl.append(cps(repr(float(d))))
    model = common.driver(lines)
    ctx.count('float-repr', len(lines))
    for l, a, b in zip(lines, impl, model):
        if a != b:
            ctx.report('correspondence', 'float-repr', '%r: repr %r, model %r' % (l, uncps(a), uncps(b)),
                       failing_input={'op': l, 'implementation': uncps(a), 'model': uncps(b)})


# ----------------------------------------------------------------------------------------------- unit: parser

JUNK = list('0123456789') + [',', '.', ' ', ' ', '-', '/', 'k', '٤', '²', ' ', "'"]


def unit_parser(ctx, lits):
    r = ctx.rng('dv')
    cases = []      # (culture, string, power)
    for cu in CULTURES:
        for lit in lits:
            cases.append((cu, render(lit, cu), 1))
            # the other convention as well: the parser must be mirrored on text the extractor may also hand over
            other = 'en-us' if MARKS[cu][0] == '.' else 'de-de'
            if lit['shape'] != 'plain':
                cases.append((cu, render(lit, other), 1))
        for s in ['', '-', '1/2', '3/0', '0/0', '1 1/2', '/', '1/', '/2', '1/2/3', '5', '1 234', '1 234,5', '0,234',
                  '1,23', '1234,567', '12,345', '1.234.567,89', '1,234,567.89', '1.234,567.89', ',5', '.5', '5.', '1..2',
                  '1.2.3', '٤٥', '4²', '1,234,56', '01,234', '10,234']:
            for pw in (1, 1000, 12):
                cases.append((cu, s, pw))
        for _ in range(3000 if ctx.thorough else 500):
            n = r.randint(1, 12)
            cases.append((cu, ''.join(r.choice(JUNK) for _ in range(n)), r.choice([1, 1, 1000, 1000000])))
    cases = list(dict.fromkeys(cases))
    lines, impl, fm_lines, fm_impl = [], [], [], []
    for cu, s, pw in cases:
        parser = numlib.models(cu)['number'].parser
        lines.append('n.dv\t%s\t15\t%s\t%d' % (cps(cu), cps(s), pw))
        try:
            v = parser._get_digital_value(s, pw)
            impl.append(numlib.dec_triple(v))
            fm_lines.append('n.fmt\t%s\t%s' % (cps(cu), cps(str(v))))
            fm_impl.append(cps(parser.config.culture_info.format(v)))
        except Exception as e:
            impl.append(numlib.err_kind(e))
    model = [numlib.canon_model_err(m) for m in common.driver(lines)]
    ctx.count('digital-value', len(lines))
    for (cu, s, pw), a, b in zip(cases, impl, model):
        if not a.startswith('err'):
            ctx.nontriv(('dv', cu, s, pw))
        if a != b:
            ctx.report('correspondence', 'digital-value', '_get_digital_value(%r, %d) [%s]: implementation %s, model %s' % (
                s, pw, cu, a, b), failing_input={'culture': cu, 'digits_str': s, 'power': pw, 'implementation': a, 'model': b})
    model = common.driver(fm_lines)
    ctx.count('format', len(fm_lines))
    for l, a, b in zip(fm_lines, fm_impl, model):
        if a != b:
            ctx.report('correspondence', 'format', '%r: implementation %r, model %r' % (l, uncps(a), uncps(b)),
                       failing_input={'op': l, 'implementation': uncps(a), 'model': uncps(b)})
    # format on str() of ints / floats the other parsers hand over
    extra = ['0', '-0', '120.0', '1e+16', '1.5e-07', '1E+2', '100', '-12.50', '1.0E-7', '3.', '1,5', '1e-5', '0.30000000000000004']
    fl, fi = [], []
    for cu in CULTURES:
        ci = numlib.models(cu)['number'].parser.config.culture_info
        for s in extra:
            fl.append('n.fmt\t%s\t%s' % (cps(cu), cps(s)))
            fi.append(cps(ci.format(s)))
    fm = common.driver(fl)
    ctx.count('format', len(fl))
    for l, a, b in zip(fl, fi, fm):
        if a != b:
            ctx.report('correspondence', 'format', '%r: implementation %r, model %r' % (l, uncps(a), uncps(b)),
                       failing_input={'op': l, 'implementation': uncps(a), 'model': uncps(b)})
    ctx.sample({'op': lines[len(lines) // 3], 'implementation': impl[len(impl) // 3]})


# ----------------------------------------------------------------------------------------------- pipeline

def parse_value(culture, s):
    """resolution string -> (Decimal | None, problem | None): the property's reading of the output."""
    g, d = MARKS[culture]
    if s is None:
        return None, 'no value'
    body = s
    if g in body:
        return None, 'grouping mark %r in the value' % g
    if d != '.':
        if '.' in body:
            return None, "decimal mark '.' instead of %r" % d
        body = body.replace(d, '.')
    try:
        return Decimal(body), None
    except InvalidOperation:
        return None, 'value %r is not a number' % s


def value_ok(lit, got):
    want = exact_value(lit)
    if sig_digits(lit) <= 15:
        return got == want
    if want == 0:
        return got == 0
    return abs(got - want) <= abs(want) * Decimal('1e-14')


def judge(culture, kind, lit, text, query, offset, res):
    """-> (failure kind | None, detail)"""
    if isinstance(res, str):
        return 'raises', res
    if len(res) == 0:
        return 'no-entity', 'nothing recognised'
    if len(res) > 1:
        return 'split', 'recognised as %d entities: %r' % (len(res), [(t, v) for _, _, t, v, _ in res])
    st, en, t, v, _ = res[0]
    if st != offset or en != offset + len(text) - 1:
        return 'span', 'span [%d,%d] text %r, literal at [%d,%d]' % (st, en, t, offset, offset + len(text) - 1)
    if kind == 'percentage':
        if v is None or not v.endswith('%'):
            return 'value', 'value %r does not end with %%' % v
        v = v[:-1]
    got, prob = parse_value(culture, v)
    if prob:
        return 'value', prob
    if not value_ok(lit, got):
        return 'value', 'value %r denotes %s, the literal denotes %s' % (v, got, exact_value(lit))
    return None, ''


CJK_FLOAT_PERCENT = ('zh-cn',)      # percentage model built on CJKNumberParser.per_parse (float values)


def pipeline(ctx, lits):
    jobs, meta = [], []
    for cu in CULTURES:
        for lit in lits:
            text = render(lit, cu)
            for carrier in (False, True):
                for kind in ('number', 'percentage'):
                    t = text + ('%' if kind == 'percentage' else '')
                    q = CARRIER[cu] % t if carrier else t
                    off = q.index(t)
                    jobs.append((kind, cu, q))
                    meta.append((cu, kind, lit, t, q, off, carrier))
    results = numlib.run_pipeline(jobs)
    # model prediction for the resolution string (only compared when the literal has <= 15 significant digits)
    lines = []
    for (cu, kind, lit, t, q, off, carrier) in meta:
        op = 'dres' if kind == 'number' else ('cjkpres' if cu in CJK_FLOAT_PERCENT else 'pres')
        lines.append('n.%s\t%s\t15\t%s' % (op, cps(cu), cps(render(lit, cu))))
    uniq = list(dict.fromkeys(lines))
    pred = dict(zip(uniq, common.driver(uniq)))
    ctx.count('pipeline-number', sum(1 for m in meta if m[1] == 'number'))
    ctx.count('pipeline-percentage', sum(1 for m in meta if m[1] == 'percentage'))
    undemanded = {}
    number_verdict = {}
    for (cu, kind, lit, t, q, off, carrier), res, line in zip(meta, results, lines):
        if not isinstance(res, str) and res:
            ctx.nontriv((cu, kind, q))
        bad, detail = judge(cu, kind, lit, t, q, off, res)
        if not demanded(cu, kind, lit):
            k = '%s:%s:%s%s:%s' % (kind, cu, lit['shape'], '-neg' if lit['neg'] else '', bad or 'ok')
            undemanded[k] = undemanded.get(k, 0) + 1
            if bad == 'raises':
                # outside the property (a surface form the culture does not support), but an exception is never just
                # "another outcome": shown by itself in the evidence, with the inputs (audit item 25)
                ur = ctx.extra.setdefault('not_demanded_forms_that_raise', {'count': 0, 'examples': []})
                ur['count'] += 1
                if len(ur['examples']) < 10:
                    ur['examples'].append({'culture': cu, 'model': kind, 'query': q, 'exception': detail})
            continue
        fi = {'culture': cu, 'model': kind, 'query': q, 'literal': t, 'shape': lit['shape'], 'negative': lit['neg'],
              'result': res, 'expected_value': str(exact_value(lit))}
        key = (cu, id(lit), carrier)
        if kind == 'number':
            number_verdict[key] = bad
        if bad:
            # a percentage failure that merely repeats the number model's failure on the same literal carries the
            # number signature (one defect, one signature)
            k2 = 'number' if (kind == 'percentage' and number_verdict.get(key) == bad) else kind
            shape = lit['shape']
            if (k2 == 'percentage' and cu == 'ja-jp' and not lit['neg'] and shape in ('grouped', 'groupedDecimal')
                    and len(lit['int']) <= 6):
                # the recorded ja-jp findings `percentage:ja-jp:grouped[Decimal]:span` are about TWO OR MORE group marks
                # ('1,000,000%' -> '000,000%'); one group mark ('1,000%') is fine today and is demanded (recorded nowhere)
                shape += '-one-mark'
            sig = '%s:%s:%s%s:%s' % (k2, cu, shape, '-neg' if lit['neg'] else '', bad)
            ctx.report('property', sig, '%s(%r, %s): %s' % (kind, q, cu, detail), failing_input=fi, property_fails=True)
            continue
        if sig_digits(lit) <= 15:
            want = pred[line]
            got = cps(res[0][3])
            if got != want:
                ctx.report('correspondence', 'pipeline-resolution-%s' % kind,
                           '%s(%r, %s): implementation %r, model %r' % (kind, q, cu, res[0][3], uncps(want)),
                           failing_input=dict(fi, model_value=uncps(want)))
    ctx.extra['not_demanded_forms'] = undemanded
    ctx.sample({'query': meta[len(meta) // 2][4], 'culture': meta[len(meta) // 2][0], 'result': results[len(meta) // 2]})


def carriers_clean(ctx):
    """A carrier sentence must not contain a number by itself (otherwise 'exactly one entity' is mis-judged)."""
    jobs = [(k, cu, CARRIER[cu] % 'x') for cu in CULTURES for k in ('number', 'percentage')]
    for j, r in zip(jobs, numlib.run_pipeline(jobs)):
        if r:
            raise common.InfraError('carrier sentence %r yields entities by itself: %r' % (j, r))


def correspond(ctx):
    numlib.setup()
    lits = gen_literals(ctx.rng('lits'), ctx.thorough)
    carriers_clean(ctx)
    unit_decimal(ctx)
    unit_parser(ctx, lits)
    pipeline(ctx, lits)
    numfraccorr.run(ctx)      # suffix / point / fraction / power paths (RTV.Model.NumFrac, Props/C03Frac)
    numextractcorr.run(ctx)   # the extraction front end for digit literals (RTV.Model.NumExtract, Props/C03Extract)
    ctx.extra['literals_per_culture'] = len(lits)


def search(ctx, proof_problems):
    """A proof obligation about the regenerated configuration broke: evaluate the property on every literal with
    the model's current configuration and on the implementation; `correspond` (which always runs first) has already
    replayed all literal shapes, so any concrete failure is in ctx.breaks.  The extraction front end additionally
    evaluates the MODEL extractor (regenerated regexes) on literals of up to 26 digits and replays what it loses."""
    numextractcorr.search(ctx, proof_problems)
