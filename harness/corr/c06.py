"""C06 — absolute calendar dates are recognised exactly, whatever the reference date.

Ties: (1) unit correspondence of RTV.Model.DtRes (Lean driver) with the working tree's `DateTimeFormatUtil.luis_date /
format_date`, `DateUtils.generate_dates` (+ validity guard), `BaseDateParser.match_to_date` (called through the real
parser objects of every BaseDateParser culture on real regex matches of generated strings; the model is fed the same
group values), `_date_time_resolution` on date slots; (2) pipeline: `DateTimeModel.parse` on every layout the committed
contract /verif/contracts/C06.json demands of each culture, against the property's own oracle (one date entity covering
the expression, timex = value = YYYY-MM-DD, for every reference); (3) word contract: the month / day WORDS of every culture's
`month_of_year` / `day_of_month` against the committed, hand-written /verif/contracts/C06words.json (`enero` = 1, `märz` = 3,
`三月` = 3 …; also a Lean obligation: Props/C06 `month_words_*` / `day_words_*` over RTV/Gen/DateWords.lean)."""
import datetime
import json
import os
import re

from lib import common, dtres, datefrontcorr
from lib.common import cps

PROP = 'C06'
LEVEL = 'proof'
PROPS_MODULES = ['RTV.Props.C06', 'RTV.Props.C06Front', 'RTV.Props.C06FrontX', 'RTV.Props.C06FrontEs',
                 'RTV.Props.C06FrontFr', 'RTV.Props.C06FrontPt', 'RTV.Props.C06FrontDe']
GEN = ['chartables', 'dtmaps', 'datewords', 'dateregex', 'regexes']
REQUIRED_THEOREMS = ['abs_date', 'abs_date_reference_independent', 'two_digit_year', 'two_digit_year_gap',
                     'two_digit_year_witness', 'invalid_date_not_resolved', 'pivots_sane', 'ymd_shape',
                     'month_map_en', 'day_map_en', 'english_month_names',
                     'month_map_es', 'month_map_esmx', 'month_map_fr', 'month_map_pt', 'month_map_it', 'month_map_de',
                     'month_map_nl', 'day_map_es', 'day_map_esmx', 'day_map_fr', 'day_map_pt', 'day_map_it',
                     'day_map_de', 'day_map_nl', 'numeric_keys_zh', 'abs_date_zh', 'zh_tables',
                     'month_words_en', 'month_words_es', 'month_words_esmx', 'month_words_fr', 'month_words_pt',
                     'month_words_it', 'month_words_de', 'month_words_nl', 'month_words_zh',
                     'day_words_en', 'day_words_es', 'day_words_esmx', 'day_words_fr', 'day_words_pt', 'day_words_it',
                     'day_words_de', 'day_words_nl', 'day_words_zh', 'month_words_cover', 'abs_date_month_word',
                     'abs_date_zh_words',
                     'front_groups_en', 'front_decodes', 'front_abs_date', 'front_abs_date_engine', 'retables_ascii',
                     'token_tables', 'layouts_have_facts', 'front_day32_rejected',
                     'retables_latin', 'front_abs_date_gen', 'front_abs_date_es', 'front_abs_date_engine_es', 'front_abs_date_esmx',
                     'token_tables_es', 'layouts_have_facts_es', 'esmx_same', 'front_day_first_es', 'front_day32_rejected_es',
                     'front_abs_date_fr', 'front_abs_date_fr_day1', 'front_abs_date_engine_fr', 'token_tables_fr', 'layouts_have_facts_fr',
                     'front_day_first_fr', 'front_2er_groups_fr', 'day_2er_no_key_fr',
                     'front_abs_date_pt', 'front_abs_date_engine_pt', 'token_tables_pt', 'layouts_have_facts_pt', 'front_day_first_pt',
                     'front_abs_date_de', 'front_abs_date_engine_de', 'token_tables_de', 'layouts_have_facts_de', 'front_day_first_de',
                     'front_day_dot_groups_de', 'front_month13_rejected_de']
RULE = ('unit: format_date/luis_date on all 73,049 dates 1900..2099 + out-of-range years; generate_dates on a grid '
        '(years incl. 1,4,100,1900,2000,2100,9999 x months 0..13 x days 0,1,28..32 x no_year x references); match_to_date on '
        'every match of every date regex of the 8 BaseDateParser cultures over strings built from the contract layouts, '
        'two-digit years 00..99, year-less and impossible dates. pipeline: contract layouts x dates x references spread over '
        '1950..2090 x carrier sentences; quick: month ends, leap days, day<=12 swaps + seeded sample (English: every layout on '
        'each; other cultures: every layout on a smaller set); thorough: every one of the 73,049 dates in a rotating English '
        'layout, every English layout on every day of 2000 and 2019 and on every month end / leap day of every year, other '
        'cultures every layout on every day of 2000 and on month ends of every 7th year (the full product 73,049 x 15 layouts '
        'does not fit 20 min at the measured 110-450 date queries/s); non-trivial = distinct query that produced the date. '
        'word contract: every word of contracts/C06words.json (all full month names, abbreviations, ordinal day spellings, '
        '汉字 numerals; 9 cultures) against the tree\'s month_of_year / day_of_month; a violated word is put into the culture\'s '
        'month-name layouts and asked of the pipeline')
ASSUMPTIONS = ['English, es-es, es-mx, fr-fr, pt-br, de-de: text -> groups is modelled and proved (Props/C06Front, C06Front<Cul>: '
               'parse_basic_regex_match on the regenerated date regexes of the culture, every contract layout x every date 1900-2099; regex '
               'engine = backtracking matcher validated against `regex` by lib/datefrontcorr); it-it, nl-nl: the same front-end model on their '
               'regenerated regexes is compared with the implementation (unit + layout x date grid) but not proved (kernel evaluation of '
               'their look-behind-heavy regexes exceeds the build budget), zh-cn: group values are inputs of the model; the date EXTRACTOR '
               'is not modelled (pipeline level only)',
               'get_year_from_text (written-out years) enters the model as a parameter',
               'ChineseDateParser.match_to_date is modelled (unit correspondence on ~6k real matches); its 汉字-year conversion '
               '(convert_chinese_year_to_number, which runs the number recogniser) is an input of the model',
               'two-digit years are outside the property (it speaks of fully specified years 1900-2099; the contract has four-digit '
               'layouts only): the gap 30..39 -> year 00YY is proved (two_digit_year_gap / _witness) and replayed as an observation',
               'datedelta is not involved in absolute dates']

CONTRACT = os.path.join(common.VERIF, 'contracts', 'C06.json')
WORDS = os.path.join(common.VERIF, 'contracts', 'C06words.json')
REFS = [(1950, 1, 1, 0, 0, 0), (1987, 6, 15, 12, 0, 0), (2016, 11, 7, 10, 30, 0), (2020, 2, 29, 23, 59, 59),
        (2055, 7, 4, 6, 7, 8), (2090, 12, 31, 18, 0, 0)]
CARRIERS = {
    'en-us': ['%s', 'I was born on %s, in Paris', 'the contract ends %s.'],
    'es-es': ['%s', 'naci el %s en Lima'], 'es-mx': ['%s', 'naci el %s en Lima'],
    'fr-fr': ['%s', 'je suis né le %s à Lyon'], 'pt-br': ['%s', 'eu nasci em %s no Rio'],
    'it-it': ['%s', 'sono nato il %s a Roma'], 'de-de': ['%s', 'ich wurde am %s geboren'],
    'nl-nl': ['%s', 'ik ben geboren op %s in Gent'], 'zh-cn': ['%s', '我出生于%s。'],
}


def load_contract():
    with open(CONTRACT, encoding='utf-8') as f:
        return json.load(f)


def ordinal_en(d):
    return str(d) + ('th' if 11 <= d % 100 <= 13 else {1: 'st', 2: 'nd', 3: 'rd'}.get(d % 10, 'th'))


def render(contract, culture, template, y, m, d):
    """The expression for a date in a layout, or None when the layout does not apply (e.g. `1er` for day != 1)."""
    if '{d1er}' in template and d != 1:
        return None
    mon = contract['months'].get(culture, [''] * 12)[m - 1] if culture in contract['months'] else ''
    abbr = contract['abbr'].get(culture, [''] * 12)[m - 1] if culture in contract['abbr'] else ''
    return template.format(y=y, m=m, d=d, m02='%02d' % m, d02='%02d' % d, mon=mon, abbr=abbr, dord=ordinal_en(d), d1er='1er')


def all_dates():
    d = datetime.date(1900, 1, 1)
    end = datetime.date(2099, 12, 31)
    while d <= end:
        yield d
        d += datetime.timedelta(days=1)


def is_month_end(d):
    return (d + datetime.timedelta(days=1)).month != d.month


# ---------------------------------------------------------------- unit level

def unit_format(ctx, T):
    F = T.utilities.DateTimeFormatUtil
    lines, impl = [], []
    for d in all_dates():
        dt = datetime.datetime(d.year, d.month, d.day)
        lines.append('dt.dtfmt\tfmtdate\t' + dtres.dt_field(dt))
        impl.append(cps(F.format_date(dt)))
        lines.append('dt.dtfmt\tluisdate\t%d\t%d\t%d' % (d.year, d.month, d.day))
        impl.append(cps(F.luis_date(d.year, d.month, d.day)))
    for y in (-1, 0, 1, 9, 30, 99, 100, 999, 1000, 9999, 10000, -2147483648):
        for m in (-1, 0, 1, 9, 10, 12, 13):
            for d in (0, 1, 9, 10, 31, 32, 100):
                lines.append('dt.dtfmt\tluisdate\t%d\t%d\t%d' % (y, m, d))
                impl.append(cps(F.luis_date(y, m, d)))
    model = dtres.drive(lines)
    ctx.count('format_date/luis_date', len(lines))
    for l, a, m in zip(lines, impl, model):
        if a != m:
            dtres.report(ctx, 'correspondence', 'format-date', '%s: implementation %s, model %s' % (l.replace('\t', ' '), a, m),
                       failing_input={'op': l, 'implementation': a, 'model': m})
    ctx.sample({'op': lines[20000], 'implementation': impl[20000]})


def unit_generate_dates(ctx, T):
    DU = T.utilities.DateUtils
    refs = [datetime.datetime(*r) for r in REFS] + [datetime.datetime(2016, 2, 29), datetime.datetime(2019, 3, 5)]
    years = [1, 3, 4, 5, 100, 1899, 1900, 1999, 2000, 2016, 2019, 2020, 2096, 2100, 9996, 9998, 9999, 10000]
    lines, impl = [], []
    for ny in (False, True):
        for y in years:
            for m in range(0, 14):
                for d in (0, 1, 28, 29, 30, 31, 32):
                    for ref in (refs if ny else refs[:1]):
                        try:
                            f, p = DU.generate_dates(ny, ref, y, m, d)
                            a = '%s|%s' % (dtres.dt_field(f), dtres.dt_field(p))
                        except Exception as e:
                            a = dtres.err_kind(e)
                        lines.append('dt.gendates\t%s\t%s\t%d\t%d\t%d' % (dtres.b(ny), dtres.dt_field(ref), y, m, d))
                        impl.append(a)
    # the year-less case at the reference day itself and one day either side (>= vs >)
    for ref in refs:
        for k in (-1, 0, 1):
            dd = ref.date() + datetime.timedelta(days=k)
            f, p = DU.generate_dates(True, ref, ref.year, dd.month, dd.day)
            lines.append('dt.gendates\t1\t%s\t%d\t%d\t%d' % (dtres.dt_field(ref), ref.year, dd.month, dd.day))
            impl.append('%s|%s' % (dtres.dt_field(f), dtres.dt_field(p)))
    model = dtres.drive(lines)
    ctx.count('generate_dates', len(lines))
    for l, a, m in zip(lines, impl, model):
        if a != '1,1,1,0,0,0|1,1,1,0,0,0':
            ctx.nontriv(('gd', l))
        if a != m:
            dtres.report(ctx, 'correspondence', 'generate_dates', '%s: implementation %s, model %s' % (l.replace('\t', ' '), a, m),
                       failing_input={'op': l, 'implementation': a, 'model': m})
    ctx.sample({'op': lines[777], 'implementation': impl[777]})


def date_strings(ctx, contract, culture):
    out = []
    r = ctx.rng('datestr', culture)
    dates = [(2019, 3, 5), (2019, 12, 25), (1987, 1, 13), (2000, 2, 29), (2019, 2, 29), (2019, 2, 30), (2019, 4, 31),
             (1900, 1, 1), (2099, 12, 31), (2019, 5, 11), (2024, 7, 4), (2010, 1, 2), (2019, 11, 31), (2019, 10, 10)]
    dates += [(r.randint(1900, 2099), r.randint(1, 12), r.randint(1, 31)) for _ in range(150 if ctx.thorough else 40)]
    for row in contract['layouts'][culture]:
        t = row['template']
        for (y, m, d) in dates:
            e = render(contract, culture, t, y, m, d)
            if e:
                out.append(e)
        # two-digit years and year-less forms of the same layout
        for yy in range(0, 100, 1 if '{y}' in t and t.endswith('{y}') else 7):
            e = render(contract, culture, t.replace('{y}', '@@'), 0, 3, 5)
            if e:
                out.append(e.replace('@@', '%02d' % yy))
        e = render(contract, culture, t.replace('{y}', '').strip(' ,-/'), 0, 3, 5)
        if e:
            out.append(e)
    out += ['13/13/2019', '0/0/2019', '31/12/2019', '12/31/2019', '2019-13-01', '2019-00-10', '5', 'x', '']
    seen, uniq = set(), []
    for s in out:
        if s not in seen:
            seen.add(s)
            uniq.append(s)
    return uniq


def unit_match_to_date(ctx, T, contract):
    refs = [datetime.datetime(*REFS[2]), datetime.datetime(*REFS[3]), datetime.datetime(2019, 3, 5, 0, 0, 0)]
    lines, impl, meta = [], [], []
    for culture in contract['layouts']:
        dp = T.date_parser(culture)
        if type(dp).__name__ != 'BaseDateParser':
            continue
        tag = dtres.TAGS[culture]
        seen = set()
        for s in date_strings(ctx, contract, culture):
            low = s.lower()
            for i, pat in enumerate(dp.config.date_regex):
                for text in (low, dp.config.date_token_prefix + low):
                    m = T.regex.search(pat, text)
                    if m is None:
                        continue
                    fields, wy, groups = T.date_call_fields(culture, m)
                    key = tuple(fields) + (wy,)
                    if key in seen or wy is None:
                        continue
                    seen.add(key)
                    ref = refs[len(seen) % len(refs)]
                    try:
                        a = dtres.res_str(dp.match_to_date(m, ref))
                    except Exception as e:
                        a = dtres.err_kind(e)
                    lines.append('\t'.join(['dt.m2d', tag, dtres.dt_field(ref)] + fields + [str(wy)]))
                    impl.append(a)
                    meta.append((culture, m.group(), 'date_regex#%d' % i, groups, ref))
    model = dtres.drive(lines)
    ctx.count('match_to_date', len(lines))
    per = {}
    for (culture, text, name, groups, ref), l, a, mo in zip(meta, lines, impl, model):
        per[culture] = per.get(culture, 0) + 1
        if a.startswith('1|') and not a.endswith('1,1,1,0,0,0|1,1,1,0,0,0'):
            ctx.nontriv(('m2d', culture, tuple(sorted(groups.items()))))
        if a != mo:
            dtres.report(ctx, 'correspondence', 'match_to_date', 'match_to_date[%s] on %r (%s) groups %r: implementation %s, model %s' % (
                culture, text, name, groups, a, mo),
                failing_input={'op': 'BaseDateParser.match_to_date', 'culture': culture, 'matched_text': text, 'regex': name,
                               'groups': groups, 'reference': str(ref), 'implementation': a, 'model': mo})
    ctx.extra['match_to_date_calls_per_culture'] = per
    ctx.sample({'op': lines[len(lines) // 2], 'implementation': impl[len(lines) // 2]})


def unit_match_to_date_zh(ctx, T, contract):
    """ChineseDateParser.match_to_date on real matches of its date regexes; the 汉字-year conversion
    (convert_chinese_year_to_number, which runs the number recogniser) enters the model as the value the real method
    returns for the captured `yearchs` group."""
    dp = T.date_parser('zh-cn')
    g = T.RegExpUtility.get_group
    C = T.Constants
    refs = [datetime.datetime(*REFS[2]), datetime.datetime(*REFS[3]), datetime.datetime(2019, 3, 5, 0, 0, 0)]
    strings = []
    han_m = ['一', '二', '三', '四', '五', '六', '七', '八', '九', '十', '十一', '十二', '正', '腊']
    han_d = ['一', '二', '五', '十', '十五', '二十', '二十九', '三十', '三十一']
    for y in ('2019', '19', '29', '30', '45', '99', '00', '二零一九', '二〇二〇', '一九八七', '两千零五', ''):
        ys = (y + '年') if y else ''
        for m in ['1', '3', '03', '12', '13'] + han_m[:4] + han_m[9:]:
            for d in ['1', '5', '05', '29', '30', '31', '32'] + han_d:
                for suf in ('日', '号', ''):
                    strings.append('%s%s月%s%s' % (ys, m, d, suf))
    for y, m, d in ((2019, 3, 5), (2000, 2, 29), (2019, 2, 30), (1900, 1, 1), (2099, 12, 31), (30, 3, 5), (2019, 13, 1)):
        for t in ('%d-%02d-%02d', '%d/%d/%d', '%d.%d.%d', '%d-%d-%d'):
            strings.append(t % (y, m, d))
        strings.append('%d/%d/%d' % (m, d, y))
        strings.append('%d-%d-%d' % (d, m, y))
    lines, impl, meta = [], [], []
    seen = set()
    for s in strings:
        for i, pat in enumerate(dp.config.date_regex):
            m = T.regex.search(pat, s)
            if m is None:
                continue
            y, ychs, mo, d = g(m, 'year'), g(m, C.YEAR_CJK_GROUP_NAME), g(m, 'month'), g(m, 'day')
            key = (y, ychs, mo, d)
            if key in seen:
                continue
            seen.add(key)
            try:
                cy = dp.convert_chinese_year_to_number(ychs)
            except Exception:
                continue
            ref = refs[len(seen) % len(refs)]
            try:
                inner = dp.match_to_date(m, ref)
                a = dtres.res_str(inner)
            except Exception as e:
                inner = e
                a = dtres.err_kind(e)
            fields = [dtres.dt_field(ref), cps(y), '-', cps(mo), cps(d), str(cy)]
            lines.append('\t'.join(['dt.m2dzh'] + fields))
            impl.append(a)
            meta.append((m.group(), 'date_regex#%d' % i, {'year': y, 'yearchs': ychs, 'month': mo, 'day': d, 'chsYear': cy}, ref))
            # the entity-level composition the theorems are about (RTV.DtRes.resolveDateZh: match_to_date -> parse -> _date_time_resolution)
            lines.append('\t'.join(['dt.rdatezh'] + fields))
            impl.append(dtres.entity_values(T, 'date', inner, 'zh-cn'))
            meta.append((m.group(), 'date_regex#%d' % i, {'year': y, 'yearchs': ychs, 'month': mo, 'day': d, 'chsYear': cy}, ref))
    model = dtres.drive(lines)
    ctx.count('match_to_date(zh)', len(lines))
    for (text, name, groups, ref), l, a, mo in zip(meta, lines, impl, model):
        if a.startswith('1|') and not a.endswith('1,1,1,0,0,0|1,1,1,0,0,0'):
            ctx.nontriv(('m2dzh', tuple(sorted(groups.items()))))
        if a != mo:
            dtres.report(ctx, 'correspondence', 'match_to_date-zh', 'ChineseDateParser.match_to_date on %r (%s) groups %r: implementation %s, model %s' % (
                text, name, groups, a, mo),
                failing_input={'op': l, 'matched_text': text, 'regex': name, 'groups': groups, 'reference': str(ref),
                               'implementation': a, 'model': mo})
    if lines:
        ctx.sample({'op': lines[len(lines) // 2], 'implementation': impl[len(lines) // 2]})


def unit_resolution(ctx, T):
    from recognizers_date_time.date_time.parsers import DateTimeParseResult
    from recognizers_text.extractor import ExtractResult
    merged = T.merged()
    U = T.utilities
    F = U.DateTimeFormatUtil
    DATE = T.TimeTypeConstants.DATE
    lines, impl = [], []
    pool = [(2019, 3, 5), (1, 1, 1), (2020, 2, 29), (1, 1, 2), (9999, 12, 31), (1900, 1, 1), (30, 3, 5), (999, 12, 31)]
    for d1 in pool:
        for d2 in pool:
            for timex in ('%04d-%02d-%02d' % d1, 'XXXX-%02d-%02d' % d1[1:], ''):
                for comment in ('', 'ampm'):
                    src = ExtractResult()
                    src.start, src.length, src.text, src.type = 0, 1, 'x', 'date'
                    slot = DateTimeParseResult(src)
                    slot.type = 'date'
                    val = U.DateTimeResolutionResult()
                    val.success, val.timex, val.comment = True, timex, comment
                    fut, past = datetime.datetime(*d2), datetime.datetime(*d1)
                    val.future_value, val.past_value = fut, past
                    val.future_resolution = {DATE: F.format_date(fut)}
                    val.past_resolution = {DATE: F.format_date(past)}
                    slot.value, slot.timex_str = val, timex
                    try:
                        a = dtres.values_str(merged._date_time_resolution(slot, False, False, False))
                    except Exception as e:
                        a = dtres.err_kind(e)
                    lines.append('\t'.join(['dt.res', 'date', '1', cps(timex), cps(comment), dtres.dt_field(fut), dtres.dt_field(past)]))
                    impl.append(a)
    model = dtres.drive(lines)
    ctx.count('_date_time_resolution(date)', len(lines))
    for l, a, m in zip(lines, impl, model):
        if a != m:
            dtres.report(ctx, 'correspondence', 'date_time_resolution', '%s: implementation %s, model %s' % (l.replace('\t', ' '), a, m),
                       failing_input={'op': l, 'implementation': a, 'model': m})
    ctx.sample({'op': lines[5], 'implementation': impl[5]})


# ---------------------------------------------------------------- pipeline

def boundary_dates(r, n_sample):
    ds = set()
    for y in (1900, 1904, 1950, 1999, 2000, 2016, 2019, 2020, 2038, 2096, 2099):
        for m in range(1, 13):
            first = datetime.date(y, m, 1)
            nxt = datetime.date(y + (m == 12), m % 12 + 1, 1)
            ds.add(first)
            ds.add(nxt - datetime.timedelta(days=1))
    for y in range(1904, 2100, 4):
        if y % 100 != 0 or y % 400 == 0:
            if y % 20 == 0:
                ds.add(datetime.date(y, 2, 29))
    for m in range(1, 13):           # day <= 12 swaps
        for d in range(1, 13):
            if m != d and (m + d) % 3 == 0:
                ds.add(datetime.date(2019 + (m * d) % 5, m, d))
    lo, hi = datetime.date(1900, 1, 1).toordinal(), datetime.date(2099, 12, 31).toordinal()
    for _ in range(n_sample):
        ds.add(datetime.date.fromordinal(r.randint(lo, hi)))
    return sorted(ds)


def build_cases(ctx, contract):
    r = ctx.rng('pipeline')
    cases = []   # (culture, family, template, query, ref, expr, iso)

    def add(culture, row, d, k):
        expr = render(contract, culture, row['template'], d.year, d.month, d.day)
        if expr is None:
            return
        carriers = CARRIERS[culture]
        ref = REFS[k % len(REFS)]
        q = carriers[(k // len(REFS)) % len(carriers)] % expr
        cases.append((culture, row['family'], row['template'], q, ref, expr, d.isoformat()))

    en = contract['layouts']['en-us']
    others = [c for c in contract['layouts'] if c != 'en-us']
    if ctx.thorough:
        k = 0
        for d in all_dates():                       # every date once, layout rotating with the year
            add('en-us', en[(d.toordinal() + d.year) % len(en)], d, k)
            k += 1
        for d in all_dates():                       # every layout on every day of 2000 / 2019, month ends, leap days
            if d.year in (2000, 2019) or is_month_end(d) or (d.month, d.day) == (2, 29):
                for row in en:
                    k += 1
                    if d.year in (2000, 2019) or (k + d.year) % 3 == 0:
                        add('en-us', row, d, k)
        for culture in others:
            for d in all_dates():
                if d.year == 2000 or (is_month_end(d) and d.year % 7 == 0) or (d.month <= 12 and d.day <= 12 and d.year == 2019):
                    for row in contract['layouts'][culture]:
                        k += 1
                        add(culture, row, d, k)
    else:
        k = 0
        core = [datetime.date(2000, 2, 29), datetime.date(2020, 2, 29), datetime.date(1900, 2, 28), datetime.date(1900, 1, 1),
                datetime.date(2099, 12, 31), datetime.date(2019, 3, 5), datetime.date(2019, 5, 3), datetime.date(2021, 1, 12),
                datetime.date(2021, 12, 1), datetime.date(2019, 10, 11), datetime.date(2019, 11, 10)]
        core += [datetime.date(2019 + (m == 12), m % 12 + 1, 1) - datetime.timedelta(days=1) for m in range(1, 13)]
        for d in core:                                   # every English layout on the core set
            for row in en:
                k += 1
                add('en-us', row, d, k)
        for i, d in enumerate(boundary_dates(r, 60)):    # 3 rotating layouts on the wide set
            for j in range(3):
                k += 1
                add('en-us', en[(i * 3 + j) % len(en)], d, k)
        for ci, culture in enumerate(others):
            rows = contract['layouts'][culture]
            for d in core[ci % 3::3]:                    # every layout on a third of the core set
                for row in rows:
                    k += 1
                    add(culture, row, d, k)
            wide = boundary_dates(r, 10)
            for i, d in enumerate(wide[ci::8]):          # one rotating layout on a slice of the wide set
                k += 1
                add(culture, rows[i % len(rows)], d, k)
    return cases


def judge(case, res):
    culture, family, template, q, ref, expr, iso = case
    if isinstance(res, str):
        return res
    if len(res) != 1:
        return 'expected one entity, got %d: %r' % (len(res), [(e[2], e[3]) for e in res])
    start, end, text, type_name, vstr, resolution = res[0]
    if type_name != 'datetimeV2.date':
        return 'entity %r has type %s, expected datetimeV2.date' % (text, type_name)
    lo = q.lower().find(expr.lower())
    if not (start <= lo and end >= lo + len(expr) - 1):
        return 'entity [%d,%d] %r does not cover the expression %r' % (start, end, text, expr)
    if resolution is None:
        return 'entity %r has no resolution' % text
    got = [(v.get('timex'), v.get('type'), v.get('value')) for v in resolution['values']]
    if got != [(iso, 'date', iso)]:
        return 'values %r, expected [(%r, "date", %r)]' % (got, iso, iso)
    return None


def pipeline(ctx, contract):
    cases = build_cases(ctx, contract)
    ctx.extra['pipeline_cases'] = len(cases)
    results = dtres.run_queries([(c[0], c[3], c[4]) for c in cases])
    fam, fails = {}, {}
    pending = []
    for case, res in zip(cases, results):
        culture, family, template, q, ref, expr, iso = case
        key = 'pipeline:%s:%s' % (culture, family)
        fam[key] = fam.get(key, 0) + 1
        bad = judge(case, res)
        if bad is None:
            ctx.nontriv(('pipe', culture, q))
            continue
        sig = 'abs-date-%s-%s' % (culture, template)
        fails[sig] = fails.get(sig, 0) + 1
        if fails[sig] <= 10:
            pending.append((sig, 'parse[%s](%r, ref %s): %s' % (culture, q, ref, bad),
                            {'op': 'recognize_datetime', 'culture': culture, 'query': q, 'reference': list(ref),
                             'layout': template, 'expected': iso, 'observed': bad}))
    for sig, detail, fi in pending:
        dtres.report(ctx, 'property', sig, detail, failing_input=fi, property_fails=True)
    for k, v in sorted(fam.items()):
        ctx.count(k, v)
    if fails:
        ctx.extra['pipeline_failures'] = fails
    ctx.sample({'culture': cases[0][0], 'query': cases[0][3], 'reference': list(cases[0][4]), 'expected': cases[0][6]})
    ctx.sample({'culture': cases[-1][0], 'query': cases[-1][3], 'reference': list(cases[-1][4]), 'expected': cases[-1][6]})
    # reference independence, directly: the same query under every reference
    ri = []
    for case in cases[:: max(1, len(cases) // (60 if ctx.thorough else 20))]:
        for ref in REFS:
            ri.append((case[0], case[3], ref, case))
    res = dtres.run_queries([(c, q, ref) for c, q, ref, _ in ri])
    ctx.count('pipeline:reference-independence', len(ri))
    groups = {}
    for (c, q, ref, case), rr in zip(ri, res):
        canon = rr if isinstance(rr, str) else [(e[0], e[1], e[3], e[4]) for e in rr]
        groups.setdefault((c, q), []).append((ref, canon, case))
    for (c, q), lst in groups.items():
        if any(x[1] != lst[0][1] for x in lst):
            dtres.report(ctx, 'property', 'reference-dependent-%s' % c,
                       'parse[%s](%r) differs between references %s' % (c, q, [x[0] for x in lst if x[1] != lst[0][1]][:2]),
                       failing_input={'op': 'recognize_datetime', 'culture': c, 'query': q, 'references': [list(x[0]) for x in lst],
                                      'results': [str(x[1]) for x in lst][:3]}, property_fails=True)



def shared_text_histories(ctx, contract):
    """The same numeric text asked of cultures with DIFFERENT day/month orders in ONE process ("the result does not
    depend on …": neither on the reference nor on what the process recognised before): `a/b/y` with a, b <= 12, a != b is
    month a in en-us and month b in the day-first cultures, whichever culture saw it first. Two sequences, each in a
    fresh single process: month-first culture first, and day-first cultures first."""
    import multiprocessing
    order = contract['order']
    pairs = [(5, 12), (12, 5), (1, 2), (3, 11), (10, 4), (7, 8)] + ([(a, b) for a in range(1, 13) for b in range(1, 13) if a != b][::7] if ctx.thorough else [])
    years = [2010, 1999, 2024]
    cultures = [c for c in contract['layouts'] if order.get(c) in ('mdy', 'dmy')]
    mdy = [c for c in cultures if order[c] == 'mdy']
    dmy = [c for c in cultures if order[c] == 'dmy']
    ref = REFS[0]
    for tag, seq_cultures in (('month-first culture first', mdy + dmy), ('day-first cultures first', dmy + mdy)):
        cases = []
        for k, (a, b) in enumerate(pairs):
            y = years[k % len(years)]
            for sep in ('/', '-'):
                text = '%d%s%d%s%d' % (a, sep, b, sep, y)
                for c in seq_cultures:
                    iso = '%04d-%02d-%02d' % ((y, a, b) if order[c] == 'mdy' else (y, b, a))
                    cases.append((c, 'numeric-shared', 'shared-text', text, ref, text, iso))
        mpctx = multiprocessing.get_context('fork')
        with mpctx.Pool(1, initializer=dtres._worker_init) as pool:            # ONE process: the history is the point
            results = pool.map(dtres._worker_run, [[(c[0], c[3], c[4]) for c in cases]], chunksize=1)[0]
        if isinstance(results, tuple):       # dtres._worker_run returns (results, swallowed-exception notes)
            results = results[0]
        ctx.count('pipeline:shared-text-history (%s)' % tag, len(cases))
        seen = set()
        for case, res in zip(cases, results):
            bad = judge(case, res)
            if bad is None:
                ctx.nontriv(('shared', tag, case[0], case[3]))
                continue
            sig = 'shared-text-history-%s' % case[0]
            if sig in seen:
                continue
            seen.add(sig)
            dtres.report(ctx, 'property', sig,
                         'parse[%s](%r) asked in one process after the other cultures (%s): %s' % (case[0], case[3], tag, bad),
                         failing_input={'op': 'recognize_datetime sequence in one process', 'order': tag,
                                        'sequence': [(c[0], c[3]) for c in cases[:cases.index(case) + 1]][-12:],
                                        'culture': case[0], 'query': case[3], 'reference': list(ref), 'expected': case[6],
                                        'observed': bad}, property_fails=True)


def replay_witnesses(ctx, T):
    """The negative theorems' witnesses on the implementation (two_digit_year_witness, invalid_date_not_resolved)."""
    ref = datetime.datetime(*REFS[2])
    m = T.model('en-us')
    obs = {}
    for q in ('3/5/30', '3/5/29', '3/5/40', '3/5/39', 'feb 30 2019', '2/29/2019', 'april 31st, 2020'):
        rs = m.parse(q, ref)
        obs[q] = [(r.type_name, [(v.get('timex'), v.get('value')) for v in (r.resolution or {}).get('values', [])]) for r in rs]
    ctx.extra['witness_replay'] = obs
    want = {'3/5/30': [('datetimeV2.date', [('0030-03-05', '0030-03-05')])],
            '3/5/29': [('datetimeV2.date', [('2029-03-05', '2029-03-05')])],
            '3/5/40': [('datetimeV2.date', [('1940-03-05', '1940-03-05')])],
            'feb 30 2019': [('datetimeV2.date', [('2019-02-30', 'not resolved')])],
            '2/29/2019': [('datetimeV2.date', [('2019-02-29', 'not resolved')])]}
    for q, w in want.items():
        if obs[q] != w:
            # the model (and its theorems) say `w`; a different observable behaviour is a model/implementation disagreement
            dtres.report(ctx, 'correspondence', 'witness-' + q.replace(' ', '_'),
                       'parse(%r): implementation %r, model theorems predict %r' % (q, obs[q], w),
                       failing_input={'op': 'recognize_datetime', 'culture': 'en-us', 'query': q, 'implementation': str(obs[q]),
                                      'model': str(w)},
                       property_fails=(q in ('3/5/29', '3/5/40') or any(v and v[0] and v[0][1] not in ('not resolved',)
                                                                         for _, v in obs[q] if q.startswith(('feb', '2/29')))))


# ---------------------------------------------------------------- word contract

def word_queries(contract, culture, kind, word, n):
    """Date expressions of the culture's own month-name layouts (contracts/C06.json) with the contract WORD standing for
    month / day `n`, and the date they denote: what the property demands if the word means what the contract says."""
    y = 2019
    out = []
    if culture == 'zh-cn':
        if kind == 'month':
            out.append(('%d年%s5日' % (y, word), (y, n, 5)))
        else:
            out.append(('%d年3月%s' % (y, word) + ('' if word[-1] in '日号' else '日'), (y, 3, n)))
        return out
    for row in contract['layouts'][culture]:
        t = row['template']
        if '{mon}' not in t and '{abbr}' not in t:
            continue
        if kind == 'month':
            e = render(contract, culture, t.replace('{mon}', '@@').replace('{abbr}', '@@'), y, n, 5)
            if e:
                out.append((e.replace('@@', word), (y, n, 5)))
        else:
            for ph in ('{dord}', '{d1er}', '{d}.', '{d}e', '{d}'):
                if ph in t:
                    e = render(contract, culture, t.replace(ph, '@@', 1), y, 3, n)
                    if e:
                        out.append((e.replace('@@', word), (y, 3, n)))
                    break
    return out


def word_contract(ctx, T, contract):
    """Every word of the committed contract contracts/C06words.json against the tree's month_of_year / day_of_month
    (Chinese: after the reduction of get_month_of_year / get_day_of_month, called on the real parser). Signature
    `month-word-<culture>-<word>` / `day-word-<culture>-<word>`; for a violated word the culture's month-name layouts
    with that word are asked of the pipeline, and the report is `property_fails` when one of them gives another date."""
    with open(WORDS, encoding='utf-8') as f:
        words = json.load(f)
    bad = []          # (culture, kind, word, want, got)
    unpinned = {}
    n_checked = 0
    for culture in dtres.TAGS:
        dp = T.date_parser(culture)
        zh = type(dp).__name__ != 'BaseDateParser'
        for kind, table, getter in (('month', dp.config.month_of_year, getattr(dp, 'get_month_of_year', None)),
                                    ('day', dp.config.day_of_month, getattr(dp, 'get_day_of_month', None))):
            def meaning(w):
                if w not in table:
                    return None
                return getter(w) if zh and getter is not None else table[w]
            req = words[kind + '_required'].get(culture, {})
            pin = words[kind + '_pinned'].get(culture, {})
            for w, n in req.items():
                n_checked += 1
                if meaning(w) != n:
                    bad.append((culture, kind, w, n, meaning(w)))
                else:
                    ctx.nontriv(('word', culture, kind, w))
            for w, n in pin.items():
                n_checked += 1
                if w in req:
                    continue
                got = meaning(w)
                if got is not None and got != n:
                    bad.append((culture, kind, w, n, got))
                elif got is not None:
                    ctx.nontriv(('word', culture, kind, w))
            rest = [k for k in table if k not in req and k not in pin and not k[:1].isdigit()]
            if rest:
                unpinned['%s:%s' % (culture, kind)] = rest
    ctx.count('word-contract', n_checked)
    ctx.extra['word_contract'] = {'words_checked': n_checked, 'violations': len(bad),
                                  'tree_word_keys_not_in_contract': unpinned}
    if not bad:
        return
    probes = []
    for (culture, kind, w, n, got) in bad:
        for q, (y, m, d) in word_queries(contract, culture, kind, w, n):
            try:
                datetime.date(y, m, d)
            except ValueError:
                continue
            probes.append(((culture, kind, w, n, got), q, '%04d-%02d-%02d' % (y, m, d)))
    res = dtres.run_queries([(b[0], q, REFS[2]) for b, q, _ in probes]) if probes else []
    failing = {}
    for (b, q, iso), rr in zip(probes, res):
        verdict = judge((b[0], 'word', 'word', q, REFS[2], q, iso), rr)
        if not verdict or b in failing:
            continue
        # "recognition gives the wrong date": a date entity with a full date other than the expected one. An expression that
        # is merely not recognised counts only where the property demands it: a REQUIRED word in a layout of contracts/C06.json
        wrong = [] if isinstance(rr, str) else [v.get('timex') for e in rr if e[5] for v in e[5]['values']
                                                 if v.get('type') == 'date' and re.fullmatch(r'\d{4}-\d\d-\d\d', v.get('timex') or '')
                                                 and v.get('timex') != iso]
        demanded = b[0] != 'zh-cn' and b[2] in words[b[1] + '_required'].get(b[0], {})
        if wrong or demanded:
            failing[b] = (q, iso, verdict)
    for b in bad:
        culture, kind, w, n, got = b
        sig = '%s-word-%s-%s' % (kind, culture, w)
        state = 'is not a key' if got is None else 'means %d' % got
        detail = 'contracts/C06words.json: %s word %r of %s means %d; in the tree\'s %s it %s' % (
            kind, w, culture, n, 'month_of_year' if kind == 'month' else 'day_of_month', state)
        if b in failing:
            q, iso, verdict = failing[b]
            dtres.report(ctx, 'property', sig, detail + '; parse[%s](%r): %s' % (culture, q, verdict),
                         failing_input={'op': 'recognize_datetime', 'culture': culture, 'query': q, 'reference': list(REFS[2]),
                                        'expected': iso, 'observed': verdict, 'word': w, 'contract': n, 'tree': got},
                         property_fails=True)
        else:
            dtres.report(ctx, 'property', sig, detail + ' (no date expression with this word was found that is recognised as another date)',
                         failing_input={'op': 'table', 'culture': culture, 'word': w, 'contract': n, 'tree': got})


def correspond(ctx):
    contract = load_contract()
    T = dtres.Tree()
    ctx.extra['fingerprints'] = dtres.fingerprints(T, ['date', 'merged'])
    ctx.extra['contract_layouts'] = {c: len(v) for c, v in contract['layouts'].items()}
    unit_format(ctx, T)
    unit_generate_dates(ctx, T)
    unit_match_to_date(ctx, T, contract)
    unit_match_to_date_zh(ctx, T, contract)
    unit_resolution(ctx, T)
    replay_witnesses(ctx, T)
    word_contract(ctx, T, contract)
    datefrontcorr.unit(ctx, T, contract, render); datefrontcorr.grid(ctx, T, contract, render, judge)
    datefrontcorr.unit_cultures(ctx, T, contract, render); datefrontcorr.grid_cultures(ctx, T, contract, render, judge)
    pipeline(ctx, contract)
    shared_text_histories(ctx, contract)


def search(ctx, proof_problems):
    """A table fact or pivot theorem no longer checks: look for an English expression on which the property itself fails,
    built from the table entries the facts talk about (numeric keys, ordinal-suffixed keys, month names)."""
    T = dtres.Tree()
    # front-end obligations (Props/C06Front: regenerated date regexes / layouts): the Lean front end over layout x date grid
    datefrontcorr.grid(ctx, T, load_contract(), render, judge, full=True)
    datefrontcorr.grid_cultures(ctx, T, load_contract(), render, judge, full=True)
    dp = T.date_parser('en-us')
    moy, dom = dp.config.month_of_year, dp.config.day_of_month
    names = ['january', 'february', 'march', 'april', 'may', 'june', 'july', 'august', 'september', 'october', 'november',
             'december']
    cases = []
    for i, n in enumerate(names):
        for key, m in ((n, i + 1), (n[:3], i + 1)):
            cases.append(('%s 5, 2019' % key, '2019-%02d-05' % m))
        cases.append(('%d/5/2019' % (i + 1), '2019-%02d-05' % (i + 1)))
        cases.append(('%02d/05/2019' % (i + 1), '2019-%02d-05' % (i + 1)))
    for d in range(1, 32):
        cases.append(('march %d, 2019' % d, '2019-03-%02d' % d))
        cases.append(('march %s, 2019' % ordinal_en(d), '2019-03-%02d' % d))
        cases.append(('3/%d/2019' % d, '2019-03-%02d' % d))
    C = T.Constants
    for yy in list(range(C.MIN_TWO_DIGIT_YEAR_PAST_NUM, 100)):
        cases.append(('3/5/%02d' % yy, '19%02d-03-05' % yy))
    res = dtres.run_queries([('en-us', q, REFS[2]) for q, _ in cases])
    for (q, iso), rr in zip(cases, res):
        bad = judge(('en-us', 'search', 'search', q, REFS[2], q, iso), rr)
        if bad:
            dtres.report(ctx, 'property', 'table-' + q.replace(' ', '_'), 'parse(%r): %s' % (q, bad),
                       failing_input={'op': 'recognize_datetime', 'culture': 'en-us', 'query': q, 'reference': list(REFS[2]),
                                      'expected': iso, 'observed': bad}, property_fails=True)
