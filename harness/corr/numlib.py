"""Shared helpers of the C03 / C04 checks (number recognisers): per-process access to the working tree's number
models, multiprocessing pipeline calls, canonical forms."""
import multiprocessing
import os
from decimal import Decimal, InvalidOperation, DivisionByZero

from lib import common
from lib.common import cps

CULTURES = ['en-us', 'es-es', 'es-mx', 'fr-fr', 'pt-br', 'de-de', 'it-it', 'nl-nl', 'zh-cn', 'ja-jp']

_state = {}


def setup():
    """Import the working tree's recogniser once per process; returns the module namespace used by the checks."""
    if 'rn' in _state:
        return _state
    common.setup_repo_imports()
    import recognizers_text
    import recognizers_number
    from recognizers_number.number.number_recognizer import NumberRecognizer
    common.assert_tree_modules(recognizers_text, recognizers_number)
    _state['rn'] = recognizers_number
    _state['NumberRecognizer'] = NumberRecognizer
    _state['models'] = {}
    return _state


def models(code):
    st = setup()
    if code not in st['models']:
        rec = st['NumberRecognizer'](code)
        st['models'][code] = {'number': rec.get_number_model(code, False),
                              'ordinal': rec.get_ordinal_model(code, False),
                              'percentage': rec.get_percentage_model(code, False)}
    return st['models'][code]


def _recognize(job):
    kind, code, query = job
    st = setup()
    rn = st['rn']
    f = {'number': rn.recognize_number, 'percentage': rn.recognize_percentage, 'ordinal': rn.recognize_ordinal}[kind]
    try:
        res = f(query, code)
        return [(r.start, r.end, r.text, (r.resolution or {}).get('value'), r.type_name) for r in res]
    except Exception as e:  # the public entry points swallow parser exceptions themselves; anything else is reported
        return 'raise:%s' % type(e).__name__


def run_pipeline(jobs, procs=None):
    """jobs: list of (kind, culture, query) -> list of result lists, same order."""
    if not jobs:
        return []
    procs = procs or min(16, os.cpu_count() or 4)
    if len(jobs) < 400 or procs == 1:
        return [_recognize(j) for j in jobs]
    ctx = multiprocessing.get_context('fork')
    with ctx.Pool(procs) as pool:
        return pool.map(_recognize, jobs, chunksize=max(50, len(jobs) // (procs * 8)))


def err_kind(e):
    if isinstance(e, IndexError):
        return 'err:IndexError'
    if isinstance(e, (DivisionByZero, InvalidOperation, ZeroDivisionError, ValueError)):
        return 'err:Arith'
    if isinstance(e, KeyError):
        return 'err:KeyError'
    return 'err:Other:' + type(e).__name__


def canon_model_err(s):
    return 'err:Arith' if s in ('err:ZeroDivisionError', 'err:ValueError') else s


def dec_triple(d):
    t = d.as_tuple()
    coeff = int(''.join(map(str, t.digits))) if t.digits else 0
    return '%d %d %d' % (t.sign, coeff, t.exponent)


def dec_from(sign, coeff, exp):
    return Decimal((sign, tuple(int(c) for c in str(coeff)), exp))
