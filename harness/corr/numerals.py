"""Numeral generators of the C04 oracle for the cultures other than English (English comes from the Lean function
`RTV.Num.pieces`, printed by the driver).  Each generator returns the standard written-out cardinal of `n` in that
culture, or None when `n` is outside the range the generator is trusted for.  Only forms that are standard in the
culture are produced (no optional spellings)."""


def es(n):
    if n >= 1000000:
        return None
    small = ['cero', 'uno', 'dos', 'tres', 'cuatro', 'cinco', 'seis', 'siete', 'ocho', 'nueve', 'diez', 'once', 'doce',
             'trece', 'catorce', 'quince', 'dieciséis', 'diecisiete', 'dieciocho', 'diecinueve', 'veinte', 'veintiuno',
             'veintidós', 'veintitrés', 'veinticuatro', 'veinticinco', 'veintiséis', 'veintisiete', 'veintiocho',
             'veintinueve']
    tens = [None, None, None, 'treinta', 'cuarenta', 'cincuenta', 'sesenta', 'setenta', 'ochenta', 'noventa']
    hund = [None, 'ciento', 'doscientos', 'trescientos', 'cuatrocientos', 'quinientos', 'seiscientos', 'setecientos',
            'ochocientos', 'novecientos']

    def sub100(k):
        if k < 30:
            return small[k]
        return tens[k // 10] + ('' if k % 10 == 0 else ' y ' + small[k % 10])

    def sub1000(k):
        if k < 100:
            return sub100(k)
        if k == 100:
            return 'cien'
        return hund[k // 100] + ('' if k % 100 == 0 else ' ' + sub100(k % 100))
    if n < 1000:
        return sub1000(n)
    hi, lo = divmod(n, 1000)
    if hi % 10 == 1 and hi != 1 and hi % 100 != 11:
        return None          # apocope "veintiún mil", "treinta y un mil": left out
    head = 'mil' if hi == 1 else sub1000(hi) + ' mil'
    return head + ('' if lo == 0 else ' ' + sub1000(lo))


def fr(n):
    if n >= 1000000:
        return None
    small = ['zéro', 'un', 'deux', 'trois', 'quatre', 'cinq', 'six', 'sept', 'huit', 'neuf', 'dix', 'onze', 'douze',
             'treize', 'quatorze', 'quinze', 'seize', 'dix-sept', 'dix-huit', 'dix-neuf']
    tens = [None, None, 'vingt', 'trente', 'quarante', 'cinquante', 'soixante']

    def sub100(k, final=True):
        if k < 20:
            return small[k]
        if k < 70:
            t, u = divmod(k, 10)
            if u == 0:
                return tens[t]
            if u == 1:
                return tens[t] + ' et un'
            return tens[t] + '-' + small[u]
        if k < 80:
            return 'soixante et onze' if k == 71 else 'soixante-' + small[k - 60]
        if k == 80:
            return 'quatre-vingts' if final else 'quatre-vingt'
        return 'quatre-vingt-' + small[k - 80]

    def sub1000(k, final=True):
        if k < 100:
            return sub100(k, final)
        h, r = divmod(k, 100)
        head = 'cent' if h == 1 else small[h] + ' cent'
        if r == 0:
            return head + ('s' if h > 1 and final else '')
        return head + ' ' + sub100(r, final)
    if n < 1000:
        return sub1000(n)
    hi, lo = divmod(n, 1000)
    head = 'mille' if hi == 1 else sub1000(hi, False) + ' mille'
    return head + ('' if lo == 0 else ' ' + sub1000(lo))


def pt(n):
    if n >= 1000000:
        return None
    small = ['zero', 'um', 'dois', 'três', 'quatro', 'cinco', 'seis', 'sete', 'oito', 'nove', 'dez', 'onze', 'doze',
             'treze', 'catorze', 'quinze', 'dezesseis', 'dezessete', 'dezoito', 'dezenove']
    tens = [None, None, 'vinte', 'trinta', 'quarenta', 'cinquenta', 'sessenta', 'setenta', 'oitenta', 'noventa']
    hund = [None, 'cento', 'duzentos', 'trezentos', 'quatrocentos', 'quinhentos', 'seiscentos', 'setecentos',
            'oitocentos', 'novecentos']

    def sub100(k):
        if k < 20:
            return small[k]
        return tens[k // 10] + ('' if k % 10 == 0 else ' e ' + small[k % 10])

    def sub1000(k):
        if k < 100:
            return sub100(k)
        if k == 100:
            return 'cem'
        return hund[k // 100] + ('' if k % 100 == 0 else ' e ' + sub100(k % 100))
    if n < 1000:
        return sub1000(n)
    hi, lo = divmod(n, 1000)
    head = 'mil' if hi == 1 else sub1000(hi) + ' mil'
    if lo == 0:
        return head
    # "e" between thousands and a remainder below 100 or a round hundred
    link = ' e ' if (lo < 100 or lo % 100 == 0) else ' '
    return head + link + sub1000(lo)


def de(n):
    if n >= 1000000:
        return None
    small = ['null', 'eins', 'zwei', 'drei', 'vier', 'fünf', 'sechs', 'sieben', 'acht', 'neun', 'zehn', 'elf', 'zwölf',
             'dreizehn', 'vierzehn', 'fünfzehn', 'sechzehn', 'siebzehn', 'achtzehn', 'neunzehn']
    tens = [None, None, 'zwanzig', 'dreißig', 'vierzig', 'fünfzig', 'sechzig', 'siebzig', 'achtzig', 'neunzig']

    def sub100(k, final=True):
        if k == 1:
            return 'eins' if final else 'ein'
        if k < 20:
            return small[k]
        t, u = divmod(k, 10)
        if u == 0:
            return tens[t]
        return ('ein' if u == 1 else small[u]) + 'und' + tens[t]

    def sub1000(k, final=True):
        if k < 100:
            return sub100(k, final)
        h, r = divmod(k, 100)
        return sub100(h, False) + 'hundert' + ('' if r == 0 else sub100(r, final))
    if n < 1000:
        return sub1000(n)
    hi, lo = divmod(n, 1000)
    return sub1000(hi, False) + 'tausend' + ('' if lo == 0 else sub1000(lo))


def it(n):
    if n >= 1000000:
        return None
    small = ['zero', 'uno', 'due', 'tre', 'quattro', 'cinque', 'sei', 'sette', 'otto', 'nove', 'dieci', 'undici',
             'dodici', 'tredici', 'quattordici', 'quindici', 'sedici', 'diciassette', 'diciotto', 'diciannove']
    tens = [None, None, 'venti', 'trenta', 'quaranta', 'cinquanta', 'sessanta', 'settanta', 'ottanta', 'novanta']

    def sub100(k):
        if k < 20:
            return small[k]
        t, u = divmod(k, 10)
        if u == 0:
            return tens[t]
        stem = tens[t][:-1] if u in (1, 8) else tens[t]
        return stem + ('tré' if u == 3 else small[u])

    def sub1000(k):
        if k < 100:
            return sub100(k)
        h, r = divmod(k, 100)
        head = 'cento' if h == 1 else small[h] + 'cento'
        return head + ('' if r == 0 else sub100(r))
    if n < 1000:
        return sub1000(n)
    hi, lo = divmod(n, 1000)
    head = 'mille' if hi == 1 else sub1000(hi) + 'mila'
    return head + ('' if lo == 0 else sub1000(lo))


def nl(n):
    if n >= 1000000:
        return None
    small = ['nul', 'een', 'twee', 'drie', 'vier', 'vijf', 'zes', 'zeven', 'acht', 'negen', 'tien', 'elf', 'twaalf',
             'dertien', 'veertien', 'vijftien', 'zestien', 'zeventien', 'achttien', 'negentien']
    tens = [None, None, 'twintig', 'dertig', 'veertig', 'vijftig', 'zestig', 'zeventig', 'tachtig', 'negentig']

    def sub100(k):
        if k < 20:
            return small[k]
        t, u = divmod(k, 10)
        if u == 0:
            return tens[t]
        return small[u] + ('ën' if u in (2, 3) else 'en') + tens[t]

    def sub1000(k):
        if k < 100:
            return sub100(k)
        h, r = divmod(k, 100)
        head = 'honderd' if h == 1 else small[h] + 'honderd'
        return head + ('' if r == 0 else sub100(r))
    if n < 1000:
        return sub1000(n)
    hi, lo = divmod(n, 1000)
    head = 'duizend' if hi == 1 else sub1000(hi) + 'duizend'
    return head + ('' if lo == 0 else ' ' + sub1000(lo))


_ZH = '零一二三四五六七八九'


def _zh_section(k, digits=_ZH):
    """0 < k < 10000, standard Mandarin with 零 for skipped positions inside the section"""
    out = ''
    units = ['', '十', '百', '千']
    s = str(k)
    zero_pending = False
    for i, ch in enumerate(s):
        d = int(ch)
        pos = len(s) - 1 - i
        if d == 0:
            zero_pending = True
            continue
        if zero_pending and out:
            out += '零'
        zero_pending = False
        out += digits[d] + units[pos]
    return out


def zh(n):
    if n >= 10 ** 12:
        return None
    if n == 0:
        return '零'
    parts = []
    yi, rest = divmod(n, 10 ** 8)
    wan, ge = divmod(rest, 10 ** 4)
    out = ''
    if yi:
        out += _zh_section(yi) + '亿'
    if wan:
        if out and wan < 1000:
            out += '零'
        out += _zh_section(wan) + '万'
    elif out and ge:
        pass
    if ge:
        if out and (ge < 1000 or (wan == 0)):
            out += '零'
        out += _zh_section(ge)
    if 10 <= n < 20:
        out = out[1:]          # 十, 十一 … (leading 一 dropped)
    return out


def ja(n):
    if n >= 10 ** 12:
        return None
    if n == 0:
        return '零'
    dig = '〇一二三四五六七八九'

    def section(k):
        out = ''
        for unit, w in ((1000, '千'), (100, '百'), (10, '十')):
            d, k = divmod(k, unit)
            if d:
                out += ('' if d == 1 else dig[d]) + w
        if k:
            out += dig[k]
        return out
    oku, rest = divmod(n, 10 ** 8)
    man, ge = divmod(rest, 10 ** 4)
    out = ''
    if oku:
        out += (section(oku) if oku != 1 else '一') + '億'
    if man:
        out += (section(man) if man != 1 else '一') + '万'
    if ge:
        out += section(ge)
    return out


GENERATORS = {'es-es': es, 'fr-fr': fr, 'pt-br': pt, 'de-de': de, 'it-it': it, 'nl-nl': nl, 'zh-cn': zh, 'ja-jp': ja}


# ---------------------------------------------------------------------------------------------------------------
# Above 1000: each culture's scale words with the standard agreement / apocope rules, boundary-first:
# every scale word x multiplier {1, 2, 21, 100, 101, 121} x remainder {0, 1, 21}.

MULTS = [1, 2, 21, 100, 101, 121]
REMS = [0, 1, 21]


def _es_mult(k):
    """multiplier in front of mil / millones / billones: apocope uno -> un, veintiuno -> veintiún"""
    t = es(k)
    if t.endswith('veintiuno'):
        return t[:-len('veintiuno')] + 'veintiún'
    if t.endswith('uno'):
        return t[:-1]
    return t


def es_big():
    out = []
    for word_s, word_p, val in (('mil', 'mil', 10 ** 3), ('millón', 'millones', 10 ** 6), ('billón', 'billones', 10 ** 12)):
        for k in MULTS:
            for r in REMS:
                if k == 1:
                    head = 'mil' if val == 1000 else 'un ' + word_s
                else:
                    head = _es_mult(k) + ' ' + word_p
                out.append((k * val + r, head + ('' if r == 0 else ' ' + es(r))))
    out.append((10 ** 9, 'mil millones'))
    out.append((2 * 10 ** 9 + 21, 'dos mil millones veintiuno'))
    return out


def fr_big():
    out = []
    for word_s, word_p, val in (('mille', 'mille', 10 ** 3), ('million', 'millions', 10 ** 6), ('milliard', 'milliards', 10 ** 9)):
        for k in MULTS:
            for r in REMS:
                if k == 1:
                    head = 'mille' if val == 1000 else 'un ' + word_s
                else:
                    head = fr(k) + ' ' + word_p
                out.append((k * val + r, head + ('' if r == 0 else ' ' + fr(r))))
    return out


def pt_big():
    out = []
    for word_s, word_p, val in (('mil', 'mil', 10 ** 3), ('milhão', 'milhões', 10 ** 6)):
        for k in MULTS:
            for r in REMS:
                if k == 1:
                    head = 'mil' if val == 1000 else 'um ' + word_s
                else:
                    head = pt(k) + ' ' + word_p
                out.append((k * val + r, head + ('' if r == 0 else ' e ' + pt(r))))
    return out


def de_big():
    out = []
    for k in MULTS:
        for r in REMS:
            out.append((k * 1000 + r, de(k * 1000 + r)))
    for word_s, word_p, val in (('million', 'millionen', 10 ** 6), ('milliarde', 'milliarden', 10 ** 9)):
        for k in (1, 2, 21, 100, 121):          # 101: "hunderteine Million" has competing spellings, left out
            for r in REMS:
                if k == 1:
                    head = 'eine ' + word_s
                else:
                    head = de(k) + ' ' + word_p
                out.append((k * val + r, head + ('' if r == 0 else ' ' + de(r))))
    return out


def it_big():
    out = []
    for k in MULTS:
        for r in REMS:
            out.append((k * 1000 + r, it(k * 1000 + r)))
    for word_s, word_p, val in (('milione', 'milioni', 10 ** 6), ('miliardo', 'miliardi', 10 ** 9)):
        for k in MULTS:
            head = 'un ' + word_s if k == 1 else it(k) + ' ' + word_p
            out.append((k * val, head))             # remainders after milioni have competing spellings, left out
    return out


def nl_big():
    out = []
    for k in MULTS:
        for r in REMS:
            out.append((k * 1000 + r, nl(k * 1000 + r)))
    for word, val in (('miljoen', 10 ** 6), ('miljard', 10 ** 9), ('biljoen', 10 ** 12)):
        for k in MULTS:
            for r in REMS:
                out.append((k * val + r, nl(k) + ' ' + word + ('' if r == 0 else ' ' + nl(r))))
    return out


BIG = {'es-es': es_big, 'fr-fr': fr_big, 'pt-br': pt_big, 'de-de': de_big, 'it-it': it_big, 'nl-nl': nl_big}

# ---------------------------------------------------------------------------------------------------------------
# Ordinals: units, tens, hundreds, each scale word, a few compounds — only forms that are standard.

ORDINALS = {
    'es-es': [(1, 'primero'), (2, 'segundo'), (3, 'tercero'), (4, 'cuarto'), (5, 'quinto'), (6, 'sexto'), (7, 'séptimo'),
              (8, 'octavo'), (9, 'noveno'), (10, 'décimo'), (11, 'undécimo'), (12, 'duodécimo'), (20, 'vigésimo'),
              (21, 'vigésimo primero'), (30, 'trigésimo'), (40, 'cuadragésimo'), (50, 'quincuagésimo'),
              (60, 'sexagésimo'), (70, 'septuagésimo'), (80, 'octogésimo'), (90, 'nonagésimo'), (100, 'centésimo'),
              (200, 'ducentésimo'), (300, 'tricentésimo'), (500, 'quingentésimo'), (1000, 'milésimo'),
              (10 ** 6, 'millonésimo')],
    'fr-fr': [(1, 'premier'), (2, 'deuxième'), (3, 'troisième'), (4, 'quatrième'), (5, 'cinquième'), (6, 'sixième'),
              (7, 'septième'), (8, 'huitième'), (9, 'neuvième'), (10, 'dixième'), (11, 'onzième'), (12, 'douzième'),
              (20, 'vingtième'), (21, 'vingt et unième'), (30, 'trentième'), (40, 'quarantième'), (50, 'cinquantième'),
              (60, 'soixantième'), (100, 'centième'), (200, 'deux centième'), (1000, 'millième'),
              (2000, 'deux millième'), (10 ** 6, 'millionième'), (2 * 10 ** 6, 'deux millionième'),
              (10 ** 9, 'milliardième')],
    'pt-br': [(1, 'primeiro'), (2, 'segundo'), (3, 'terceiro'), (4, 'quarto'), (5, 'quinto'), (6, 'sexto'), (7, 'sétimo'),
              (8, 'oitavo'), (9, 'nono'), (10, 'décimo'), (20, 'vigésimo'), (21, 'vigésimo primeiro'), (30, 'trigésimo'),
              (40, 'quadragésimo'), (50, 'quinquagésimo'), (60, 'sexagésimo'), (70, 'septuagésimo'),
              (80, 'octogésimo'), (90, 'nonagésimo'), (100, 'centésimo'), (200, 'ducentésimo'), (1000, 'milésimo'),
              (10 ** 6, 'milionésimo')],
    'de-de': [(1, 'erste'), (2, 'zweite'), (3, 'dritte'), (4, 'vierte'), (5, 'fünfte'), (6, 'sechste'), (7, 'siebte'),
              (8, 'achte'), (9, 'neunte'), (10, 'zehnte'), (11, 'elfte'), (12, 'zwölfte'), (20, 'zwanzigste'),
              (21, 'einundzwanzigste'), (30, 'dreißigste'), (100, 'hundertste'), (200, 'zweihundertste'),
              (1000, 'tausendste'), (2000, 'zweitausendste'), (10 ** 6, 'millionste'), (2 * 10 ** 6, 'zweimillionste'),
              (10 ** 9, 'milliardste')],
    'it-it': [(1, 'primo'), (2, 'secondo'), (3, 'terzo'), (4, 'quarto'), (5, 'quinto'), (6, 'sesto'), (7, 'settimo'),
              (8, 'ottavo'), (9, 'nono'), (10, 'decimo'), (11, 'undicesimo'), (12, 'dodicesimo'), (20, 'ventesimo'),
              (21, 'ventunesimo'), (30, 'trentesimo'), (100, 'centesimo'), (200, 'duecentesimo'), (1000, 'millesimo'),
              (2000, 'duemillesimo'), (10 ** 6, 'milionesimo'), (10 ** 9, 'miliardesimo')],
    'nl-nl': [(1, 'eerste'), (2, 'tweede'), (3, 'derde'), (4, 'vierde'), (5, 'vijfde'), (6, 'zesde'), (7, 'zevende'),
              (8, 'achtste'), (9, 'negende'), (10, 'tiende'), (11, 'elfde'), (12, 'twaalfde'), (20, 'twintigste'),
              (21, 'eenentwintigste'), (30, 'dertigste'), (100, 'honderdste'), (200, 'tweehonderdste'),
              (1000, 'duizendste'), (2000, 'tweeduizendste'), (10 ** 6, 'miljoenste'), (2 * 10 ** 6, 'twee miljoenste'),
              (2 * 10 ** 6, 'tweemiljoenste'), (10 ** 9, 'miljardste'), (2 * 10 ** 9, 'twee miljardste'),
              (3 * 10 ** 11, 'driehonderd miljardste'), (2 * 10 ** 9, 'tweemiljardste')],
}
