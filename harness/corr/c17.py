"""C17 — culture routing and model caching never serve the wrong model.

Tie between RTV.Model.Factory (Lean driver) and the working tree:
  unit      Culture.map_to_nearest_language vs `mapToNearest` (both candidate tests: language tags compared = the
            code as it is since the fix, and startswith = the code before it — the run decides which variant the
            tree follows; following the startswith variant is reported with the witnesses 'f', 'z-x', 'd'), ModelFactory.register_model vs
            `register`, constructor option validation vs `step (.construct …)`
  pipeline  one seeded request history per run against real recogniser objects (instrumented subclasses: every
            registered constructor tags the model it builds with (kind, type, culture, options, allocation serial));
            observed per operation: exception type or the returned object's tag and serial (object identity);
            compared with the model's prediction for the whole history from the empty cache, and with the
            property's own oracle (lib.factory.spec_answer), plus language behaviour on probe sentences."""
import datetime
import itertools

from lib import common, factory
from lib.common import cps

PROP = 'C17'
LEVEL = 'proof'
PROPS_MODULES = ['RTV.Props.C17']
GEN = ['factory', 'chartables']
REQUIRED_THEOREMS = ['map_supported_any_case', 'map_supported_any_case_ascii', 'map_unique_language',
                     'map_other_falls_back',
                     # regression section (candidate test before the fix: startswith)
                     'map_unique_language_startswith_gen', 'map_other_falls_back_startswith_partial',
                     'startswith_variant_false_f', 'startswith_variant_false_zx', 'startswith_variant_false_d',
                     'prefixIsTag_of_tag_or_none', 'no_model_falls_back', 'other_code_gets_english',
                     'gen_no_models_for_ko_tr_enstar', 'gen_types_owned_table', 'gen_english_registered_table',
                     'gen_regs_supported_table', 'gen_unique_tag', 'cache_key_separation', 'same_key_same_object',
                     'foreign_type_served_from_shared_cache', 'register_duplicate_rejected',
                     'options_out_of_range_rejected', 'gen_option_ranges', 'wrapper_cjk_routes_chinese',
                     'target_default_equiv', 'empty_culture_never_target', 'getter_case_insensitive',
                     'cjk_shortcut_ignores_target_culture']
RULE = ('unit: map_to_nearest_language on every supported code x every upper/lower pattern, every 1-3 letter a-z '
        'string, 1-2 letter prefixes with a region, regional variants, unknown languages, None/empty/whitespace, '
        'case-special code points (Kelvin sign, U+0130, full-width), seeded strings; register_model sequences; '
        'constructor options -3..70 per recogniser. pipeline: ONE history per run from the empty cache: reference '
        'models of all registered (kind, type, culture) straight from the factory; family (a) recogniser objects of all '
        'five kinds built with ~85 target cultures of every spelling class (supported code in 5 letter-case patterns, '
        'regional variants, several-culture languages, unknown, empty, None) x request culture None / empty / the '
        'target itself / fr-CA x every get_*_model getter x fallback on/off; family (b) every getter x every '
        'supported code x all 16 upper/lower patterns x fallback; then the seeded part '
        '(quick >= 600 ops, thorough >= 2500): constructions (valid/invalid options, lazy flag, target None / '
        'Culture object / equal copy), get_model, every get_*_model wrapper, factory-level get_model / try_get_model, '
        'initialize_models, over all model types of all five recognisers x culture strings x options x fallback '
        '(True/False/1/None), fresh and shared recogniser instances, foreign model types; date-time models with '
        'options != 0 limited to a few cultures for cost. non-trivial = distinct (operation kind, kind, type, '
        'culture string, options, fallback) that returned a model or raised')
ASSUMPTIONS = ['str.lower / str.isspace from the exported CPython tables; the context rule for U+03A3 (final sigma) '
               'is not modelled and not sent',
               'constructors registered by the recognisers do not raise and are deterministic functions of options '
               '(monitored: an exception other than ValueError is reported as a correspondence break)',
               'user calls of register_model on a live recogniser are outside the histories (register is unit-checked)',
               'object identity of the target-culture string (`is` in initialize_models) is an input of the model; '
               'the harness observes it on the real objects',
               'single-threaded histories here; interleavings are C02']

NUMBER_PROBES = {'en-us': 'twenty one', 'fr-fr': 'vingt et un', 'es-es': 'veintiuno', 'es-mx': 'veintiuno',
                 'pt-br': 'vinte e um', 'de-de': 'einundzwanzig', 'it-it': 'ventuno', 'nl-nl': 'eenentwintig',
                 'zh-cn': '二十一', 'ja-jp': '二十一'}
LANG_GROUP = {'en-us': 'en', 'fr-fr': 'fr', 'es-es': 'es', 'es-mx': 'es', 'pt-br': 'pt', 'de-de': 'de',
              'it-it': 'it', 'nl-nl': 'nl', 'zh-cn': 'cjk', 'ja-jp': 'cjk'}
DATE_PROBES = {'en-us': 'tomorrow', 'fr-fr': 'demain', 'es-es': 'pasado mañana', 'es-mx': 'pasado mañana',
               'pt-br': 'depois de amanhã', 'de-de': 'übermorgen', 'it-it': 'dopodomani', 'nl-nl': 'overmorgen',
               'zh-cn': '明天'}
DATE_GROUP = {'en-us': 'en', 'fr-fr': 'fr', 'es-es': 'es', 'es-mx': 'es', 'pt-br': 'pt', 'de-de': 'de',
              'it-it': 'it', 'nl-nl': 'nl', 'zh-cn': 'zh'}
REF = datetime.datetime(2019, 6, 12, 10, 30, 0)

REGIONAL = ['en-gb', 'en-au', 'en-in', 'EN-CA', 'fr-ca', 'fr-be', 'FR-ch', 'pt-pt', 'PT-PT', 'zh-tw', 'zh-hk', 'ZH-SG',
            'es-ar', 'es-co', 'es-us', 'de-at', 'de-ch', 'it-ch', 'nl-be', 'ja', 'ko', 'tr-cy', 'ja-x', 'fr', 'de',
            'pt', 'zh', 'nl', 'it', 'en', 'es', 'fr-fr-x', 'fr-', 'fr--fr']
UNKNOWN = ['xx-yy', 'ru-ru', 'ar-sa', 'hi-in', 'sv-se', 'q', 'zz', 'english', 'french', 'frx-ca', 'enx', 'eng-us',
           'fra-fr', 'deu-de', 'f', 'd', 'z-x', 'e', 'i', 'j', 'k', 'n', 'p', 't', 'z', 'fr_fr', 'en_us', 'fr.fr']
BLANK = [None, '', ' ', '  ', '\t', '-', '--', '-x', ' -fr', '*', 'en-*', 'EN-*', 'e*', '*-x', ' fr-ca', 'fr -ca',
         'fr- ca', 'fr\t-x', ' fr-ca', 'fr　-ca', ' en-us', 'en-us ', ' f', 'f ', '\nzh-tw']
SPECIAL = ['Ko-kr', 'KO-KR', 'İt-it', 'it-İt', 'ＥＮ-us', 'ｆr-ca', 'FR-ſr',
           'eſ-es', 'de-dÉ', 'ǅ-x', 'tr-Tİ', 'ßs-x', 'Fr-cÁ']


def case_patterns(code):
    idx = [i for i, ch in enumerate(code) if ch.isalpha()]
    for bits in itertools.product([0, 1], repeat=len(idx)):
        s = list(code)
        for b, i in zip(bits, idx):
            if b:
                s[i] = s[i].upper()
        yield ''.join(s)


def map_inputs(ctx, supported):
    out = []
    for code in supported:
        out += list(case_patterns(code))
    az = 'abcdefghijklmnopqrstuvwxyz'
    for n in (1, 2, 3):
        out += [''.join(p) for p in itertools.product(az, repeat=n)]
    for n in (1, 2):
        for p in itertools.product(az, repeat=n):
            out.append(''.join(p) + '-xx')
            out.append(''.join(p).upper() + '-Q')
    out += REGIONAL + UNKNOWN + BLANK + SPECIAL
    r = ctx.rng('map')
    pool = list('aefdrnszhtupkoijlcbmx') + list('EFDZ') + ['-', '-', ' ', '*', '\t', 'K', 'İ', 'Ｆ']
    for _ in range(60000 if ctx.thorough else 6000):
        out.append(''.join(r.choice(pool) for _ in range(r.randint(1, 7))))
    seen, res = set(), []
    for s in out:
        if s not in seen and (s is None or 'Σ' not in s):
            seen.add(s)
            res.append(s)
    return res


def routing_differs(st, a, b):
    """Do two resolved cultures lead to different answers for some own model type of some recogniser?
    (a culture without a model for the type is answered through the fallback, whatever its spelling)"""
    if a == b:
        return False
    for regs in st['regs']:
        for t in {t for t, _ in regs}:
            ra = a if (t, a) in regs else None
            rb = b if (t, b) in regs else None
            if ra != rb:
                return True
    return False


def unit_map(ctx, st):
    Culture = st['Culture']
    supported = st['supported']
    inputs = map_inputs(ctx, supported)
    impl = [Culture.map_to_nearest_language(s) for s in inputs]
    lines = ['fmap\t0\t' + factory.enc_opt(s) for s in inputs] + ['fmap\t1\t' + factory.enc_opt(s) for s in inputs]
    ans = common.driver(lines)
    cur, rep = ans[:len(inputs)], ans[len(inputs):]
    ctx.count('map_to_nearest_language', len(inputs))
    enc = [factory.enc_opt(x) for x in impl]
    mism_cur = [i for i in range(len(inputs)) if enc[i] != cur[i]]
    mism_rep = [i for i in range(len(inputs)) if enc[i] != rep[i]]
    repaired = len(mism_rep) < len(mism_cur)
    ctx.extra['map_variant_followed'] = 'language tag compared (the code since the fix)' if repaired else \
        'startswith (the code before the fix: REGRESSION)'
    ctx.extra['map_inputs_where_variants_differ'] = sum(1 for a, b in zip(cur, rep) if a != b)
    model = rep if repaired else cur
    for i in (mism_rep if repaired else mism_cur)[:50]:
        s = inputs[i]
        sp = factory.spec_culture(s, supported)
        bad = routing_differs(st, impl[i], sp)
        ctx.report('correspondence', 'map-to-nearest-language',
                   'map_to_nearest_language(%r): implementation %r, model %r; property reading %r' % (
                       s, impl[i], None if model[i] == 'none' else common.uncps(model[i]), sp),
                   failing_input={'op': 'Culture.map_to_nearest_language', 'culture': s, 'implementation': impl[i],
                                  'model': model[i], 'property_reading': sp}, property_fails=bad)
    # property oracle on the implementation's own answers
    wrong = []
    for s, r in zip(inputs, impl):
        sp = factory.spec_culture(s, supported)
        if s is not None and s != '':
            ctx.nontriv(('map', s))
        if routing_differs(st, r, sp):
            wrong.append((s, r, sp))
    ctx.extra['map_inputs_routed_against_property'] = len(wrong)
    return repaired, wrong


def unit_register(ctx, st):
    MF = st['ModelFactory']
    r = ctx.rng('register')
    lines, impl = [], []
    types = ['NumberModel', 'OrdinalModel', 'X', '']
    cultures = ['en-us', 'fr-fr', 'EN-US', '']
    for _ in range(400 if ctx.thorough else 120):
        f = MF()
        regs = []
        for _ in range(r.randint(1, 9)):
            t, c = r.choice(types), r.choice(cultures)
            try:
                f.register_model(t, c, lambda o: None)
                out = 'ok:%d' % len(f.model_factories)
            except ValueError:
                out = 'err:ValueError'
            lines.append('\t'.join(['freg', cps(t), cps(c)] + [x for p in regs for x in (cps(p[0]), cps(p[1]))]))
            impl.append(out)
            if (t, c) in regs:
                ctx.nontriv(('dup', t, c, len(regs)))
                if out != 'err:ValueError':
                    ctx.report('property', 'register-duplicate-accepted',
                               'register_model(%r, %r) twice on one factory did not raise' % (t, c),
                               failing_input={'op': 'register_model', 'type': t, 'culture': c, 'before': regs},
                               property_fails=True)
            else:
                regs.append((t, c))
            if [(k.model_type, k.culture) for k in f.model_factories] != regs:
                ctx.report('correspondence', 'register-table', 'model_factories keys %r, expected %r' % (
                    list(f.model_factories), regs), failing_input={'op': 'register_model', 'sequence': regs})
    model = common.driver(lines)
    ctx.count('register_model', len(lines))
    for l, a, b in zip(lines, impl, model):
        if a != b:
            ctx.report('correspondence', 'register-model', 'register_model: implementation %s, model %s' % (a, b),
                       failing_input={'op': l, 'implementation': a, 'model': b})


def unit_options(ctx, st, repaired):
    lines, impl, meta = [], [], []
    for kind, C in enumerate(st['real']):
        for o in range(-3, 71):
            try:
                C(options=o, lazy_initialization=False)
                out = 'ok'
            except ValueError:
                out = 'err:ValueError'
            except Exception as e:  # noqa
                out = 'err:Other(%s)' % type(e).__name__
            lines.append(factory.hist_line(repaired, [('C', (kind, None, o), False, False)]))
            impl.append(out)
            meta.append((kind, o))
            ctx.nontriv(('opt', kind, o))
    model = common.driver(lines)
    ctx.count('constructor_options', len(lines))
    for (kind, o), a, b in zip(meta, impl, model):
        if a != b:
            ctx.report('correspondence', 'constructor-options',
                       '%sRecognizer(options=%d): implementation %s, model %s' % (factory.KIND_NAMES[kind], o, a, b),
                       failing_input={'op': 'construct', 'recognizer': factory.KIND_NAMES[kind], 'options': o,
                                      'implementation': a, 'model': b})
    # property: each declared flag combination that is not a declared member range is rejected -- the property only
    # says "out of range is rejected", so the oracle is: values below the smallest / above the largest accepted
    # value raise ValueError (monotone interval), which is what the model states
    for kind in range(len(st['real'])):
        acc = [o for (k, o), a in zip(meta, impl) if k == kind and a == 'ok']
        if acc and acc != list(range(acc[0], acc[-1] + 1)):
            ctx.report('property', 'options-not-an-interval', '%s accepts %r' % (factory.KIND_NAMES[kind], acc),
                       failing_input={'recognizer': factory.KIND_NAMES[kind], 'accepted': acc}, property_fails=True)


# ---------------------------------------------------------------- pipeline: one long history

class Gen:
    def __init__(self, ctx, st):
        self.ctx, self.st = ctx, st
        self.r = ctx.rng('history')
        self.ops = []       # model ops
        self.obs = []       # observed outputs (driver syntax)
        self.raw = []       # raw observed objects / exceptions
        self.meta = []      # dicts for the oracle
        self.insts = []     # live (python object, (kind, target, options), identical)
        self.supported = st['supported']
        self.dt_extra = {2: ['en-us', 'fr-fr'], 3: ['zh-cn'], 4: ['es-es']} if not ctx.thorough else \
            {1: ['en-us', 'de-de', 'nl-nl'], 2: ['en-us', 'fr-fr', 'pt-br'], 3: ['zh-cn', 'it-it'], 4: ['es-es', 'es-mx']}
        self.strings = {}
        for c in self.supported:
            self.strings.setdefault(c, []).extend([c, c.upper(), c.title()])
        self.others = ['en-gb', 'fr-ca', 'pt-pt', 'zh-tw', 'es-ar', 'ja', 'f', 'd', 'z-x', 'xx-yy', '', ' ', 'en',
                       'es', 'de-at', 'nl-be', 'it-ch', 'ZH-HK', 'JA-x', 'ru-ru', '-', 'e', ' fr-ca', 'Ko-kr']

    # --- executing one operation on the real objects
    def do(self, op, fn, meta):
        try:
            x = fn()
        except Exception as e:  # noqa
            x = e
        self.ops.append(op)
        self.raw.append(x)
        self.obs.append(factory.show_out(x))
        self.meta.append(meta)
        return x

    def construct(self, kind, target, options, lazy, use_tagged=True):
        C = self.st['tagged'][kind]
        identical = target is not None and any(target is k for k in self.st['culture_objects'].values())
        desc = (kind, target, options)
        holder = {}

        def fn():
            holder['inst'] = C(target, options, lazy)
            return 'ok'
        x = self.do(('C', desc, bool(lazy), identical), fn, {'kind': 'construct'})
        if x == 'ok':
            self.insts.append((holder['inst'], desc, identical))
        return x

    def pick_culture_string(self, kind, options):
        r = self.r
        if kind == 2 and options != 0:
            base = r.choice(self.dt_extra[options])
            return r.choice([base, base.upper(), base])
        x = r.random()
        if x < 0.5:
            c = r.choice(self.supported)
            return r.choice(self.strings[c])
        if x < 0.9:
            return r.choice(self.others)
        return None

    def step(self):
        r, st = self.r, self.st
        x = r.random()
        if x < 0.12 or not self.insts:
            kind = r.choice([0, 0, 1, 2, 3, 3, 4])
            lo_hi = {2: (0, 4)}.get(kind, (0, 0))
            y = r.random()
            if y < 0.2:
                options = r.choice([-1, lo_hi[1] + 1, lo_hi[1] + 4, 8, 64])
            elif kind == 2:
                options = r.choice([0, 0, 0] + sorted(self.dt_extra))
            else:
                options = 0
            tsel = r.random()
            if tsel < 0.35:
                target = None
            elif tsel < 0.6:
                target = r.choice(sorted(st['culture_objects']))        # the Culture.X object itself
            elif tsel < 0.8:
                target = factory.copy_of(r.choice(self.supported))      # equal value, other object
            else:
                target = r.choice(self.others + ['FR-FR'])
            lazy = r.random() < 0.5
            if kind == 2 and options != 0:
                lazy = False
                target = r.choice(self.dt_extra.get(options, ['en-us'])) if options in self.dt_extra else target
            if kind == 2 and lazy and target is None and not self.ctx.thorough and r.random() < 0.5:
                lazy = False
            return self.construct(kind, target, options, lazy)
        inst, desc, identical = r.choice(self.insts[-12:] if r.random() < 0.7 else self.insts)
        kind, target, options = desc
        regs = st['regs'][kind]
        own_types = sorted({t for t, _ in regs})
        fb = r.choice([True, True, False, False, 1, None])
        if x < 0.45:
            t = r.choice(own_types)
            if r.random() < 0.04:
                t = r.choice(['NumberModel', 'BooleanModel', 'DateTimeModel', 'NoSuchModel'])
            c = self.pick_culture_string(kind, options)
            if kind == 2 and options != 0 and c is None and (target or '').lower() not in self.dt_extra[options]:
                c = self.dt_extra[options][0]
            return self.do(('G', desc, t, c, fb), lambda: inst.get_model(t, c, fb),
                           {'kind': 'get', 'inst': desc, 'type': t, 'culture': c, 'fb': fb, 'cjk': False})
        if x < 0.75:
            ws = [w for k, w in st['wrappers'] if k == kind]
            w = r.choice(ws)
            t, cjk = self.wrapper_info[(kind, w)]
            c = self.pick_culture_string(kind, options)
            if kind == 2 and options != 0 and c is None and (target or '').lower() not in self.dt_extra[options]:
                c = self.dt_extra[options][0]
            return self.do(('W', desc, t, cjk, c, fb), lambda: getattr(inst, w)(c, fb),
                           {'kind': 'wrapper', 'wrapper': w, 'inst': desc, 'type': t, 'culture': c, 'fb': fb, 'cjk': cjk})
        if x < 0.85:
            t = r.choice(own_types)
            c = r.choice(self.supported + ['en-gb', 'EN-US', None, '', 'f'])
            o = options if kind == 2 else r.choice([0, 0, 1, 5])
            if kind == 2 and o != 0 and c not in self.dt_extra[o]:
                c = self.dt_extra[o][0]
            return self.do(('F', kind, t, c, fb, o), lambda: inst.model_factory.get_model(t, c, fb, o),
                           {'kind': 'factory_get', 'inst': desc})
        if x < 0.95:
            t = r.choice(own_types)
            c = r.choice(self.supported + ['en-gb', 'EN-US', None, ''])
            o = options if kind == 2 else r.choice([0, 0, 1])
            if kind == 2 and o != 0 and c not in self.dt_extra[o]:
                c = self.dt_extra[o][0]
            return self.do(('T', kind, t, c, o), lambda: inst.model_factory.try_get_model(t, c, o),
                           {'kind': 'try_get', 'inst': desc})
        if kind == 2 and (options != 0 or (target is None and not self.ctx.thorough and self.r.random() < 0.7)):
            return None
        return self.do(('I', desc, identical), lambda: (inst.initialize_models(), 'ok')[1], {'kind': 'init', 'inst': desc})


def wrapper_table(st):
    """(kind, wrapper name) -> (model type, rewrites zh-/ja-): observed on an instance whose get_model only records"""
    out = {}
    for kind, w in st['wrappers']:
        C = st['real'][kind]
        calls = []

        class Rec(C):
            def get_model(self, t, c, fb):
                calls.append((t, c, fb))
        rec = Rec(lazy_initialization=False)
        getattr(rec, w)('zh-tw', False)
        out[(kind, w)] = (calls[0][0], calls[0][1] == 'zh-cn')
    return out


def target_spellings(supported):
    """target cultures of every spelling class"""
    out = []
    for code in supported:
        lang, _, region = code.partition('-')
        out += [code, code.upper(), code.title(), lang.upper() + '-' + region, lang + '-' + region.upper()]
    out += ['pt-pt', 'PT-PT', 'it-ch', 'nl-be', 'NL-be', 'de-at', 'de-CH', 'fr-ca', 'FR-be', 'zh-tw', 'zh-HK', 'ja-x', 'JA',
            'ko-xx', 'tr-cy', 'pt', 'fr',                       # regional variants of single-culture languages
            'en-gb', 'EN-au', 'es-ar', 'en', 'es',              # languages with several supported cultures
            'xx-yy', 'ru-ru', 'q', 'fra-fr', 'f', 'd', 'z-x',   # unknown
            '', ' ', '-', None]                                 # empty
    seen, res = set(), []
    for t in out:
        if t not in seen:
            seen.add(t)
            res.append(t)
    return res


def spelling_class(s, supported):
    if s is None:
        return 'none'
    if not s.strip(' -'):
        return 'empty'
    if s in supported:
        return 'canonical'
    if s.lower() in supported:
        return 'letter-case'
    if factory.spec_culture(s, supported) is not None:
        return 'regional-variant'
    return 'other'


def narrow_signature(meta, supported):
    """signature of a routing violation: which part of the request space it is in"""
    c = meta['culture']
    getter = meta.get('wrapper') or 'get_model'
    if c is None:
        return 'target-culture-default:%s-target' % spelling_class(meta['inst'][1], supported)
    if c == '':
        return 'empty-request-culture'
    cls = spelling_class(c, supported)
    if cls == 'letter-case':
        return 'letter-case-routing:%s' % getter
    if cls == 'regional-variant':
        return 'regional-variant-routing:%s' % getter
    return 'wrong-model-served'


def asked_string(meta):
    c = meta['culture']
    if c is None:
        c = meta['inst'][1]
    return c


def pipeline(ctx, st, repaired):
    cache = factory.cache_dict()
    if len(cache) != 0:
        raise common.InfraError('model cache is not empty at the start of the history (%d entries)' % len(cache))
    g = Gen(ctx, st)
    g.wrapper_info = wrapper_table(st)
    # deliberate opening: foreign model type before and after the owner built it; the three witnesses of the finding
    g.construct(4, None, 0, False)
    g.construct(0, None, 0, False)
    choice, number = g.insts[0], g.insts[1]
    g.do(('G', choice[1], 'NumberModel', 'en-us', False), lambda: choice[0].get_model('NumberModel', 'en-us', False),
         {'kind': 'get', 'inst': choice[1], 'type': 'NumberModel', 'culture': 'en-us', 'fb': False, 'cjk': False})
    g.do(('G', number[1], 'NumberModel', 'en-us', False), lambda: number[0].get_model('NumberModel', 'en-us', False),
         {'kind': 'get', 'inst': number[1], 'type': 'NumberModel', 'culture': 'en-us', 'fb': False, 'cjk': False})
    g.do(('G', choice[1], 'NumberModel', 'en-us', False), lambda: choice[0].get_model('NumberModel', 'en-us', False),
         {'kind': 'get', 'inst': choice[1], 'type': 'NumberModel', 'culture': 'en-us', 'fb': False, 'cjk': False})
    for w in ('f', 'z-x', 'd'):
        for fb in (True, False):
            g.do(('W', number[1], 'NumberModel', False, w, fb),
                 lambda w=w, fb=fb: number[0].get_number_model(w, fb),
                 {'kind': 'wrapper', 'wrapper': 'get_number_model', 'inst': number[1], 'type': 'NumberModel',
                  'culture': w, 'fb': fb, 'cjk': False})
    # ---- reference models: every registered (kind, type, culture) obtained straight from the factory with the
    # canonical code (try_get_model: no culture mapping, no getter, no fallback) -- identity reference of the oracles
    ref = {}
    refinst = {}
    for kind in range(len(st['real'])):
        g.construct(kind, None, 0, False)
        inst, desc, _ = g.insts[-1]
        refinst[kind] = (inst, desc)
        for (t, c) in st['regs'][kind]:
            x = g.do(('T', kind, t, c, 0), lambda inst=inst, t=t, c=c: inst.model_factory.try_get_model(t, c, 0),
                     {'kind': 'try_get', 'inst': desc})
            ref[(kind, t, c)] = x
    g.ref = ref
    getters = {kind: [(w,) + g.wrapper_info[(kind, w)] for (k, w) in st['wrappers'] if k == kind]
               for kind in range(len(st['real']))}
    # ---- family (a): recogniser objects constructed with a target culture of every spelling class x request culture
    # None / '' / explicit x every getter x fallback
    for kind in range(len(st['real'])):
        for target in target_spellings(st['supported']):
            if g.construct(kind, target, 0, False) != 'ok':
                continue
            inst, desc, _ = g.insts[-1]
            requests = [None, '']
            if target:
                requests.append(target)
            requests.append('fr-CA')
            for (w, t, cjk) in getters[kind]:
                for c in requests:
                    for fb in (True, False):
                        g.do(('W', desc, t, cjk, c, fb), lambda inst=inst, w=w, c=c, fb=fb: getattr(inst, w)(c, fb),
                             {'kind': 'wrapper', 'wrapper': w, 'inst': desc, 'type': t, 'culture': c, 'fb': fb,
                              'cjk': cjk, 'family': 'a'})
    # ---- family (b): every getter x every supported code x every upper/lower pattern of the code x fallback
    for kind in range(len(st['real'])):
        inst, desc = refinst[kind]
        for (w, t, cjk) in getters[kind]:
            for code in st['supported']:
                for c in case_patterns(code):
                    for fb in (True, False):
                        g.do(('W', desc, t, cjk, c, fb), lambda inst=inst, w=w, c=c, fb=fb: getattr(inst, w)(c, fb),
                             {'kind': 'wrapper', 'wrapper': w, 'inst': desc, 'type': t, 'culture': c, 'fb': fb,
                              'cjk': cjk, 'family': 'b', 'code': code})
    # every (kind, own type, supported culture) once through the wrapper, fallback off and on: the full routing table
    for kind in range(len(st['real'])):
        C = st['tagged'][kind]
        g.construct(kind, None, 0, False)
        inst, desc, _ = g.insts[-1]
        for (k, w) in st['wrappers']:
            if k != kind:
                continue
            t, cjk = g.wrapper_info[(kind, w)]
            for c in st['supported'] + ['en-gb', 'fr-ca', 'pt-pt', 'zh-tw', 'es-ar', 'xx-yy']:
                for fb in ((False, True) if kind != 2 else (True,)):
                    g.do(('W', desc, t, cjk, c, fb), lambda inst=inst, w=w, c=c, fb=fb: getattr(inst, w)(c, fb),
                         {'kind': 'wrapper', 'wrapper': w, 'inst': desc, 'type': t, 'culture': c, 'fb': fb, 'cjk': cjk})
    n_random = 2500 if ctx.thorough else 600
    for _ in range(n_random):
        g.step()
    ops, obs = g.ops, g.obs
    pred = common.driver([factory.hist_line(repaired, ops)])[0].split(';')
    ctx.count('history_ops', len(ops))
    ctx.extra['history_length'] = len(ops)
    ctx.extra['models_constructed'] = next(st['counter'])
    ctx.extra['cache_entries'] = len(cache)
    if len(pred) != len(ops):
        raise common.InfraError('driver answered %d outputs for %d operations' % (len(pred), len(ops)))
    kinds_hist = {}
    first_bad = None
    for j, (op, a, b, meta) in enumerate(zip(ops, obs, pred, g.meta)):
        kinds_hist[meta['kind']] = kinds_hist.get(meta['kind'], 0) + 1
        if a != 'ok' and a != 'none':
            ctx.nontriv(('h', op[0], str(op[1:])))
        if a != b and first_bad is None:
            first_bad = j
    ctx.extra['history_op_kinds'] = kinds_hist
    if first_bad is not None:
        j = first_bad
        lo = max(0, j - 6)
        ctx.report('correspondence', 'history',
                   'operation %d %r: implementation %s, model %s' % (j, ops[j], obs[j], pred[j]),
                   failing_input={'op_index': j, 'operation': repr(ops[j]), 'implementation': obs[j], 'model': pred[j],
                                  'preceding_ops': [repr(o) for o in ops[lo:j]],
                                  'preceding_outputs': obs[lo:j],
                                  'history_line_prefix': factory.hist_line(repaired, ops[:j + 1])},
                   property_fails=False)

    # ---- property oracles on the real observations (independent of the Lean model)
    by_serial = {}
    for x in g.raw:
        if hasattr(x, '_verif_tag'):
            by_serial.setdefault(x._verif_tag, set()).add(id(x))
    objs = {}
    for x in g.raw:
        if hasattr(x, '_verif_tag'):
            objs.setdefault(id(x), set()).add(x._verif_tag)
    for tag, ids in by_serial.items():
        if len(ids) > 1:
            ctx.report('property', 'equal-key-different-objects',
                       'two different model objects were returned for the constructor key %r' % (tag,),
                       failing_input={'key': tag}, property_fails=False)
    prefix_findings = []
    for j, (op, x, meta) in enumerate(zip(ops, g.raw, g.meta)):
        if meta['kind'] not in ('get', 'wrapper'):
            continue
        kind, target, options = meta['inst']
        regs = st['regs'][kind]
        t = meta['type']
        if t not in {tt for tt, _ in regs}:
            continue    # foreign model type: outside the property's quantifier (model-vs-implementation only)
        if meta['fb'] is not True and meta['fb'] is not False:
            continue    # the property speaks of fallback enabled / disabled: non-bool flags are model-vs-implementation only
        s = asked_string(meta)
        if meta['cjk'] and meta['culture'] and (meta['culture'].lower().startswith('zh-') or
                                                 meta['culture'].lower().startswith('ja-')):
            s = 'zh-cn'     # explicit rewriting of the sequence wrappers
        want = factory.spec_answer(regs, kind, t, s, meta['fb'], options)
        if isinstance(x, Exception):
            got = ('err', type(x).__name__)
        elif hasattr(x, '_verif_tag'):
            got = ('m',) + x._verif_tag
        else:
            got = ('?', repr(x))
        refobj = g.ref.get(want[1:4]) if want[0] == 'm' else None
        same_object = want[0] != 'm' or options != 0 or refobj is None or x is refobj
        if got != want or not same_object:
            fi = {'op_index': j, 'operation': repr(op), 'recognizer': factory.KIND_NAMES[kind], 'target_culture': target,
                  'options': options, 'getter': meta.get('wrapper') or 'get_model', 'model_type': t,
                  'request_culture': meta['culture'], 'fallback': repr(meta['fb']),
                  'observed': got, 'property_demands': want,
                  'call': '%sRecognizer(%r).%s(%s%r, %r)' % (
                      factory.KIND_NAMES[kind], target, meta.get('wrapper') or 'get_model',
                      '' if meta.get('wrapper') else repr(t) + ', ', meta['culture'], meta['fb'])}
            cm = factory.current_map(s, st['supported'])
            if got == want:
                ctx.report('property', 'equal-key-different-objects',
                           '%s returned a %r model that is not the cached object of that key' % (fi['call'], want[1:]),
                           failing_input=fi, property_fails=True)
            elif got[0] == 'm' and got[3] == cm and factory.spec_culture(s, st['supported']) is None:
                prefix_findings.append(fi)
            else:
                ctx.report('property', narrow_signature(meta, st['supported']),
                           '%s: got %r, the property demands %r' % (fi['call'], got, want),
                           failing_input=fi, property_fails=True)
    # ---- the same supported code in any letter case is routed identically (family b; independent of the oracle above)
    groups = {}
    for op, x, meta in zip(ops, g.raw, g.meta):
        if meta.get('family') == 'b':
            groups.setdefault((meta['inst'], meta['wrapper'], meta['code'], meta['fb']), []).append((meta['culture'], x))
    ncase = 0
    for (desc, w, code, fb), lst in groups.items():
        base = dict(lst).get(code)
        for c, x in lst:
            ncase += 1
            same = (x is base) or (isinstance(x, Exception) and isinstance(base, Exception) and type(x) is type(base))
            if not same:
                ctx.report('property', 'letter-case-routing:%s' % w,
                           '%sRecognizer(%r).%s(%r, %r) -> %s but with %r -> %s' % (
                               factory.KIND_NAMES[desc[0]], desc[1], w, c, fb, factory.show_out(x), code,
                               factory.show_out(base)),
                           failing_input={'recognizer': factory.KIND_NAMES[desc[0]], 'target_culture': desc[1],
                                          'getter': w, 'request_culture': c, 'fallback': fb,
                                          'observed': factory.show_out(x), 'canonical_spelling': code,
                                          'observed_for_canonical_spelling': factory.show_out(base)},
                           property_fails=True)
    ctx.count('letter_case_consistency', ncase)
    # ---- monitored, not judged: a request that leaves the culture to the target vs the same culture given explicitly
    # (the property judges each request by the culture it resolves to; the sequence getters' zh-/ja- shortcut looks at
    # the explicit argument only, so SequenceRecognizer('ja-jp').get_phone_number_model() differs from ...('ja-jp'))
    pairs = {}
    for op, x, meta in zip(ops, g.raw, g.meta):
        if meta.get('family') == 'a' and meta['inst'][1] and meta['culture'] in (None, meta['inst'][1]):
            pairs.setdefault((meta['inst'], meta['wrapper'], meta['fb']), {})[meta['culture'] is None] = x
    differs = []
    for (desc, w, fb), d in pairs.items():
        if True in d and False in d:
            a, b = d[True], d[False]
            if not ((a is b) or (isinstance(a, Exception) and isinstance(b, Exception) and type(a) is type(b))):
                differs.append('%sRecognizer(%r).%s(None, %r) -> %s ; (%r, %r) -> %s' % (
                    factory.KIND_NAMES[desc[0]], desc[1], w, fb, factory.show_out(a)[:60], desc[1], fb,
                    factory.show_out(b)[:60]))
    ctx.extra['default_vs_explicit_target_culture_differs'] = {'count': len(differs), 'examples': differs[:6]}
    # ---- language behaviour of the returned objects (probe sentences)
    seen = set()
    nprobe = 0
    silent = []
    for x in g.raw:
        tag = getattr(x, '_verif_tag', None)
        if tag is None or id(x) in seen:
            continue
        seen.add(id(x))
        kind, t, c, o = tag
        if t == 'NumberModel':
            probes, groups = NUMBER_PROBES, LANG_GROUP
        elif t == 'DateTimeModel':
            probes, groups = DATE_PROBES, DATE_GROUP
        else:
            continue
        for pc, q in probes.items():
            if t == 'NumberModel':
                res = [r.resolution.get('value') for r in x.parse(q)]
                ok = res == ['21']
            else:
                res = [(r.type_name, r.start, r.end) for r in x.parse(q, REF)]
                ok = res == [('datetimeV2.date', 0, len(q) - 1)]
            nprobe += 1
            own = groups[pc] == groups[c]
            if own and pc == c and not ok and o != 0:
                # options change what a model extracts (e.g. the CALENDAR filter); the property does not say what
                # a culture's model understands under non-default options: monitored, not judged
                silent.append({'model': tag, 'probe': q, 'result': repr(res)})
            elif own and pc == c and not ok:
                ctx.report('property', 'probe-own-language',
                           'the %s built for %s does not understand %r (%r)' % (t, c, q, res),
                           failing_input={'model': tag, 'probe': q, 'result': repr(res)}, property_fails=True)
            if not own and ok:
                ctx.report('property', 'probe-foreign-language',
                           'the %s built for %s understands the %s probe %r (%r)' % (t, c, pc, q, res),
                           failing_input={'model': tag, 'probe': q, 'result': repr(res)}, property_fails=True)
    ctx.count('language_probes', nprobe)
    ctx.extra['own_probe_not_understood_under_nondefault_options'] = silent[:10]
    ctx.sample({'history_head': [repr(o) for o in ops[3:9]], 'observed': obs[3:9]})
    return prefix_findings


def correspond(ctx):
    with factory.BalancedReports(ctx):
        _correspond(ctx)


def _correspond(ctx):
    st = factory.load()
    repaired, wrong = unit_map(ctx, st)
    unit_register(ctx, st)
    unit_options(ctx, st, repaired)
    prefix_findings = pipeline(ctx, st, repaired)

    # ---- the recorded finding: prefix routing (witnesses of the negative theorems, replayed end to end)
    from recognizers_number import recognize_number
    replay = []
    for w, q, lang in (('f', 'vingt et un', 'fr-fr'), ('z-x', '二十一', 'zh-cn'), ('d', 'einundzwanzig', 'de-de')):
        res = [r.resolution.get('value') for r in recognize_number(q, w)]
        replay.append({'call': 'recognize_number(%r, %r)' % (q, w), 'values': res})
        if res == ['21']:
            wrong_here = True
        else:
            wrong_here = False
        replay[-1]['answers_in'] = lang if wrong_here else 'not ' + lang
    ctx.extra['prefix_witness_replay'] = replay
    ctx.count('witness_replay', len(replay))
    if not repaired and any(r['answers_in'] in ('fr-fr', 'zh-cn', 'de-de') for r in replay):
        examples = sorted({w[0] for w in wrong if w[0] is not None}, key=lambda s: (len(s), s))[:12]
        ctx.report('property', 'culture-prefix-startswith',
                   'REGRESSION to the repaired defect: map_to_nearest_language tests supported.startswith(prefix) '
                   '(the tree matches the startswith variant of the model): %d of the unit inputs (e.g. %r) and %d '
                   'history requests are routed to a culture they do not denote; %s' % (
                       len(wrong), examples, len(prefix_findings), replay[0]),
                   failing_input={'call': replay[0]['call'], 'observed': replay[0]['values'],
                                  'expected': 'English model (fallback): no French number -> []',
                                  'more_inputs': examples, 'history_requests': prefix_findings[:5]},
                   property_fails=True)
    elif wrong or prefix_findings:
        w = (wrong or [None])[0]
        ctx.report('property', 'culture-routing',
                   'inputs routed against the property that the recorded prefix finding does not explain: %r %r' % (
                       wrong[:5], prefix_findings[:2]),
                   failing_input={'unit': [list(map(repr, x)) for x in wrong[:5]], 'history': prefix_findings[:3]},
                   property_fails=True)


def search(ctx, proof_problems):
    """A proof obligation about the regenerated tables broke: look for a concrete request the changed tables
    route against the property (evaluate the property's oracle over every supported / regional / prefix string
    for every own model type of every recogniser, on the real objects, cheap kinds only)."""
    st = factory.load()
    supported = st['supported']
    strings = list(supported) + REGIONAL + UNKNOWN + [c.upper() for c in supported]
    for kind in (3, 4, 1, 0):
        inst = st['tagged'][kind](lazy_initialization=False)
        regs = st['regs'][kind]
        for t in sorted({t for t, _ in regs}):
            for s in strings:
                for fb in (True, False):
                    want = factory.spec_answer(regs, kind, t, s, fb, 0)
                    try:
                        x = inst.get_model(t, s, fb)
                        got = ('m',) + getattr(x, '_verif_tag', ('?',))
                    except Exception as e:  # noqa
                        got = ('err', type(e).__name__)
                    if got != want and not (got[0] == 'm' and factory.spec_culture(s, supported) is None and
                                            got[3] == factory.current_map(s, supported)):
                        ctx.report('property', 'wrong-model-served',
                                   '%s.get_model(%r, %r, %r): got %r, the property demands %r' % (
                                       factory.KIND_NAMES[kind], t, s, fb, got, want),
                                   failing_input={'recognizer': factory.KIND_NAMES[kind], 'model_type': t, 'culture': s,
                                                  'fallback': fb, 'observed': got, 'property_demands': want},
                                   property_fails=True)
                        return
